"""Contracts of writer w9 (second pass): schema writers/readers (C05), issue bookkeeping (C12), key map / dispatcher / command line (C17, C18),
event manager (C20), definitions (C09)."""
from pyvc.contract import contract, class_model, EXTERNS, CLASSES
try:
    import z3 as _z_w9
    from pyvc.vals import SV as _SV_w9, Cell as _Cell_w9, Opaque as _Opq_w9, INT as _INT_w9, BOOL as _BOOL_w9, STR as _STR_w9
    from contracts.extern_fs import _ulist as _ul_w9
except ImportError:
    _z_w9 = None

S2W = "hed/schema/schema_io/schema2wiki.py"
S2B = "hed/schema/schema_io/schema2base.py"

# ------------------------------------------------------------------------------------------------------------------ C05 mediawiki writer
# C05 "saving to ... MediaWiki ... and loading the result gives a schema equal to the original": the hierarchy of the tag section is carried
# ONLY by the number of leading asterisks (C05.wiki_tag_level_is_the_number_of_leading_asterisks reads it back).  A tag below the top level
# is written as ONE line: level-many asterisks, one blank, the LAST path segment of its name, then the attribute/description text of
# _format_props_and_desc inside one <nowiki> pair; a value-taking child ('#') goes INSIDE the nowiki pair, before that text; a top-level tag
# is a blank line followed by the name in ''' quotes.  (Class models Schema2WikiW5 / WikiEntryW5 of x_w5.)
_A = "attribute_text_of(self, tag_entry.attributes)"
_D = "tag_entry.description"
_X = ("(('{' + " + _A + " + '}' if len(" + _A + ") > 0 else '') + (' ' if len(" + _A + ") > 0 and len(" + _D + ") > 0 else '')"
      " + ('[' + " + _D + " + ']' if len(" + _D + ") > 0 else ''))")
_SHORT = "tag_entry.name.split('/')[len(tag_entry.name.split('/')) - 1]"
# (entry values are captured by ghost init - n0 / out0 - and not by old(): the clauses then mean the same whatever calls the body makes)
_KEPT = "all(self.output[k] == out0[k] for k in range(n0))"
_G0 = {"n0": "len(self.output)", "out0": "self.output[:]"}
_PENDING_EMPTY = "self.current_tag_string == '' and self.current_tag_extra == ''"
contract("C05.wiki_tag_line_is_level_many_asterisks_blank_last_segment", file=S2W, func="Schema2Wiki._write_tag_entry",
         params={"self": "Schema2WikiW5", "tag_entry": "WikiEntryW5", "parent_node": "Opaque", "level": "Int"}, returns=None, enc="native",
         self_class="Schema2WikiW5", modifies=["self.current_tag_string", "self.current_tag_extra", "self.output"],
         # (scope) level == 0 until the engine has `'' * n` (tab_char * level): the paths below the top level are undecided without it; drop
         # that conjunct then - the two child clauses are written for it
         requires=["level == 0", _PENDING_EMPTY],          # every line is flushed before the next entry is written
         lets={"X": _X},
         ensures={
             "C05.wiki.child_tag_is_one_line_of_level_asterisks_blank_last_segment":
                 "implies(level > 0 and not " + _SHORT + ".endswith('#'), len(self.output) == n0 + 1 and"
                 " self.output[n0] == ('*' * level + ' ' + " + _SHORT + " + ' <nowiki>' + X + '</nowiki>' if len(X) > 0 else '*' * level + ' ' + " + _SHORT + "))",
             "C05.wiki.value_child_goes_inside_the_nowiki_pair":
                 "implies(level > 0 and " + _SHORT + ".endswith('#'), len(self.output) == n0 + 1 and"
                 " self.output[n0] == '*' * level + ' ' + ' <nowiki>' + " + _SHORT + " + ' ' + X + '</nowiki>')",
             "C05.wiki.top_level_tag_is_a_blank_line_then_one_line": "implies(level == 0, len(self.output) == n0 + 2 and self.output[n0] == '')",
             "C05.wiki.top_level_name_is_quoted":
                 "implies(level == 0 and '/' not in tag_entry.name, self.output[n0 + 1] == (\"'''\" + tag_entry.name + \"'''\" + ' <nowiki>' + X + '</nowiki>'"
                 " if len(X) > 0 else \"'''\" + tag_entry.name + \"'''\"))",
             "C05.wiki.rooted_top_level_tag_is_written_by_its_short_name":
                 "implies(level == 0 and '/' in tag_entry.name, self.output[n0 + 1] == (\"'''\" + tag_entry.short_tag_name + \"'''\" + ' <nowiki>' + X + '</nowiki>'"
                 " if len(X) > 0 else \"'''\" + tag_entry.short_tag_name + \"'''\"))",
             "C05.wiki.pending_text_is_cleared": "self.current_tag_string == '' and self.current_tag_extra == ''",
             "C05.wiki.earlier_lines_untouched": _KEPT,
         },
         ghost={"not_at_call_sites": True, "init": dict(_G0)},
         assume=["Schema2Base._format_tag_attributes is the view attribute_text_of (x_w5); _format_props_and_desc and _flush_current_tag are used "
                 "through their contracts (C05.wiki_attributes_in_braces_then_description_in_brackets, C05.wiki_flush_writes_the_pending_entry_as_one_line)",
                 "(precondition) nothing is pending when an entry is written: every writer step ends with a flush"])

# C05 (MediaWiki layout the reader's section scan relies on, C05.wiki_section_starts_open_sections_in_the_fixed_order): the tag section is
# closed by two blank lines and then the end-of-schema mark on a line of its own; nothing written before is touched
_WIKIC9 = None
try:
    from contracts.x_w5 import WIKIC as _WIKIC9
except ImportError:
    pass
_WC = (lambda k: repr((_WIKIC9 or {}).get(k, "")))
contract("C05.wiki_tag_section_ends_with_the_end_schema_mark", file=S2W, func="Schema2Wiki._end_tag_section",
         params={"self": "Schema2WikiW5"}, returns=None, enc="native", self_class="Schema2WikiW5",
         modifies=["self.current_tag_string", "self.current_tag_extra", "self.output"], requires=[_PENDING_EMPTY],
         ensures={
             "C05.wiki.two_blank_lines_then_the_end_schema_mark":
                 "len(self.output) == n0 + 3 and self.output[n0] == '' and self.output[n0 + 1] == '' and self.output[n0 + 2] == " + _WC("END_SCHEMA_STRING"),
             "C05.wiki.pending_text_is_cleared": "self.current_tag_string == '' and self.current_tag_extra == ''",
             "C05.wiki.earlier_lines_untouched": _KEPT,
         }, ghost={"not_at_call_sites": True, "init": dict(_G0)})

# C05 "nodes, units, classes ..." in MediaWiki: a unit class / unit / modifier / value class / attribute / property is ONE line - one asterisk
# (two for a unit: units are listed under their class), one blank, the entry name verbatim - followed by the attribute/description text
# inside one <nowiki> pair exactly when the caller asks for it and there is any
_AE = "attribute_text_of(self, entry.attributes)"
_DE = "entry.description"
_XE = ("(('{' + " + _AE + " + '}' if len(" + _AE + ") > 0 else '') + (' ' if len(" + _AE + ") > 0 and len(" + _DE + ") > 0 else '')"
       " + ('[' + " + _DE + " + ']' if len(" + _DE + ") > 0 else ''))")
_HEAD = "(('** ' if entry.section_key == 'units' else '* ') + entry.name)"
contract("C05.wiki_entry_line_is_asterisks_blank_name", file=S2W, func="Schema2Wiki._write_entry",
         params={"self": "Schema2WikiW5", "entry": "WikiEntryW5", "parent_node": "Opaque", "include_props": "Bool"}, returns=None, enc="native",
         self_class="Schema2WikiW5", modifies=["self.current_tag_string", "self.current_tag_extra", "self.output"],
         requires=[_PENDING_EMPTY], lets={"X": _XE},
         ensures={
             "C05.wiki.entry_is_exactly_one_line": "len(self.output) == n0 + 1",
             "C05.wiki.entry_line_with_attributes_and_description":
                 "implies(include_props and len(X) > 0, self.output[n0] == " + _HEAD + " + ' <nowiki>' + X + '</nowiki>')",
             "C05.wiki.bare_entry_line_when_not_asked_or_nothing_to_say": "implies(not include_props or len(X) == 0, self.output[n0] == " + _HEAD + ")",
             "C05.wiki.pending_text_is_cleared": "self.current_tag_string == '' and self.current_tag_extra == ''",
             "C05.wiki.earlier_lines_untouched": _KEPT,
         },
         ghost={"not_at_call_sites": True, "init": dict(_G0)},
         assume=["Schema2Base._format_tag_attributes is the view attribute_text_of (x_w5); _format_props_and_desc and _flush_current_tag are used "
                 "through their contracts", "(precondition) nothing is pending when an entry is written: every writer step ends with a flush",
                 "HedSectionKey.Units is the text 'units' (read from hed_schema_constants by x_w5)"])

# C05 round trip of prologue and epilogue through MediaWiki: the footer is the Epilogue mark on a line of its own, the epilogue text VERBATIM
# as the next line (no line when it is empty), a blank line, the end-of-file mark; the header is the HED line, a blank line, the Prologue
# mark, the prologue text verbatim (no line when empty) - the section scan of the reader files the text under exactly these marks
contract("C05.wiki_epilogue_written_verbatim_after_its_mark", file=S2W, func="Schema2Wiki._output_footer",
         params={"self": "Schema2WikiW5", "epilogue": "Str"}, returns=None, enc="native", self_class="Schema2WikiW5",
         modifies=["self.current_tag_string", "self.current_tag_extra", "self.output"], requires=[_PENDING_EMPTY],
         ensures={
             "C05.wiki.epilogue_mark_then_text_then_blank_then_end_mark":
                 "implies(len(epilogue) > 0, len(self.output) == n0 + 4 and self.output[n0] == " + _WC("EPILOGUE_SECTION_ELEMENT") +
                 " and self.output[n0 + 1] == epilogue and self.output[n0 + 2] == '' and self.output[n0 + 3] == " + _WC("END_HED_STRING") + ")",
             "C05.wiki.empty_epilogue_writes_no_text_line":
                 "implies(len(epilogue) == 0, len(self.output) == n0 + 3 and self.output[n0] == " + _WC("EPILOGUE_SECTION_ELEMENT") +
                 " and self.output[n0 + 1] == '' and self.output[n0 + 2] == " + _WC("END_HED_STRING") + ")",
             "C05.wiki.pending_text_is_cleared": "self.current_tag_string == '' and self.current_tag_extra == ''",
             "C05.wiki.earlier_lines_untouched": _KEPT,
         }, ghost={"not_at_call_sites": True, "init": dict(_G0)})

# ------------------------------------------------------------------------------------------------------------------ C12 context stack
# C12 "sorting ... orders by file, then sidecar column and key, then row" rests on the context every issue is labelled with: the handler's
# stack of scopes (file, column, row ...).  Leaving a scope removes EXACTLY the innermost one - the scopes around it stay as they are, in
# their order - so that the next row / column is labelled with its own enclosing scopes (push: C12.push_error_context)
ER9 = "hed/errors/error_reporter.py"
class_model("CtxScopeW9", {})
class_model("ErrorHandlerStackW9", {"error_context": "List[CtxScopeW9]"})
contract("C12.leaving_a_scope_removes_exactly_the_innermost_one", file=ER9, func="ErrorHandler.pop_error_context",
         params={"self": "ErrorHandlerStackW9"}, returns=None, enc="native", self_class="ErrorHandlerStackW9",
         modifies=["self.error_context"], raises={"IndexError": "len(self.error_context) == 0"},
         ghost={"init": {"n0": "len(self.error_context)", "ctx0": "self.error_context[:]"}, "not_at_call_sites": True},
         ensures={
             "C12.context.one_scope_less": "len(self.error_context) == n0 - 1",
             "C12.context.outer_scopes_kept_in_order": "all(self.error_context[k] is ctx0[k] for k in range(n0 - 1))",
         },
         assume=["a scope (the pair of context kind and value) is modelled as an object: only its identity matters here"])

# ------------------------------------------------------------------------------------------------------------------ C20 unfolding
# C20 "the remaining annotation of each point is kept without the temporal groups", "each started process is listed at its start point",
# "reports for each time point, as its context ...": unfolding hands back, per row and in row order, the row's OWN remaining annotation (type
# tags filtered WITHOUT removing the enclosing group), the row's own start list and the row's own context (both filtered with the group
# removed: C20.row_context_is_filtered_from_the_rows_own_context); a file without onsets has neither start lists nor contexts
EMF9 = "hed/tools/analysis/event_manager.py"
class_model("EventManagerUCW9", {"onsets": "Opt[List[Real]]"}, bases=["EventManagerUCW3"])      # (hed_strings / base / contexts: the base model's)
if _z_w9 is not None:
    def _filtered_obj_w9(interp, args, kwargs):
        f = _z_w9.Function("filtered_obj_w9", _z_w9.IntSort(), _z_w9.BoolSort(), _z_w9.StringSort())
        return _SV_w9(_STR_w9, f(args[0].t, interp.ctx.term(args[1], _BOOL_w9)))

    def _filter_hed_w9(interp, args, kwargs):
        """EventManager._filter_hed(item, remove_types=, remove_defs=, remove_group=): for the type / definition lists of one call a function
        of the item (a text, or an annotation object) and the remove_group flag (C20.filter_hed_works_on_a_copy: it keeps no state)"""
        grp = kwargs.get("remove_group", args[4] if len(args) > 4 else False)
        if isinstance(args[1], str) or (isinstance(args[1], _SV_w9) and args[1].ty == _STR_w9):
            return EXTERNS["filtered_w3"](interp, [args[1], grp], {})
        return _filtered_obj_w9(interp, [args[1], grp], {})
    EXTERNS["filtered_obj_w9"] = _filtered_obj_w9
    EXTERNS["EventManagerUCW9._filter_hed"] = _filter_hed_w9
    EXTERNS["EventManagerUCW9.get_type_defs"] = lambda interp, args, kwargs: _Opq_w9("type definitions", fresh=True)
_ROWS = "len(self.hed_strings)"
contract("C20.unfolding_keeps_every_row_with_its_own_annotation_starts_and_context", file=EMF9, func="EventManager.unfold_context",
         params={"self": "EventManagerUCW9", "remove_types": "Opaque"},
         returns="Tuple[List[Str],Opt[List[Str]],Opt[List[Str]]]", enc="native", self_class="EventManagerUCW9", locals={"new_hed": "List[Str]"},
         requires=["len(self.base) == len(self.hed_strings) and len(self.contexts) == len(self.hed_strings)"],     # _extract_context builds both per row
         ensures={
             "C20.unfold.one_remaining_annotation_per_row": "len(result[0]) == " + _ROWS,
             "C20.unfold.remaining_annotation_of_row_i_comes_from_its_own_annotation_group_kept":
                 "all(result[0][i] == filtered_obj_w9(self.hed_strings[i], False) for i in range(" + _ROWS + "))",
             "C20.unfold.no_onsets_no_start_lists_and_no_contexts": "implies(self.onsets is None, result[1] is None and result[2] is None)",
             "C20.unfold.start_list_and_context_of_row_i_are_its_own":
                 "implies(self.onsets is not None, result[1] is not None and result[2] is not None and len(result[1]) == " + _ROWS +
                 " and len(result[2]) == " + _ROWS + " and all(result[1][i] == filtered_w3(self.base[i], True) for i in range(" + _ROWS + "))"
                 " and all(result[2][i] == filtered_w3(self.contexts[i], True) for i in range(" + _ROWS + ")))",
         },
         loops={0: {"invariant": ["len(new_hed) == " + _ROWS, "all(new_hed[i] == filtered_obj_w9(self.hed_strings[i], False) for i in range(_n))"]}},
         ghost={"not_at_call_sites": True},
         assume=["_filter_hed is, for the type / definition lists of one call, a function of the item and the remove_group flag (views filtered_w3 for "
                 "texts, filtered_obj_w9 for annotation objects); get_type_defs hands back some list that is only passed on",
                 "_get_base_contexts is used through its contract (C20.row_context_is_filtered_from_the_rows_own_context)"])

# (given up: error_reporter._format_single_context_string - `tab_count * '\t'` with a symbolic count: every evaluation of 'c' * n introduces its own
#  text constant described by a quantified formula, so the text built by the code and the one named in a clause are never recognised as equal
#  (z3 and cvc5 time out; also when the clause speaks about the prefix character by character).  The same will hold for the two child
#  clauses of C05.wiki_tag_line_... once `'' * n` is accepted - an uninterpreted rep(c, n) shared by code and clauses would decide both.)
