from pyvc.contract import contract, class_model, EXTERNS, CLASSES

B = "hed/schema/schema_io/schema2base.py"
class_model("SchemaObj", {"library": "Str", "with_standard": "Str", "merged": "Bool", "filename": "Opaque", "prologue": "Opaque", "epilogue": "Opaque",
                          "tags": "Opaque", "unit_classes": "Opaque"})
class_model("Schema2Base", {"_save_lib": "Bool", "_save_base": "Bool", "_strip_out_in_library": "Bool", "_save_merged": "Bool",
                            "_schema": "Opaque", "output": "Opaque"})
class_model("SaveEntry", {"attributes": "Map[Str,Str]"})
try:
    import z3
    from pyvc.vals import SV, INT
    from contracts.extern_fs import _entry_has_attribute

    def _output_effect(interp, args, kwargs):
        g = interp.ctx.ghost
        g["outputs"] = SV(INT, interp.ctx.term(g["outputs"], INT) + 1)
        return None
    for _m in ("_initialize_output", "_output_header", "_output_tags", "_output_units", "_output_section", "_output_footer"):
        EXTERNS["Schema2Base." + _m] = _output_effect
    EXTERNS["SchemaObj.get_save_header_attributes"] = lambda interp, args, kwargs: __import__("pyvc.vals", fromlist=["Opaque"]).Opaque("header", fresh=True)
    EXTERNS["SaveEntry.has_attribute"] = _entry_has_attribute
except ImportError:
    pass

# C05: "A schema merged from several libraries refuses to save"
contract("C05.can_save", file="hed/schema/hed_schema.py", func="HedSchema.can_save",
         params={"self": "SchemaObj"}, returns="Bool", enc="native", self_class="SchemaObj",
         ensures={"C05.refuse.can_save_iff_single_library": "result == (',' not in self.library)"})

contract("C05.process_schema", file=B, func="Schema2Base.process_schema",
         params={"self": "Schema2Base", "hed_schema": "SchemaObj", "save_merged": "Bool"}, returns="Opaque", enc="native",
         modifies=["self._save_lib", "self._save_base", "self._strip_out_in_library", "self._save_merged", "self._schema"],
         ghost={"init": {"outputs": "0"}},
         raises={"HedFileError": "',' in hed_schema.library"},
         ensures={
             # refusal happens before anything is written
             "exc:C05.refuse.nothing_written": "outputs == 0",
             # selection table: which entries / attributes are written (inLibrary kept only when saving merged; base entries only when merged)
             "C05.select.standard_or_standalone_library": "implies(len(hed_schema.with_standard) == 0, self._save_lib and self._save_base"
                                                          " and self._strip_out_in_library and self._save_merged)",
             "C05.select.partnered_merged": "implies(len(hed_schema.with_standard) > 0 and save_merged, self._save_lib and self._save_base"
                                            " and not self._strip_out_in_library and self._save_merged)",
             "C05.select.partnered_unmerged": "implies(len(hed_schema.with_standard) > 0 and not save_merged, self._save_lib and not self._save_base"
                                              " and self._strip_out_in_library and not self._save_merged)",
             "C05.select.all_sections_written": "outputs == 9",
         })

contract("C05.should_skip", file=B, func="Schema2Base._should_skip",
         params={"self": "Schema2Base", "entry": "SaveEntry"}, returns="Bool", enc="native",
         ensures={"C05.select.skip_rule": "result == ((not self._save_base and 'inLibrary' not in entry.attributes)"
                                          " or (not self._save_lib and 'inLibrary' in entry.attributes))"})

contract("C05.attribute_disallowed", file=B, func="Schema2Base._attribute_disallowed",
         params={"self": "Schema2Base", "attribute": "Str"}, returns="Bool", enc="native",
         ensures={"C05.select.inLibrary_stripped_unless_merged": "result == (self._strip_out_in_library and attribute == 'inLibrary')"})

# C05 "every entry ... written": what is written for one unit class / entry does not depend on the classes before it (no value carried between
# iterations, no break) - def-before-use analysis of the real loop bodies (pyvc/dataflow.py).  (_output_tags deliberately carries the depth
# offset of a rooted subtree between iterations and is therefore not claimed here.)
IND5 = {"dataflow_only": True, "no_frame": True}
contract("C05.unit_classes_written_independently", file=B, func="Schema2Base._output_units",
         params={"self": "Opaque", "unit_classes": "Opaque"}, returns="Opaque", enc="native",
         ghost=dict(IND5, independent_iterations={0: [], 1: []}), ensures={})
contract("C05.section_entries_written_independently", file=B, func="Schema2Base._output_section",
         params={"self": "Opaque", "hed_schema": "Opaque", "key_class": "Opaque"}, returns="Opaque", enc="native",
         ghost=dict(IND5, independent_iterations={0: []}), ensures={})
