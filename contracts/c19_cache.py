from pyvc.contract import contract, class_model

class_model("CacheLock", {"cache_folder": "Str", "cache_lock_filename": "Str", "cache_lock": "Opt[PLock]",
                          "timestamp": "Opaque", "write_time": "Bool", "time_threshold": "Real",
                          "current_timestamp": "Real"})

# C19 L3: the bookkeeping is total - a missing OR unparsable timestamp file reads as 0, nothing escapes
contract("C19.read_last_cached_time",
         file="hed/schema/hed_cache_lock.py", func="_read_last_cached_time",
         params={"cache_folder": "Str"}, returns="Real", enc="native",
         raises={},
         ensures={"C19.L3.timestamp_read_is_total": "True"},
         assume=["open(r) may raise FileNotFoundError; float(text) raises ValueError on unparsable text (extern model)"])

# C19 L1: lock discipline - __enter__ returns normally only while holding the OS lock
contract("C19.cache_lock_enter",
         file="hed/schema/hed_cache_lock.py", func="CacheLock.__enter__",
         params={"self": "CacheLock"}, returns=None, enc="native",
         raises={"CacheException": "True"},
         modifies=["self.cache_lock", "self.current_timestamp"],
         ghost={"sets": {"cache_locked": "True", "lock_keeps_refresh_time": "self.write_time"},
                "init": {"fs_mkdir_may_clash": "False", "lock_wait_is_the_short_constant": "False"}},
         ensures={
             "C19.L1.returns_only_with_lock_held": "self.cache_lock is not None and self.cache_lock.held",
             # "runs concurrently in several processes ... no later or concurrent load fails": two first users may both find the cache
             # folder missing - creating it must tolerate that the other one was faster
             "C19.L1.creating_the_folder_tolerates_a_concurrent_creator": "not fs_mkdir_may_clash",
             # "a holder that cannot get the lock within its timeout gives up": the wait is a short constant of its own (seconds), never
             # the refresh interval or another long, configurable time
             "C19.L1.lock_wait_is_a_short_constant": "lock_wait_is_the_short_constant",
         })

contract("C19.cache_lock_exit",
         file="hed/schema/hed_cache_lock.py", func="CacheLock.__exit__",
         params={"self": "CacheLock", "exc_type": "Opaque", "exc_value": "Opaque", "traceback": "Opaque"},
         returns=None, enc="native",
         requires=["self.cache_lock is not None and self.cache_lock.held"],
         raises={"ValueError": "True"},
         modifies=["heap:PLock.held"],
         ghost={"sets": {"cache_locked": "False"}, "init": {"fs_remove_count": "0", "time_written": "0"}},
         ensures={"C19.L1.released_on_exit": "not self.cache_lock.held",
                  # "a refresh attempted within the refresh interval is skipped": the time of the ATTEMPT is recorded on every way out of
                  # the locked region (also when the refresh failed, e.g. offline) - exactly when this holder keeps the time at all
                  "C19.L3.attempt_time_recorded_on_every_exit_iff_this_holder_keeps_time": "time_written == (1 if self.write_time else 0)",
                  # flock discipline: the lock FILE stays - unlinking it lets a waiter lock the old inode while a newcomer locks a new file
                  "C19.L1.lock_file_is_never_unlinked": "fs_remove_count == 0"})

contract("C19.write_last_cached_time",
         file="hed/schema/hed_cache_lock.py", func="_write_last_cached_time",
         params={"new_time": "Real", "cache_folder": "Str"}, returns=None, enc="native",
         raises={"ValueError": "True"}, ghost={"init": {"fs_non_truncating_opens": "0"}, "sets": {"time_written": "time_written + 1"}},
         ensures={"C19.L3.write_only_documented_error": "True",
                  # bookkeeping: the file holds THE time of the last refresh - it is replaced, never appended to (the reader takes the first line)
                  "C19.L3.timestamp_replaces_the_previous_one": "fs_non_truncating_opens == 0"})

# C19 L2: atomic publication - a non-atomic copy never targets a name that the cache serves
contract("C19.copy_installed_folder_to_cache",
         file="hed/schema/hed_cache.py", func="_copy_installed_folder_to_cache",
         params={"cache_folder": "Str", "sub_folder": "Str"}, returns=None, enc="native",
         ghost={"init": {"fs_torn_servable": "False"}, "vars": {"cache_locked": "Bool", "lock_keeps_refresh_time": "Bool"}},
         # C19 L1: population writes only while the folder lock is held. "a refresh attempted within the refresh interval is skipped" is
         # about downloads: copying the INSTALLED files is no refresh - its lock neither obeys nor records the refresh time (otherwise a
         # folder with a recent time stamp and a missing file is not repopulated, and a population postpones the next real refresh)
         requires=["cache_locked", "not lock_keeps_refresh_time"],
         raises={"OSError": "True"},
         ensures={"C19.L2.no_in_place_copy_to_served_name": "not fs_torn_servable"},
         assume=["iteration over os.listdir is explored as one arbitrary iteration from a havocked state "
                 "(sound for the monotone ghost flag fs_torn_servable)"])

contract("C19.safe_move_tmp_to_folder",
         file="hed/schema/hed_cache.py", func="_safe_move_tmp_to_folder",
         params={"temp_hed_xml_file": "Str", "dest_filename": "Str"}, returns="Opt[Str]", enc="native",
         requires=["not servable_in_any_folder(temp_hed_xml_file)"],
         ghost={"init": {"fs_torn_servable": "False"}},
         raises={"OSError": "True"},
         ensures={"C19.L2.download_published_by_replace_only": "not fs_torn_servable"},
         assume=["temporary download names (tempfile.NamedTemporaryFile) are not names the cache serves, in any folder"])

class_model("CacheLockInit", {})
contract("C19.cache_lock_init",
         file="hed/schema/hed_cache_lock.py", func="CacheLock.__init__",
         params={"self": "CacheLock", "cache_folder": "Str", "write_time": "Bool", "time_threshold": "Real"},
         returns=None, enc="native",
         modifies=["self.cache_folder", "self.cache_lock_filename", "self.cache_lock", "self.timestamp", "self.write_time",
                   "self.time_threshold"],
         ensures={"C19.L1.init_fields": "self.cache_folder == cache_folder and self.cache_lock is None"
                                        " and self.write_time == write_time and self.time_threshold == time_threshold",
                  # "two holders of the cache lock for one directory never overlap": the lock file is the entry 'cache_lock.lock' OF that
                  # directory (os.path.join), so every spelling of the directory names the same file - text concatenation would not
                  "C19.L1.lock_file_is_the_entry_of_the_locked_folder":
                      "self.cache_lock_filename == os.path.join(cache_folder, 'cache_lock.lock')"})

# C19 L1/L3: first-use population runs under the folder lock and lets only the documented result escape
contract("C19.cache_local_versions",
         file="hed/schema/hed_cache.py", func="cache_local_versions",
         params={"cache_folder": "Str"}, returns="Opt[Int]", enc="native",
         ghost={"init": {"cache_locked": "False"}},
         modifies=["heap:PLock.held"],
         raises={"OSError": "True", "ValueError": "True"},
         ensures={"C19.L1.lock_released_after_population": "not cache_locked"})
