"""Third pass, writer w10: validator and error-reporting code (C01, C04, C07, C09, C11, C12, C20)."""
from pyvc.contract import contract, class_model, EXTERNS

DV_W10 = "hed/validator/def_validator.py"
# C09 "a Def tag whose value is missing (or extra) is reported": the helper hands back exactly one error-severity issue whose code is the
# one of the four value codes chosen by (entry takes a value, tag is a Def-expand tag)
class_model("DefEntryW10", {"takes_value": "Bool"})
contract("C09.w10.missing_or_extra_value_is_one_error", file=DV_W10, func="DefValidator._report_missing_or_invalid_value",
         params={"def_tag": "HedTag", "def_entry": "DefEntryW10", "is_def_expand_tag": "Bool"}, returns="List[Issue]", enc="native",
         ghost={"not_at_call_sites": True},
         ensures={"one": "len(result) == 1 and result[0].severity == 1",
                  "C09.value_report.kind_by_entry_and_tag_form":
                      "result[0].kind == (('HED_DEF_EXPAND_VALUE_MISSING' if is_def_expand_tag else 'HED_DEF_VALUE_MISSING') if def_entry.takes_value"
                      " else ('HED_DEF_EXPAND_VALUE_EXTRA' if is_def_expand_tag else 'HED_DEF_VALUE_EXTRA'))",
                  "C09.value_report.about_the_tag": "result[0].has_source_tag and result[0].source_tag is def_tag"})
# the same function with the parameter types of the trusted summary C09.report_missing_or_invalid_value (class model DefEntry has no
# takes_value field: this proof sees the flag as an unknown attribute; the four-way split is the contract above)
contract("C09.w10.missing_or_extra_value_summary_proved", file=DV_W10, func="DefValidator._report_missing_or_invalid_value",
         params={"def_tag": "HedTag", "def_entry": "DefEntry", "is_def_expand_tag": "Bool"}, returns="List[Issue]", enc="native",
         ghost={"not_at_call_sites": True, "discharges": "C09.report_missing_or_invalid_value"},
         ensures={"one": "len(result) == 1 and result[0].severity == 1",
                  "C09.value_report.list_is_the_callers_own": "fresh(result)",
                  "C09.value_report.is_about_the_tag": "result[0].has_source_tag and result[0].source_tag is def_tag"})

# ------------------------------------------------------------------------------------------------------------------ C01 capitalization note
# re.search(pattern, text) is used by the code below only for its truth value: an unknown Bool (nothing is said about which texts match)
if "re.search" not in EXTERNS:
    try:
        import z3 as _z3_w10
        from pyvc.vals import SV as _SV_w10, BOOL as _BOOL_w10
        EXTERNS["re.search"] = lambda interp, args, kwargs: _SV_w10(_BOOL_w10, _z3_w10.Bool(interp.ctx.fresh_name("re_search")))
        if "str.capitalize" not in EXTERNS:
            # text.capitalize(): some deterministic function of the text (which one is not modelled)
            from contracts.extern_fs import _ufun as _ufun_w10
            EXTERNS["str.capitalize"] = _ufun_w10("capitalized_w10", 1)
    except ImportError:
        pass
TU_W10 = "hed/validator/util/tag_util.py"
# C01 "capitalization is a style WARNING": whatever the names of the tag look like, the check hands back at most one issue, a STYLE_WARNING
# of warning severity about the tag it was given - never an error
contract("C01.w10.capitalization_is_at_most_one_style_warning", file=TU_W10, func="TagValidator.check_capitalization",
         params={"self": "TagValidator", "original_tag": "HedTag"}, returns="List[Issue]", enc="native",
         ghost={"not_at_call_sites": True, "discharges": "C01.check_capitalization"},
         locals={"tag_names": "List[Str]", "validation_issues": "List[Issue]"},
         loops={0: {"invariant": ["len(validation_issues) == 0"]}},
         ensures={"style_only": "all_in(result, lambda x: x.code == 'STYLE_WARNING' and x.severity == 10)",
                  "C01.capitalization.at_most_one_note": "len(result) <= 1 and fresh(result)",
                  "C01.capitalization.note_is_about_the_tag": "all_in(result, lambda x: x.kind == 'STYLE_WARNING' and x.has_source_tag and x.source_tag is original_tag)"},
         assume=["re.search is used for its truth value only (unknown Bool); str.capitalize is some deterministic function of the text"])



# ------------------------------------------------------------------------------------------------------------------ C12 issue construction
ER_W10 = "hed/errors/error_reporter.py"
# C12 "each issue ... has a code, a message and a severity": the issue dict is built with these three keys FIRST and the extra keyword
# entries are added with setdefault - an extra entry spelled 'code' / 'message' / 'severity' never replaces the published one, every other
# extra entry is kept, and no further key appears
contract("C12.w10.issue_dict_keeps_code_message_severity", file=ER_W10, func="ErrorHandler._create_error_object",
         params={"error_type": "Str", "base_message": "Str", "severity": "Str", "kwargs": "Map[Str,Str]"}, returns="Map[Str,Str]", enc="native",
         locals={"error_object": "Map[Str,Str]"}, ghost={"not_at_call_sites": True},
         loops={0: {"invariant": [
             "'code' in error_object and 'message' in error_object and 'severity' in error_object",
             "error_object['code'] == error_type and error_object['message'] == base_message and error_object['severity'] == severity",
             "forall_str(lambda p: implies(p in error_object, p in kwargs or p == 'code' or p == 'message' or p == 'severity'))",
             "forall_str(lambda p: implies(p in error_object and p != 'code' and p != 'message' and p != 'severity', error_object[p] == kwargs[p]))",
         ]}},
         ensures={
             "C12.issue.code_message_severity_are_the_ones_given":
                 "'code' in result and 'message' in result and 'severity' in result and "
                 "result['code'] == error_type and result['message'] == base_message and result['severity'] == severity",
             "C12.issue.no_key_invented": "forall_str(lambda p: implies(p in result, p in kwargs or p == 'code' or p == 'message' or p == 'severity'))",
             "C12.issue.extra_entries_carry_the_value_given":
                 "forall_str(lambda p: implies(p in result and p != 'code' and p != 'message' and p != 'severity', result[p] == kwargs[p]))",
         },
         assume=["the body is parametric in the values: message, severity and the extra values are all typed as texts here"])

# ------------------------------------------------------------------------------------------------------------------ C11/C01 value-class portion
CLU_W10 = "hed/validator/util/class_util.py"


def _bool_view_w10(name):
    def f(interp, args, kwargs):
        import z3
        from pyvc.vals import SV, BOOL, sort_of
        ctx = interp.ctx
        ts = []
        for a in args:
            if isinstance(a, SV) and a.ty.name == "Opt":      # a clause names the value of an optional text (guarded by `is not None`)
                a = SV(a.ty.args[0], sort_of(a.ty).val(a.t))
            ts.append(ctx.term(a, ctx.type_of(a)))
        return SV(BOOL, z3.Function(name, *[x.sort() for x in ts], z3.BoolSort())(*ts))
    return f


EXTERNS["value_fits_classes_w10"] = _bool_view_w10("value_fits_classes_w10")
class_model("ValueClassesW10", {})
class_model("ValueTagW10", {"value_classes": "ValueClassesW10"})
class_model("UnitValueValidatorW10", {})
contract("C11.w10.value_class_type_view", file=CLU_W10, func="UnitValueValidator.validate_value_class_type",
         params={"self": "UnitValueValidatorW10", "unit_or_value_portion": "Str", "valid_types": "ValueClassesW10"}, returns="Bool", enc="native",
         trusted=True, self_class="UnitValueValidatorW10", ensures={"named": "result == value_fits_classes_w10(self, unit_or_value_portion, valid_types)"},
         assume=["validate_value_class_type is a deterministic function of the validator, the text and the value classes (value_fits_classes_w10): "
                 "it calls validator functions stored in a dict (outside the encoding)"])
# C01 "bad unit or value ... reports an error" / C11: the value portion of a tag is judged against the value classes OF THAT TAG and the text
# as given; an absent portion is never a valid value
contract("C11.w10.value_portion_is_judged_against_the_tags_value_classes", file=CLU_W10, func="UnitValueValidator._validate_value_class_portion",
         params={"self": "UnitValueValidatorW10", "original_tag": "ValueTagW10", "portion_to_validate": "Opt[Str]"}, returns="Bool", enc="native",
         self_class="UnitValueValidatorW10", also=["C01"], ghost={"not_at_call_sites": True},
         ensures={
             "C11.value_portion.absent_is_not_valid": "implies(portion_to_validate is None, result == False)",
             "C11.value_portion.judged_against_the_classes_of_the_tag":
                 "implies(portion_to_validate is not None, result == value_fits_classes_w10(self, portion_to_validate, original_tag.value_classes))",
         })

# ------------------------------------------------------------------------------------------------------------------ C12 plain (non-tag) wrapper
# C12 "each issue ... has a code, a message and a severity": the wrapper @hed_error puts around every non-tag message function publishes the
# ACTUAL code of the decorator (not the internal kind) with the severity asked for, calls the message function exactly once, and names no tag
contract("C12.w10.plain_wrapper_publishes_actual_code_and_severity", file=ER_W10, func="hed_error.inner_decorator.wrapper",
         params={"args": "Opaque", "severity": "Int", "kwargs": "Opaque"}, returns="Issue", enc="native", also=["C01"],
         ghost={"free": {"func": "Recorder", "actual_code": "Str", "error_type": "Str", "default_severity": "Int"}, "init": {"calls_func": "0"},
                "no_frame": True, "not_at_call_sites": True},
         ensures={
             "C12.plain.published_code_and_severity": "result.code == actual_code and result.severity == severity",
             "C12.plain.message_function_called_once": "calls_func == 1",
             "C12.plain.names_no_tag_and_no_indices": "not result.has_source_tag and not result.has_index_in_tag and not result.has_char_index",
         },
         assume=["_create_error_object modelled (issue dict as Issue object; its body: C12.w10.issue_dict_keeps_code_message_severity); "
                 "the message function is an unknown callable whose calls are recorded"])

# ------------------------------------------------------------------------------------------------------------------ C12 kind table
# C12 "each issue ... has a code": format_error finds the wrapper of a kind in ONE table; registering a kind twice is refused (the second
# decorator would silently replace the published code / severity of the first), a new kind is entered under its own name and no other
# entry of the table is touched
contract("C12.w10.kind_is_registered_once_under_its_name", file=ER_W10, func="_register_error_function",
         params={"error_type": "Str", "wrapper_func": "Str"}, returns=None, enc="native",
         ghost={"free": {"error_functions": "Map[Str,Str]"}, "not_at_call_sites": True}, modifies=["error_functions"],
         raises={"KeyError": "error_type in error_functions"},
         ensures={
             "C12.kinds.new_kind_entered_under_its_name": "error_type in error_functions and error_functions[error_type] == wrapper_func",
             "C12.kinds.no_other_entry_touched": "forall_str(lambda p: implies(p != error_type, (p in error_functions) == (p in old(error_functions))"
                                                 " and implies(p in error_functions, error_functions[p] == old(error_functions)[p])))",
             "C12.kinds.first_registration_only": "error_type not in old(error_functions)",
         },
         assume=["the table of wrappers is the module global error_functions (a free map here); wrappers are typed as texts (the body is parametric in them)"])

# ------------------------------------------------------------------------------------------------------------------ C12 message texts
EM_W10 = "hed/errors/error_messages.py"
# C12 "select exactly the fragment quoted in the message": the bad-value message opens with the fragment it is handed, in quotes and verbatim,
# and names the value class (in quotes) whenever one is given
contract("C12.w10.bad_value_message_quotes_the_fragment", file=EM_W10, func="val_error_no_value",
         params={"tag": "Str", "value_class": "Str"}, returns="Str", enc="native", also=["C01"], ghost={"not_at_call_sites": True},
         ensures={
             "C12.msg.value.opens_with_the_quoted_fragment": "result.startswith(\"'\" + tag + \"' has an invalid value portion\")",
             "C12.msg.value.names_the_value_class_when_given": "implies(len(value_class) > 0, (\"'\" + value_class + \"' value\") in result)",
         })
# C12 "each issue ... has a ... message" naming what it is about: the duplicate-column messages name the column (by its quoted name when it
# has one, else by number) and every input it was found in
contract("C12.w10.duplicate_column_message_names_column_and_list", file=EM_W10, func="val_error_duplicate_column",
         params={"column_number": "Int", "column_name": "Str", "list_name": "Str"}, returns="Str", enc="native", ghost={"not_at_call_sites": True},
         ensures={
             "C12.msg.dupcol.named_column_is_quoted": "implies(len(column_name) > 0, result.startswith(\"Found column '\" + column_name + \"' at index \") and result.endswith(' twice in ' + list_name + '.'))",
             "C12.msg.dupcol.unnamed_column_by_number": "implies(len(column_name) == 0, result.startswith('Found column number ') and (' twice in ' + list_name + '.') in result)",
         },
         assume=["how the column number is printed is not stated (str(int) terms of code and clause are not identified by the encoding)"])
contract("C12.w10.duplicate_column_between_sources_message_names_column_and_inputs", file=EM_W10, func="val_error_duplicate_column_between_sources",
         params={"column_number": "Int", "column_name": "Str", "list_names": "Str"}, returns="Str", enc="native", ghost={"not_at_call_sites": True},
         ensures={
             "C12.msg.dupsrc.named_column_is_quoted": "implies(len(column_name) > 0, result.startswith(\"Found column '\" + column_name + \"' at index \") and (' in the following inputs: ' + list_names + '. ') in result)",
             "C12.msg.dupsrc.unnamed_column_by_number": "implies(len(column_name) == 0, result.startswith('Found column number ') and (' in the following inputs: ' + list_names + '. ') in result)",
             "C12.msg.dupsrc.states_the_rule": "result.endswith('Each entry must be unique.')",
         },
         assume=["the list of input names is typed as its printed text; how the column number is printed is not stated"])
SEM_W10 = "hed/errors/schema_error_messages.py"
# C12 "each issue ... has a ... message" quoting what it is about: the invalid-hedId message always quotes the tag and the offending id; it
# reports the previous id when one is given, else the permitted range when one is given, else the expected format
contract("C12.w10.invalid_hed_id_message_quotes_tag_and_id", file=SEM_W10, func="schema_error_SCHEMA_HED_ID_INVALID",
         params={"tag": "Str", "new_id": "Str", "old_id": "Str", "valid_min": "Str", "valid_max": "Str"}, returns="Str", enc="native",
         ghost={"not_at_call_sites": True},
         ensures={
             "C12.msg.hedid.quotes_tag_and_id": "result.startswith(\"Tag '\" + tag + \"' has an invalid hedId '\" + new_id + \"'.  \")",
             "C12.msg.hedid.previous_id_reported_when_changed": "implies(len(old_id) > 0, result.endswith('Old value: ' + old_id + '.'))",
             "C12.msg.hedid.range_reported_otherwise": "implies(len(old_id) == 0 and len(valid_min) > 0,"
                                                       " result.endswith('It must be between ' + valid_min + ' and ' + valid_max + '.'))",
             "C12.msg.hedid.format_reported_last": "implies(len(old_id) == 0 and len(valid_min) == 0,"
                                                   " result.endswith('It must be an integer in the format of HED_XXXXXXX.'))",
         },
         assume=["ids and range bounds are typed as their printed texts (an absent one - None in the code - is the empty text here: both are falsy; a bound 0 counts as absent in the code: not covered)"])

# (given up: CharRexValidator.is_valid_value - `self._rex_dict["class_words"].get(class_name, [])`: dict.get with a default of another type
#  than the values (a list where the values are texts) cannot be merged by the engine)

# ------------------------------------------------------------------------------------------------------------------ C07 spreadsheet validator
# C07 (tabular validation uses the schema it was built for): the constructor remembers the schema object it is given - not a copy - and starts
# without a string validator (one is built per validate() call from this schema)
class_model("SpreadsheetValidatorW10", {"_schema": "Opt[SchemaW10]", "_hed_validator": "Opt[SchemaW10]", "_onset_validator": "Opt[SchemaW10]",
                                        "invalid_original_rows": "Set[Int]"})
class_model("SchemaW10", {})
contract("C07.w10.spreadsheet_validator_remembers_its_schema", file="hed/validator/spreadsheet_validator.py", func="SpreadsheetValidator.__init__",
         params={"self": "SpreadsheetValidatorW10", "hed_schema": "Opt[SchemaW10]"}, returns=None, enc="native", self_class="SpreadsheetValidatorW10",
         modifies=["self._schema", "self._hed_validator", "self._onset_validator", "self.invalid_original_rows"], ghost={"not_at_call_sites": True},
         ensures={"C07.sheet_validator.schema_is_the_one_given": "self._schema is hed_schema",
                  "C07.sheet_validator.no_string_validator_yet": "self._hed_validator is None and self._onset_validator is None"})

# ------------------------------------------------------------------------------------------------------------------ C01 second validation phase
# C01 "exactly one rule violation is injected (... repeated tag or group, misplaced tag-group or top-level tag, ... undeclared or wrongly valued
# Def ...) -> validation reports an error": the second phase hands back EVERYTHING each of its three rule families finds - the rules over all
# tags, the tag-level (group placement / duplicate) rules, the onset/offset rules of the definition validator - in that order, nothing else
HV_W10 = "hed/validator/hed_validator.py"
try:
    from contracts.extern_fs import _ulist as _ulist_w10
    EXTERNS["all_tag_rule_issues_w10"] = _ulist_w10("all_tag_rule_issues_w10", 2)
    EXTERNS["tag_level_issues_w10"] = _ulist_w10("tag_level_issues_w10", 2)
    EXTERNS["onset_rule_issues_w10"] = _ulist_w10("onset_rule_issues_w10", 2)
except ImportError:
    pass
class_model("GroupValidatorFW10", {})
class_model("DefValidatorFW10", {})
class_model("HedValidatorFW10", {"_group_validator": "GroupValidatorFW10", "_def_validator": "DefValidatorFW10"})
VIEWS_W10 = ["the three rule families are deterministic functions of their validator and the annotation (views all_tag_rule_issues_w10, "
             "tag_level_issues_w10, onset_rule_issues_w10); what each finds is the subject of C01.multi_tag_rules_see_every_tag_at_any_depth, "
             "the C01 group contracts and C10"]
contract("C01.w10.view_all_tags", file="hed/validator/util/group_util.py", func="GroupValidator.run_all_tags_validators",
         params={"self": "GroupValidatorFW10", "hed_string_obj": "HedString"}, returns="List[Issue]", enc="native", trusted=True,
         self_class="GroupValidatorFW10", ensures={"named": "result == all_tag_rule_issues_w10(self, hed_string_obj)"}, assume=VIEWS_W10)
contract("C01.w10.view_tag_level", file="hed/validator/util/group_util.py", func="GroupValidator.run_tag_level_validators",
         params={"self": "GroupValidatorFW10", "hed_string_obj": "HedString"}, returns="List[Issue]", enc="native", trusted=True,
         self_class="GroupValidatorFW10", ensures={"named": "result == tag_level_issues_w10(self, hed_string_obj)"}, assume=VIEWS_W10)
contract("C01.w10.view_onsets", file="hed/validator/def_validator.py", func="DefValidator.validate_onset_offset",
         params={"self": "DefValidatorFW10", "hed_string_obj": "HedString"}, returns="List[Issue]", enc="native", trusted=True,
         self_class="DefValidatorFW10", ensures={"named": "result == onset_rule_issues_w10(self, hed_string_obj)"}, assume=VIEWS_W10)
contract("C01.w10.second_phase_hands_back_all_three_rule_families", file=HV_W10, func="HedValidator.run_full_string_checks",
         params={"self": "HedValidatorFW10", "hed_string": "HedString"}, returns="List[Issue]", enc="native", self_class="HedValidatorFW10",
         also=["C04"], ghost={"not_at_call_sites": True},
         lets={"A": "all_tag_rule_issues_w10(self._group_validator, hed_string)", "B": "tag_level_issues_w10(self._group_validator, hed_string)",
               "D": "onset_rule_issues_w10(self._def_validator, hed_string)"},
         ensures={
             "C01.second_phase.every_finding_of_every_family_returned": "all_in(A, lambda x: x in result) and all_in(B, lambda x: x in result) and all_in(D, lambda x: x in result)",
             "C01.second_phase.nothing_else_returned": "all_in(result, lambda x: x in A or x in B or x in D)",
             "C01.second_phase.none_reported_twice_or_dropped": "len(result) == len(A) + len(B) + len(D) and fresh(result)",
         })

# ------------------------------------------------------------------------------------------------------------------ C01 delimiter rules of a string
# C01 "unbalanced or empty delimiters ... reports an error carrying the HED-specification error code of that rule" and "rule-conforming ...
# reports no error": the string validator judges the ORIGINAL text of the annotation with both delimiter rules - it is silent exactly when the
# parentheses balance and the delimiters are well formed, and whatever it reports is an error with one of the three delimiter codes
contract("C01.w10.string_validator_applies_both_delimiter_rules_to_the_original_text", file="hed/validator/util/string_util.py",
         func="StringValidator.run_string_validator",
         params={"self": "StringValidator", "hed_string_obj": "HedString"}, returns="List[Issue]", enc="native", also=["C04"],
         ghost={"not_at_call_sites": True},
         ensures={
             "C01.string_rules.silent_iff_balanced_and_wellformed":
                 "(len(result) == 0) == (balanced(hed_string_obj._hed_string) and delims_wellformed(hed_string_obj._hed_string))",
             "C01.string_rules.only_delimiter_errors": "all_in(result, lambda x: (x.code == 'PARENTHESES_MISMATCH' or x.code == 'TAG_EMPTY'"
                                                       " or x.code == 'COMMA_MISSING') and x.severity == 1)",
             "C01.string_rules.list_is_new": "fresh(result)",
         },
         assume=["get_original_hed_string() is the text the annotation was built from (C01.original_text)"])

# ------------------------------------------------------------------------------------------------------------------ C01/C12 HedString.validate
class_model("HedStringValW10", {"_schema": "Opaque", "_def_dict": "Opaque"}, bases=["HedString"])
contract("C01.w10.string_validates_itself", file="hed/models/hed_string.py", func="HedString.validate",
         params={"self": "HedStringValW10", "allow_placeholders": "Bool", "error_handler": "Opt[ErrorHandler]"}, returns="List[Issue]", enc="native",
         self_class="HedStringValW10", ghost={"not_at_call_sites": True, "update": [("assign:validator", "g_validator = validator")]},
         modifies=["heap:Issue.char_index", "heap:Issue.char_index_end", "heap:Issue.has_char_index",
                   "heap:Issue.has_char_index_end", "heap:Issue.message"],
         lets={"basic": "basic_issues_of(g_validator, self, allow_placeholders)", "full": "full_issues_of(g_validator, self)",
               "warn": "error_handler is None or error_handler._check_for_warnings"},
         # C01 "validating it reports ... an error carrying the code of that rule" at the entry point HedString.validate: the verdict is the one
         # of a string validator judging THIS annotation with the placeholder flag and the handler given - no basic error is dropped, nothing
         # is reported that neither phase found
         ensures={"C01.self_validate.judges_this_annotation_with_the_flag_given": "all_in(basic, lambda x: implies(x.severity <= 1 or warn, x in result))",
                  "C01.self_validate.nothing_invented": "all_in(result, lambda x: x in basic or x in full)",
                  "C01.self_validate.errors_only_when_the_handler_says_so": "implies(not warn, all_in(result, lambda x: x.severity <= 1))"},
         assume=["the validator built here is some HedValidator object (its construction from self._schema / self._def_dict: "
                 "C01.string_validator_is_assembled_for_the_given_schema); its verdict is used through C01.validate"])

# ------------------------------------------------------------------------------------------------------------------ C12 documentation link of a code
# C12 "each issue ... has a code" (printed with a link to its rule): a link is made exactly for the codes of the two published tables - never
# for an unknown code - and it points into Appendix B of the specification
contract("C12.w10.doc_link_only_for_published_codes", file=ER_W10, func="create_doc_link",
         params={"error_code": "Str"}, returns="Opt[Str]", enc="native",
         ghost={"free": {"known_error_codes": "Map[Str,List[Str]]"}, "not_at_call_sites": True},
         requires=["'hed_validation_errors' in known_error_codes", "'schema_validation_errors' in known_error_codes"],
         lets={"known": "error_code in known_error_codes['hed_validation_errors'] or error_code in known_error_codes['schema_validation_errors']"},
         ensures={
             "C12.doc_link.none_for_an_unknown_code": "implies(not known, result is None)",
             "C12.doc_link.known_code_points_into_appendix_b": "implies(known, result is not None and "
                 "result.startswith('https://hed-specification.readthedocs.io/en/latest/Appendix_B.html#'))",
         },
         assume=["the two code tables are the module global known_error_codes (a free map of text lists here); the anchor text itself "
                 "(lower case, '-' for '_') is not stated"])

# ------------------------------------------------------------------------------------------------------------------ C12 HTML report
# C12 "asking for errors only returns exactly the error-severity subset": the HTML report renders the tree of exactly the issues at or below
# the severity asked (all of them when none is asked), built with the file-name choice given; a title, when given, is put FIRST as one h1
class_model("HtmlNodeW10", {"text": "Opt[Str]", "tag": "Str"})


def _et_element_w10(interp, args, kwargs):
    obj = interp.new_object("HtmlNodeW10")
    interp.field_write(obj, "tag", args[0])
    interp.field_write(obj, "text", None)
    return obj


def _et_insert_w10(interp, args, kwargs):
    g = interp.ctx.ghost
    g["g_inserts"] = g.get("g_inserts", 0) + 1
    g["g_insert_at"] = args[1]
    g["g_inserted"] = args[2]
    g["g_insert_into"] = args[0]
    return None


try:
    from contracts.x_w5 import _view_w5 as _view_w10
    EXTERNS["html_tree_w10"] = _view_w10("html_tree_w10", "HtmlNodeW10")
    EXTERNS["html_text_w10"] = _view_w10("html_text_w10", "Str")
    EXTERNS["HtmlNodeW10.insert"] = _et_insert_w10
    if "ET.Element" not in EXTERNS and "ET.tostring" not in EXTERNS:
        EXTERNS["ET.Element"] = _et_element_w10
        EXTERNS["ET.tostring"] = lambda interp, args, kwargs: _view_w10("html_text_w10", "Str")(interp, [args[0]], {})
except ImportError:
    pass
contract("C12.w10.html_tree_view", file=ER_W10, func="_create_error_tree",
         params={"error_dict": "CtxTreeW5", "parent_element": "Opaque", "add_link": "Bool"}, returns="HtmlNodeW10", enc="native", trusted=True,
         fresh_result=False, ensures={"named": "result is html_tree_w10(error_dict)"},
         assume=["_create_error_tree(tree) with the default parent / link choice is a deterministic function of the context tree (html_tree_w10); "
                 "ET.tostring is a deterministic function of the element (html_text_w10); ET.Element / Element.insert are modelled (new node; recorded)"])
contract("C12.w10.html_report_shows_exactly_the_issues_of_the_severity_asked", file=ER_W10, func="get_printable_issue_string_html",
         params={"issues": "List[Issue]", "title": "Opt[Str]", "severity": "Opt[Int]", "skip_filename": "Bool"}, returns="Str", enc="native",
         ghost={"not_at_call_sites": True, "no_frame": True, "init": {"g_printed": "issues", "g_inserts": "0"},
                "update": [("issues = ErrorHandler.filter_issues_by_severity(issues, severity)", "g_printed = issues")]},
         lets={"titled": "title is not None and len(title) > 0", "root": "html_tree_w10(context_tree_of(g_printed, skip_filename))"},
         ensures={
             "C12.html.report_is_the_rendering_of_the_tree_of_the_selected_issues": "result == html_text_w10(root)",
             "C12.html.no_severity_asked_selects_every_issue": "implies(severity is None, g_printed == old(issues))",
             "C12.html.severity_asked_selects_exactly_the_issues_at_or_below_it":
                 "implies(severity is not None, all_in(g_printed, lambda x: x.severity <= severity and x in old(issues))"
                 " and all_in(old(issues), lambda x: implies(x.severity <= severity, x in g_printed)))",
             "C12.html.title_is_one_h1_put_first": "implies(titled, g_inserts == 1 and g_insert_at == 0 and g_insert_into is root and "
                                                   "g_inserted.tag == 'h1' and g_inserted.text == title) and implies(not titled, g_inserts == 0)",
         })

# ------------------------------------------------------------------------------------------------------------------ C12 context decoration
# C12 "each issue ... has a code, a message and a severity" survives decoration: adding context writes ONLY the context kinds it is handed -
# every other entry of the issue (code, message, severity, indices) keeps its value - each handed pair ends up in the issue, and the issue
# handed back is the one given (callers keep using the list they already hold)
contract("C12.w10.context_decoration_writes_only_the_context_kinds", file=ER_W10, func="ErrorHandler._add_context_to_errors",
         params={"error_object": "Map[Str,Str]", "error_context_to_add": "List[Tuple[Str,Str]]"}, returns="Map[Str,Str]", enc="native",
         modifies=["error_object"], ghost={"not_at_call_sites": True}, fresh_result=False,
         loops={0: {"invariant": [
             "forall_str(lambda p: implies(all(error_context_to_add[k][0] != p for k in range(_n)), (p in error_object) == (p in old(error_object))"
             " and implies(p in error_object, error_object[p] == old(error_object)[p])))",
             "all(error_context_to_add[k][0] in error_object for k in range(_n))",
             "all(implies(all(error_context_to_add[j][0] != error_context_to_add[k][0] for j in range(k + 1, _n)),"
             " error_object[error_context_to_add[k][0]] == error_context_to_add[k][1]) for k in range(_n))",
         ]}},
         ensures={
             "C12.context.other_entries_untouched":
                 "forall_str(lambda p: implies(all(error_context_to_add[k][0] != p for k in range(len(error_context_to_add))),"
                 " (p in error_object) == (p in old(error_object)) and implies(p in error_object, error_object[p] == old(error_object)[p])))",
             "C12.context.every_kind_handed_is_entered": "all(error_context_to_add[k][0] in error_object for k in range(len(error_context_to_add)))",
             "C12.context.last_pair_of_a_kind_gives_its_value":
                 "all(implies(all(error_context_to_add[j][0] != error_context_to_add[k][0] for j in range(k + 1, len(error_context_to_add))),"
                 " error_object[error_context_to_add[k][0]] == error_context_to_add[k][1]) for k in range(len(error_context_to_add)))",
             "C12.context.same_issue_handed_back": "result is error_object",
         },
         assume=["the issue dict and the context values are typed as texts (the body is parametric in them)"])
