from pyvc.contract import contract, class_model

Q = "hed/models/query_util.py"
class_model("SearchResult", {"group": "HedGroup", "tags": "List[HedTag]"})

contract("C15.search_result_init", file=Q, func="SearchResult.__init__",
         params={"self": "SearchResult", "group": "HedGroup", "tag": "List[HedTag]"}, returns=None, enc="native",
         modifies=["self.group", "self.tags"],
         ensures={"C15.result.holds_group_and_a_copy_of_tags": "self.group is group and len(self.tags) == len(tag)"
                                                               " and all_in(tag, lambda x: is_in(x, self.tags)) and all_in(self.tags, lambda x: is_in(x, tag))"},
         assume=["only the list form of the tag argument is covered (callers inside the query code pass lists or single tags)"])

# C15 "A && B ... via distinct tags": the merged result holds the identity-union of both results' tags, nothing else,
# and merging never touches the two operands or the annotation
contract("C15.merge_and_result", file=Q, func="SearchResult.merge_and_result",
         params={"self": "SearchResult", "other": "SearchResult"}, returns="SearchResult", enc="native",
         raises={"ValueError": "self.group != other.group"},
         locals={"new_tags": "List[HedTag]"},
         ensures={
             "C15.and.union_of_tags_by_identity": "all_in(self.tags, lambda x: is_in(x, result.tags)) and all_in(other.tags, lambda x: is_in(x, result.tags))",
             "C15.and.nothing_else": "all_in(result.tags, lambda x: is_in(x, self.tags) or is_in(x, other.tags))",
             "C15.and.same_group": "result.group is self.group",
         },
         loops={0: {"invariant": [
             "all_in(self.tags, lambda x: is_in(x, new_tags))",
             "all(is_in(other.tags[k], new_tags) for k in range(_n))",
             "all_in(new_tags, lambda x: is_in(x, self.tags) or is_in(x, other.tags))"]}})

contract("C15.has_same_tags", file=Q, func="SearchResult.has_same_tags",
         params={"self": "SearchResult", "other": "SearchResult"}, returns="Bool", enc="native",
         ensures={"C15.same.iff_same_group_and_identical_tags": "result == (self.group == other.group and len(self.tags) == len(other.tags)"
                                                                " and all(self.tags[k] is other.tags[k] for k in range(len(self.tags))))"})

# C15 "repeated searches agree / the answer for one annotation does not depend on the annotations around it": the factor loops treat
# every (query, annotation) pair on its own (def-before-use analysis of the real loop bodies; the table df_factors is only written per cell)
contract("C15.rows_searched_independently", file="hed/models/query_service.py", func="search_hed_objs",
         params={"hed_objs": "Opaque", "queries": "Opaque", "query_names": "Opaque"}, returns="Opaque", enc="native",
         ghost={"dataflow_only": True, "no_frame": True, "independent_iterations": {0: ["df_factors"], 1: ["df_factors"]}}, ensures={})
