from pyvc.contract import contract, class_model

EM = "hed/tools/analysis/event_manager.py"
class_model("EventContents", {"__str__": "Str"})
class_model("TemporalEvent", {"contents": "EventContents", "start_index": "Int", "end_index": "Int", "start_time": "Real"})
class_model("EventManager", {"hed_strings": "List[HedString]", "event_list": "List[List[TemporalEvent]]", "onsets": "List[Real]",
                             "base": "Opaque", "contexts": "Opaque"})

contract("C20.compress_strings", file=EM, func="EventManager.compress_strings",
         params={"list_to_compress": "List[List[Str]]"}, returns="Opaque", enc="native", trusted=True)

# C20: context of a time point = the processes that started strictly earlier and have not ended (completeness direction and
# index safety are proved; "nothing else is listed" is left to the bounded workload, see DESIGN F)
contract("C20.extract_context",
         file=EM, func="EventManager._extract_context",
         params={"self": "EventManager"}, returns=None, enc="native",
         requires=[
             # data-structure invariant established by _create_event_list (bounded workload exercises it):
             "len(self.onsets) == len(self.hed_strings) and len(self.event_list) == len(self.hed_strings)",
             "all(0 <= self.event_list[a][b].start_index and self.event_list[a][b].start_index < len(self.hed_strings)"
             " and self.event_list[a][b].end_index <= len(self.hed_strings)"
             " for a in range(len(self.event_list)) for b in range(len(self.event_list[a])))",
         ],
         modifies=["self.base", "self.contexts"],
         locals={"base": "List[List[Str]]", "contexts": "List[List[Str]]"},
         ghost={"update": [("self.contexts = self.compress_strings(contexts)", "g_contexts = contexts"),
                           ("self.base = self.compress_strings(base)", "g_base = base")]},
         ensures={
             "C20.context.every_covering_process_is_listed": "len(g_contexts) == len(self.hed_strings) and "
                 "all(implies(covers(self.onsets, self.event_list[a][b], i), self.event_list[a][b].contents.__str__ in g_contexts[i])"
                 " for a in range(len(self.event_list)) for b in range(len(self.event_list[a])) for i in range(len(self.hed_strings)))",
             "C20.base.every_process_listed_at_its_start": "len(g_base) == len(self.hed_strings) and "
                 "all(self.event_list[a][b].contents.__str__ in g_base[self.event_list[a][b].start_index]"
                 " for a in range(len(self.event_list)) for b in range(len(self.event_list[a])))",
         },
         loops={0: {'invariant': ['len(base) == len(self.hed_strings) and len(contexts) == len(self.hed_strings)', 'all(implies(covers(self.onsets, self.event_list[a][b], i), self.event_list[a][b].contents.__str__ in contexts[i]) for a in range(_n0) for b in range(len(self.event_list[a])) for i in range(len(self.hed_strings)))', 'all(self.event_list[a][b].contents.__str__ in base[self.event_list[a][b].start_index] for a in range(_n0) for b in range(len(self.event_list[a])))']}, 1: {'invariant': ['len(base) == len(self.hed_strings) and len(contexts) == len(self.hed_strings)', 'all(implies(covers(self.onsets, self.event_list[a][b], i), self.event_list[a][b].contents.__str__ in contexts[i]) for a in range(_n0) for b in range(len(self.event_list[a])) for i in range(len(self.hed_strings)))', 'all(self.event_list[a][b].contents.__str__ in base[self.event_list[a][b].start_index] for a in range(_n0) for b in range(len(self.event_list[a])))', 'all(implies(covers(self.onsets, self.event_list[_n0][b], i), self.event_list[_n0][b].contents.__str__ in contexts[i]) for b in range(_n1) for i in range(len(self.hed_strings)))', 'all(self.event_list[_n0][b].contents.__str__ in base[self.event_list[_n0][b].start_index] for b in range(_n1))']}, 2: {'invariant': ['len(base) == len(self.hed_strings) and len(contexts) == len(self.hed_strings)', 'all(implies(covers(self.onsets, self.event_list[a][b], i), self.event_list[a][b].contents.__str__ in contexts[i]) for a in range(_n0) for b in range(len(self.event_list[a])) for i in range(len(self.hed_strings)))', 'all(self.event_list[a][b].contents.__str__ in base[self.event_list[a][b].start_index] for a in range(_n0) for b in range(len(self.event_list[a])))', 'all(implies(covers(self.onsets, self.event_list[_n0][b], i), self.event_list[_n0][b].contents.__str__ in contexts[i]) for b in range(_n1) for i in range(len(self.hed_strings)))', 'all(self.event_list[_n0][b].contents.__str__ in base[self.event_list[_n0][b].start_index] for b in range(_n1 + 1))', 'all(implies(covers(self.onsets, event, i) and i < event.start_index + 1 + _n2, this_str in contexts[i]) for i in range(len(self.hed_strings)))', 'this_str == event.contents.__str__']}})
