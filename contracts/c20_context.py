from pyvc.contract import contract, class_model

EM = "hed/tools/analysis/event_manager.py"
class_model("EventContents", {"__str__": "Str"})
class_model("TemporalEvent", {"contents": "EventContents", "start_index": "Int", "end_index": "Int", "start_time": "Real"})
class_model("EventManager", {"hed_strings": "List[HedString]", "event_list": "List[List[TemporalEvent]]", "onsets": "List[Real]",
                             "base": "Opaque", "contexts": "Opaque"})

contract("C20.compress_strings", file=EM, func="EventManager.compress_strings",
         params={"list_to_compress": "List[List[Str]]"}, returns="Opaque", enc="native", trusted=True)

# C20: context of a time point = the processes that started strictly earlier and have not ended (completeness direction and
# index safety are proved; "nothing else is listed" is left to the bounded workload, see DESIGN F)
contract("C20.extract_context",
         file=EM, func="EventManager._extract_context",
         params={"self": "EventManager"}, returns=None, enc="native",
         requires=[
             # data-structure invariant established by _create_event_list (bounded workload exercises it):
             "len(self.onsets) == len(self.hed_strings) and len(self.event_list) == len(self.hed_strings)",
             "all(0 <= self.event_list[a][b].start_index and self.event_list[a][b].start_index < len(self.hed_strings)"
             " and self.event_list[a][b].end_index <= len(self.hed_strings)"
             " for a in range(len(self.event_list)) for b in range(len(self.event_list[a])))",
         ],
         modifies=["self.base", "self.contexts"],
         locals={"base": "List[List[Str]]", "contexts": "List[List[Str]]"},
         ghost={"update": [("self.contexts = self.compress_strings(contexts)", "g_contexts = contexts"),
                           ("self.base = self.compress_strings(base)", "g_base = base")]},
         ensures={
             "C20.context.every_covering_process_is_listed": "len(g_contexts) == len(self.hed_strings) and "
                 "all(implies(covers(self.onsets, self.event_list[a][b], i), self.event_list[a][b].contents.__str__ in g_contexts[i])"
                 " for a in range(len(self.event_list)) for b in range(len(self.event_list[a])) for i in range(len(self.hed_strings)))",
             "C20.base.every_process_listed_at_its_start": "len(g_base) == len(self.hed_strings) and "
                 "all(self.event_list[a][b].contents.__str__ in g_base[self.event_list[a][b].start_index]"
                 " for a in range(len(self.event_list)) for b in range(len(self.event_list[a])))",
         },
         loops={0: {'invariant': ['len(base) == len(self.hed_strings) and len(contexts) == len(self.hed_strings)', 'all(implies(covers(self.onsets, self.event_list[a][b], i), self.event_list[a][b].contents.__str__ in contexts[i]) for a in range(_n0) for b in range(len(self.event_list[a])) for i in range(len(self.hed_strings)))', 'all(self.event_list[a][b].contents.__str__ in base[self.event_list[a][b].start_index] for a in range(_n0) for b in range(len(self.event_list[a])))']}, 1: {'invariant': ['len(base) == len(self.hed_strings) and len(contexts) == len(self.hed_strings)', 'all(implies(covers(self.onsets, self.event_list[a][b], i), self.event_list[a][b].contents.__str__ in contexts[i]) for a in range(_n0) for b in range(len(self.event_list[a])) for i in range(len(self.hed_strings)))', 'all(self.event_list[a][b].contents.__str__ in base[self.event_list[a][b].start_index] for a in range(_n0) for b in range(len(self.event_list[a])))', 'all(implies(covers(self.onsets, self.event_list[_n0][b], i), self.event_list[_n0][b].contents.__str__ in contexts[i]) for b in range(_n1) for i in range(len(self.hed_strings)))', 'all(self.event_list[_n0][b].contents.__str__ in base[self.event_list[_n0][b].start_index] for b in range(_n1))']}, 2: {'invariant': ['len(base) == len(self.hed_strings) and len(contexts) == len(self.hed_strings)', 'all(implies(covers(self.onsets, self.event_list[a][b], i), self.event_list[a][b].contents.__str__ in contexts[i]) for a in range(_n0) for b in range(len(self.event_list[a])) for i in range(len(self.hed_strings)))', 'all(self.event_list[a][b].contents.__str__ in base[self.event_list[a][b].start_index] for a in range(_n0) for b in range(len(self.event_list[a])))', 'all(implies(covers(self.onsets, self.event_list[_n0][b], i), self.event_list[_n0][b].contents.__str__ in contexts[i]) for b in range(_n1) for i in range(len(self.hed_strings)))', 'all(self.event_list[_n0][b].contents.__str__ in base[self.event_list[_n0][b].start_index] for b in range(_n1 + 1))', 'all(implies(covers(self.onsets, event, i) and i < event.start_index + 1 + _n2, this_str in contexts[i]) for i in range(len(self.hed_strings)))', 'this_str == event.contents.__str__']}})

# C20 "Duration": the end of a process with a Duration tag is its start plus THAT tag's value (a Delay tag shifts the start, never the end)
from pyvc.contract import CLASSES, EXTERNS
TE = "hed/tools/analysis/temporal_event.py"
class_model("HedNode", {"__is_HedGroup": "Bool", "short_base_tag": "Str", "short_tag": "Str", "dur_value": "Opt[Real]"})
if "HedNode" not in CLASSES["HedGroup"]["bases"]:
    CLASSES["HedGroup"]["bases"].append("HedNode")
class_model("EventGroup", {"children": "List[HedNode]", "__bool__": "Bool"})
CLASSES["EventGroup"]["opaque_methods"] = True
class_model("TemporalEventRaw", {"contents": "Opaque", "start_time": "Real", "end_time": "Opt[Real]", "anchor": "Opt[Str]",
                                 "internal_group": "Opt[HedNode]", "start_index": "Int", "end_index": "Opt[Int]", "insets": "Opaque"})
EXTERNS["HedNode.value_as_default_unit"] = lambda interp, args, kwargs: interp.field_read(args[0], "dur_value")
def _group_remove(interp, args, kwargs):
    """HedGroup.remove(items): the group's children change in an unmodelled way; nothing else is touched"""
    interp.field_write(args[0], "children", interp.ctx.fresh(interp.ptype("List[HedNode]"), "children"))
    return None


EXTERNS["EventGroup.remove"] = _group_remove
ISDUR = "(lambda c: (not c.__is_HedGroup) and c.short_base_tag == 'Duration')"
contract("C20.split_group", file=TE, func="TemporalEvent._split_group",
         params={"self": "TemporalEventRaw", "contents": "EventGroup"}, returns=None, enc="native", self_class="TemporalEventRaw",
         requires=["all(implies(" + ISDUR + "(contents.children[k]), contents.children[k].dur_value is not None) for k in range(len(contents.children)))"],
         modifies=["self.contents", "self.end_time", "self.anchor", "self.internal_group", "contents.children"],
         lets={"L": "old(contents.children)"},
         ensures={
             "C20.duration.end_is_start_plus_the_duration_tags_value":
                 "all(implies(" + ISDUR + "(L[k]) and all(not " + ISDUR + "(L[j]) for j in range(k + 1, len(L))),"
                 " self.end_time is not None and self.end_time == self.start_time + L[k].dur_value) for k in range(len(L)))",
             "C20.duration.no_duration_tag_leaves_the_end_open": "implies(all(not " + ISDUR + "(L[k]) for k in range(len(L))), self.end_time == old(self.end_time))",
         },
         locals={"to_remove": "List[HedNode]"},
         loops={0: {"invariant": [
             "self.start_time == old(self.start_time)",
             "all(implies(" + ISDUR + "(_iter0[k]) and all(not " + ISDUR + "(_iter0[j]) for j in range(k + 1, _n)),"
             " self.end_time is not None and self.end_time == self.start_time + _iter0[k].dur_value) for k in range(_n))",
             "implies(all(not " + ISDUR + "(_iter0[k]) for k in range(_n)), self.end_time == old(self.end_time))",
         ]}},
         assume=["value_as_default_unit() of a child is the view dur_value (C11 contracts); contents.remove() is an unmodelled method of the group"])

# C20 (and "gives the same answer every time"): a filtered view never touches the manager's stored annotations - the object handed to the
# in-place tag splitters is a HedString allocated by this call
SU20 = "hed/models/string_util.py"
OWN = ["the in-place splitters are only ever given an object allocated by the caller's own call (requires fresh(...), discharged at call sites)"]
contract("C20.split_base_tags", file=SU20, func="split_base_tags",
         params={"hed_string": "HedString", "base_tags": "Opaque", "remove_group": "Opaque"}, returns="Tuple[HedString,Opaque]", enc="native",
         trusted=True, requires=["fresh(hed_string)"], ensures={"same_object": "result[0] is hed_string"}, assume=OWN)
contract("C20.split_def_tags", file=SU20, func="split_def_tags",
         params={"hed_string": "HedString", "def_names": "Opaque", "remove_group": "Opaque"}, returns="Tuple[HedString,Opaque]", enc="native",
         trusted=True, requires=["fresh(hed_string)"], ensures={"same_object": "result[0] is hed_string"}, assume=OWN)
class_model("EventManagerF", {"hed_schema": "Opaque", "def_dict": "Opaque"})
contract("C20.filter_hed_works_on_a_copy", file=EM, func="EventManager._filter_hed",
         params={"self": "EventManagerF", "hed": "HedString", "remove_types": "Opaque", "remove_defs": "Opaque", "remove_group": "Opaque"},
         returns="Str", enc="native", self_class="EventManagerF",
         ensures={"C20.filter.stored_annotation_text_unchanged": "hed.__str__ == old(hed.__str__)"},
         assume=["only the HedString form of the argument is covered"])

# C20 "the context of a row lists EVERY ongoing process": the comma-joined text of one time point keeps every entry, in order and verbatim -
# two processes with textually identical remaining content stay two entries
contract("C20.compress_keeps_every_entry", file=EM, func="EventManager.compress_strings",
         params={"list_to_compress": "List[List[Str]]"}, returns="List[Str]", enc="native",
         ensures={
             "C20.compress.one_text_per_time_point": "len(result) == len(list_to_compress)",
             "C20.compress.every_entry_verbatim_at_its_offset":
                 "all(result[i][join_off(',', list_to_compress[i], j):join_off(',', list_to_compress[i], j) + len(list_to_compress[i][j])]"
                 " == list_to_compress[i][j] for i in range(len(list_to_compress)) for j in range(len(list_to_compress[i])))",
             "C20.compress.length_is_entries_plus_commas":
                 "all(implies(len(list_to_compress[i]) > 0, len(result[i]) == join_off(',', list_to_compress[i], len(list_to_compress[i])) - 1)"
                 " for i in range(len(list_to_compress)))",
             "C20.compress.no_entries_no_text": "all(implies(len(list_to_compress[i]) == 0, result[i] == '') for i in range(len(list_to_compress)))",
         },
         loops={0: {"invariant": [
             "len(result_list) == len(list_to_compress)",
             "all(result_list[i][join_off(',', list_to_compress[i], j):join_off(',', list_to_compress[i], j) + len(list_to_compress[i][j])]"
             " == list_to_compress[i][j] for i in range(_n0) for j in range(len(list_to_compress[i])))",
             "all(implies(len(list_to_compress[i]) > 0, len(result_list[i]) == join_off(',', list_to_compress[i], len(list_to_compress[i])) - 1)"
             " for i in range(_n0))",
             "all(result_list[i] == '' for i in range(_n0, len(list_to_compress)))",
             "all(implies(len(list_to_compress[i]) == 0, result_list[i] == '') for i in range(_n0))",
         ]}})


# C20 "a process covers the rows strictly after its start up to its end": the start a process remembers is EXACTLY the onset of the row it
# starts in - _extract_context compares later onsets with it, so any rounding moves rows sharing the start time point into the context
contract("C20.process_start_is_the_row_onset", file=TE, func="TemporalEvent.__init__",
         params={"self": "TemporalEventRaw", "contents": "EventGroup", "start_index": "Int", "start_time": "Real"}, returns=None, enc="native",
         self_class="TemporalEventRaw", requires=["all(implies(" + ISDUR + "(contents.children[k]), contents.children[k].dur_value is not None) for k in range(len(contents.children)))"],
         modifies=["self.contents", "self.start_index", "self.start_time", "self.end_index", "self.end_time", "self.anchor",
                   "self.internal_group", "self.insets", "contents.children"],
         raises={"ValueError": "not contents.__bool__"},
         ensures={
             "C20.start.time_is_the_onset_given": "self.start_time == start_time",
             "C20.start.index_is_the_row_given": "self.start_index == start_index",
             "C20.start.end_is_start_plus_duration_or_open":
                 "all(implies(" + ISDUR + "(old(contents.children)[k]) and all(not " + ISDUR + "(old(contents.children)[j])"
                 " for j in range(k + 1, len(old(contents.children)))),"
                 " self.end_time is not None and self.end_time == start_time + old(contents.children)[k].dur_value)"
                 " for k in range(len(old(contents.children))))",
         },
         assume=["the onset handed in is a number (EventManager passes the float column); float() of a number is that number"])
