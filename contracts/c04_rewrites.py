from pyvc.contract import contract

# C04 "tag equality and hashing on canonical short form, case-folded": two tags are equal iff they are the same object, or their
# canonical short forms agree ignoring letter case, or their texts as written agree ignoring letter case
contract("C04.tag_eq", file="hed/models/hed_tag.py", func="HedTag.__eq__",
         params={"self": "HedTag", "other": "HedTag"}, returns="Bool", enc="native",
         ghost={"no_frame": True, "alias_ok": True},
         ensures={
             "C04.eq.canonical_form_case_insensitive": "result == (self is other or self.short_tag.casefold() == other.short_tag.casefold()"
                                                       " or self.org_tag.casefold() == other.org_tag.casefold())",
             "C04.eq.same_short_form_in_any_spelling_and_case": "implies(self.short_tag.casefold() == other.short_tag.casefold(), result)",
         },
         assume=["distinct-parameter aliasing is admitted here: self may be other"])
