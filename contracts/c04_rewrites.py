from pyvc.contract import contract

# C04 "tag equality and hashing on canonical short form, case-folded": two tags are equal iff they are the same object, or their
# canonical short forms agree ignoring letter case, or their texts as written agree ignoring letter case
contract("C04.tag_eq", file="hed/models/hed_tag.py", func="HedTag.__eq__",
         params={"self": "HedTag", "other": "HedTag"}, returns="Bool", enc="native",
         ghost={"no_frame": True, "alias_ok": True},
         ensures={
             "C04.eq.canonical_form_case_insensitive": "result == (self is other or self.short_tag.casefold() == other.short_tag.casefold()"
                                                       " or self.org_tag.casefold() == other.org_tag.casefold())",
             "C04.eq.same_short_form_in_any_spelling_and_case": "implies(self.short_tag.casefold() == other.short_tag.casefold(), result)",
         },
         assume=["distinct-parameter aliasing is admitted here: self may be other"])

# C04 "the outcome does not depend on sibling order": the loops that judge the top-level temporal groups treat every group on its own -
# no value computed for one group reaches a later one, the issue list is only extended, no group is skipped by a break.
# Decided by def-before-use analysis of the real loop bodies (pyvc/dataflow.py), not by a solver.
IND = {"dataflow_only": True, "no_frame": True}
contract("C04.duration_groups_judged_independently", file="hed/validator/util/group_util.py", func="GroupValidator.validate_duration_tags",
         params={"hed_string_obj": "Opaque"}, returns="Opaque", enc="native", also=["C01"],
         ghost=dict(IND, independent_iterations={0: ["duration_issues"]}), ensures={})
contract("C04.onset_groups_judged_independently", file="hed/validator/def_validator.py", func="DefValidator.validate_onset_offset",
         params={"self": "Opaque", "hed_string_obj": "Opaque"}, returns="Opaque", enc="native", also=["C01", "C10"],
         ghost=dict(IND, independent_iterations={0: ["onset_issues"]}), ensures={})
contract("C04.tags_judged_independently", file="hed/validator/hed_validator.py", func="HedValidator._validate_individual_tags_in_hed_string",
         params={"self": "Opaque", "hed_string_obj": "Opaque", "allow_placeholders": "Opaque"}, returns="Opaque", enc="native", also=["C01"],
         ghost=dict(IND, independent_iterations={0: ["validation_issues"], 1: ["validation_issues"]}), ensures={})

# C04 "groups that differ in nesting are different groups": the canonical text two groups are compared by brackets every group level, so
# (Red,(Blue,Green)) and (Red,(Blue),(Green)) - same tags, different nesting - never get the same text
contract("C04.canonical_text_brackets_every_group", file="hed/models/hed_group.py", func="HedGroup._sorted_text",
         params={"sorted_children": "Opaque"}, returns="Str", enc="native",
         ensures={"C04.canonical.text_is_bracketed": "len(result) >= 2 and result.startswith('(') and result.endswith(')')"},
         assume=["the text between the brackets is the comma-joined canonical texts of the children (bounded workload rt/c04)"])
