from pyvc.contract import contract

COUNT_LEMMA = {"name": "count_depth", "vars": {"s": "Str", "n": "Int"}, "induct": "n",
               "stmt": "count_char(s, '(', n) - count_char(s, ')', n) == depth(s, n)"}

NN_MONO = {"name": "never_negative_mono", "vars": {"s": "Str", "m": "Int", "n": "Int"}, "induct": "n",
           "stmt": "implies(0 <= m and m <= n and never_negative(s, n), never_negative(s, m))"}

contract("C01.parentheses_out_of_order",
         file="hed/validator/util/string_util.py", func="StringValidator._parentheses_out_of_order",
         params={"hed_string": "Str"}, returns="Bool", enc="array", prop="C01",
         lemmas=[NN_MONO],
         ensures={"C01.parens.order": "result == (not never_negative(hed_string, len(hed_string)))"},
         bounded={"hed_string": "str:a():7:10"},
         loops={0: {"invariant": ["depth == depth(hed_string, _n)", "never_negative(hed_string, _n)"]}})

# from the property: unbalanced delimiters are reported with the HED code PARENTHESES_MISMATCH
contract("C01.check_count_tag_group_parentheses",
         file="hed/validator/util/string_util.py", func="StringValidator.check_count_tag_group_parentheses",
         params={"hed_string": "Str"}, returns="List[Issue]", enc="array", prop="C01",
         lemmas=[COUNT_LEMMA],
         ensures={
             "C01.parens.reported_iff_unbalanced": "(len(result) == 0) == balanced(hed_string)",
             "C01.parens.code": "all(result[k].code == 'PARENTHESES_MISMATCH' and result[k].severity == 1 for k in range(len(result)))",
             "C01.parens.at_most_one": "len(result) <= 1",
         },
         bounded={"hed_string": "str:a():7:10", "adapter": "rt.adapters.issues_as_objects"})

from pyvc.contract import class_model
class_model("StringValidator", {})
SU = "hed/validator/util/string_util.py"
contract("C01.character_is_delimiter", file=SU, func="StringValidator._character_is_delimiter", inline=True, trusted=True, prop="C01")
contract("C01.comma_is_missing_after_closing_parentheses", file=SU,
         func="StringValidator._comma_is_missing_after_closing_parentheses", inline=True, trusted=True, prop="C01")

DELIMS_MONO = {"name": "delims_ok_mono", "vars": {"s": "Str", "m": "Int", "n": "Int"}, "induct": "n",
               "stmt": "implies(0 <= m and m <= n and delims_ok_before(s, n), delims_ok_before(s, m))"}

# C01 "empty delimiters / missing comma are reported", C04 "blanks around commas and parentheses do not matter":
# the scan reports something iff the text is not delimiter-well-formed, where well-formedness is defined on the non-blank characters only
contract("C01.check_delimiter_issues_in_hed_string", file=SU, func="StringValidator.check_delimiter_issues_in_hed_string",
         params={"self": "StringValidator", "hed_string": "Str"}, returns="List[Issue]", enc="array", prop="C01", also=["C04"],
         lemmas=[DELIMS_MONO],
         locals={"issues": "List[Issue]", "current_tag": "Str", "last_non_empty_valid_character": "Str"},
         ensures={
             "C01.delims.reported_iff_malformed": "(len(result) == 0) == delims_wellformed(hed_string)",
             "C01.delims.codes": "all_in(result, lambda x: (x.code == 'TAG_EMPTY' or x.code == 'COMMA_MISSING') and x.severity == 1)",
         },
         bounded={"hed_string": "str:a ,():6:8", "adapter": "rt.adapters.string_validator_method"},
         loops={0: {"invariant": [
             "(len(issues) == 0) == delims_ok_before(hed_string, _n)",
             "len(last_non_empty_valid_character) <= 1",
             "implies(len(issues) == 0, (len(last_non_empty_valid_character) == 0 and last_nb(hed_string, _n) == -1)"
             " or (len(last_non_empty_valid_character) == 1 and ord(last_non_empty_valid_character[0]) == last_nb(hed_string, _n)"
             "     and last_nb(hed_string, _n) != -1))",
             "implies(len(issues) == 0, all(current_tag[k].isspace() for k in range(len(current_tag)))"
             " == (last_nb(hed_string, _n) == -1 or last_nb(hed_string, _n) == 44 or last_nb(hed_string, _n) == 40))",
             "all_in(issues, lambda x: (x.code == 'TAG_EMPTY' or x.code == 'COMMA_MISSING') and x.severity == 1)",
         ]}})
