from pyvc.contract import contract

COUNT_LEMMA = {"name": "count_depth", "vars": {"s": "Str", "n": "Int"}, "induct": "n",
               "stmt": "count_char(s, '(', n) - count_char(s, ')', n) == depth(s, n)"}

NN_MONO = {"name": "never_negative_mono", "vars": {"s": "Str", "m": "Int", "n": "Int"}, "induct": "n",
           "stmt": "implies(0 <= m and m <= n and never_negative(s, n), never_negative(s, m))"}

contract("C01.parentheses_out_of_order",
         file="hed/validator/util/string_util.py", func="StringValidator._parentheses_out_of_order",
         params={"hed_string": "Str"}, returns="Bool", enc="array", prop="C01",
         lemmas=[NN_MONO],
         ensures={"C01.parens.order": "result == (not never_negative(hed_string, len(hed_string)))"},
         bounded={"hed_string": "str:a():7:10"},
         loops={0: {"invariant": ["depth == depth(hed_string, _n)", "never_negative(hed_string, _n)"]}})

# from the property: unbalanced delimiters are reported with the HED code PARENTHESES_MISMATCH
contract("C01.check_count_tag_group_parentheses",
         file="hed/validator/util/string_util.py", func="StringValidator.check_count_tag_group_parentheses",
         params={"hed_string": "Str"}, returns="List[Issue]", enc="array", prop="C01",
         lemmas=[COUNT_LEMMA],
         ensures={
             "C01.parens.reported_iff_unbalanced": "(len(result) == 0) == balanced(hed_string)",
             "C01.parens.code": "all(result[k].code == 'PARENTHESES_MISMATCH' and result[k].severity == 1 for k in range(len(result)))",
             "C01.parens.at_most_one": "len(result) <= 1",
         },
         bounded={"hed_string": "str:a():7:10", "adapter": "rt.adapters.issues_as_objects"})
