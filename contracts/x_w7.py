"""Contracts of writer w7 (second pass; C06, C07, C08, C10, C16, C18, C20): functions that had none."""
from pyvc.contract import contract, class_model, EXTERNS, CLASSES

try:
    import z3
    from pyvc.vals import SV, Cell, Opaque, Unsupported, INT, BOOL, STR
except ImportError:
    z3 = None

IO = "hed/tools/util/io_util.py"
CMP = "hed/models/column_mapper.py"
BF = "hed/tools/bids/bids_file.py"

# ---- C06 "changes neither the table nor the sidecar" / C16 "validated with its merged sidecar": a column mapper is bound to ONE sidecar for
# its whole life - a second one is refused (not silently swapped in), no sidecar leaves the mapper as it was
class_model("MapperSidecarW7", {"_sidecar": "Opt[SidecarM]"})
contract("C06.mapper_takes_one_sidecar_and_refuses_a_second", file=CMP, func="ColumnMapper._set_sidecar",
         params={"self": "MapperSidecarW7", "sidecar": "Opt[SidecarM]"}, returns="Opaque", enc="native", self_class="MapperSidecarW7",
         modifies=["self._sidecar"],
         raises={"ValueError": "self._sidecar is not None"},
         ensures={
             "C06.sidecar.the_given_sidecar_is_the_one_stored": "implies(sidecar is not None, self._sidecar is sidecar)",
             "C06.sidecar.none_given_none_stored": "implies(sidecar is None, self._sidecar is None)",
         })

# ---- C16 "Dataset validation returns exactly the issues of validating ... each events file with its merged sidecar": contents that are loaded
# are kept unless overwriting is asked for; what is stored is what was handed in
class_model("BidsFileW7", {"file_path": "Str", "_contents": "Opt[SidecarM]", "has_hed": "Bool", "entity_dict": "Map[Str,Str]"})
contract("C16.file_contents_kept_unless_overwrite", file=BF, func="BidsFile.set_contents",
         params={"self": "BidsFileW7", "content_info": "Opt[SidecarM]", "overwrite": "Bool"}, returns=None, enc="native", self_class="BidsFileW7",
         modifies=["self._contents", "self.has_hed"],
         ensures={
             "C16.contents.loaded_contents_are_kept": "implies(old(self._contents) is not None and not overwrite,"
                                                      " self._contents is old(self._contents) and self.has_hed == old(self.has_hed))",
             "C16.contents.otherwise_what_is_given_is_stored": "implies(old(self._contents) is None or overwrite,"
                                                               " (content_info is None and self._contents is None) or self._contents is content_info)",
             "C16.contents.new_contents_not_yet_known_to_have_hed": "implies(old(self._contents) is None or overwrite, not self.has_hed)",
         })

# ---- C16 "whose filename entities all occur with the same values": the key of a file over a tuple of entities lists 'entity-value' for exactly
# the asked entities the file HAS, in the order asked, joined by '_'; without entities the key is the file path
contract("C16.file_key_lists_the_entities_the_file_has", file=BF, func="BidsFile.get_key",
         params={"self": "BidsFileW7", "entities": "Opt[List[Str]]"}, returns="Str", enc="native", self_class="BidsFileW7",
         locals={"key_list": "List[Str]"},
         ghost={"update": [("assign:key", "g_keys = key_list")], "init": {"g_keys": "[]"}},
         ensures={
             "C16.key.without_entities_the_path": "implies(entities is None or len(entities) == 0, result == self.file_path)",
             "C16.key.joined_by_underscore": "implies(entities is not None and len(entities) > 0, result == '_'.join(g_keys))",
             "C16.key.every_entity_the_file_has_is_listed": "implies(entities is not None and len(entities) > 0,"
                 " all(implies(entities[k] in self.entity_dict, (entities[k] + '-' + self.entity_dict[entities[k]]) in g_keys) for k in range(len(entities))))",
             "C16.key.nothing_else_is_listed": "implies(entities is not None and len(entities) > 0,"
                 " all_in(g_keys, lambda x: any(entities[k] in self.entity_dict and x == entities[k] + '-' + self.entity_dict[entities[k]] for k in range(len(entities)))))",
         },
         loops={0: {"invariant": [
             "all(implies(entities[k] in self.entity_dict, (entities[k] + '-' + self.entity_dict[entities[k]]) in key_list) for k in range(_n))",
             "all_in(key_list, lambda x: any(entities[k] in self.entity_dict and x == entities[k] + '-' + self.entity_dict[entities[k]] for k in range(_n)))",
         ]}})

DFU = "hed/models/df_util.py"
if z3 is not None:
    def _must_w7(interp, args, kwargs):
        """must_w7(label, cond): an obligation raised from a ghost update (anchored at a statement of the verified function)"""
        ctx = interp.ctx
        ctx.oblige("call-pre", args[0], ctx.zbool(ctx.truth(args[1])), top=True, info={"callee": "ghost-anchor", "clause": args[0]})
        return True

    def _isnan_w7(interp, args, kwargs):
        """math.isnan(x) for a number read tolerantly from a table cell: an uninterpreted predicate of the number (NaN = unreadable cell)"""
        from pyvc.vals import REAL
        v = args[0]
        if isinstance(v, Opaque):
            return interp.opaque_call("math.isnan", args, kwargs)
        f = z3.Function("is_nan_w7", z3.RealSort(), z3.BoolSort())
        return SV(BOOL, f(interp.ctx.term(v, REAL)))
    EXTERNS["must_w7"] = _must_w7
    EXTERNS["math.isnan"] = _isnan_w7
    EXTERNS["is_nan_w7"] = _isnan_w7

# ---- C10 "Rows sharing an onset time ... take effect at their effective time" / C20 "rows that share an onset acting as one time point":
# a row joins the running time point exactly when its onset differs from that point's onset by AT MOST the tolerance 1e-9; otherwise it
# opens a new time point keyed by its own onset; the index filed is the row's own position; an unreadable (NaN) onset is filed nowhere
contract("C10.rows_within_tolerance_share_a_time_point", file=DFU, func="_indexed_dict_from_onsets",
         params={"onsets": "List[Real]"}, returns="Opaque", enc="native", unwind="havoc", also=["C20"],
         ghost={"no_frame": True, "not_at_call_sites": True, "init": {"g_prev": "0.0", "g_filed": "0", "g_due": "False"},
                "update": [("if math.isnan(onset):\n    continue", "g_prev = current_onset"),
                           ("if math.isnan(onset):\n    continue", "g_due = True"),
                           ("indexed_dict[current_onset].append(i)", "g_due = False"),
                           ("indexed_dict[current_onset].append(i)",
                            "g_filed = must_w7('C10.timepoint.joins_iff_within_tolerance_else_opens_its_own', "
                            "(abs(onset - g_prev) <= 0.000000001 and current_onset == g_prev) or "
                            "(abs(onset - g_prev) > 0.000000001 and current_onset == onset))"),
                           ("indexed_dict[current_onset].append(i)",
                            "g_filed = must_w7('C10.timepoint.files_the_rows_own_position', 0 <= i and i < len(onsets) and onset == onsets[i] and not is_nan_w7(onset))")]},
         ensures={"C10.timepoint.every_readable_row_is_filed_under_the_running_time_point": "not g_due"},
         assume=["the loop is explored as one arbitrary iteration from a havocked state (the running time point is an arbitrary number); "
                 "collections.defaultdict(list) is opaque: indexed_dict[k].append(i) files i under k",
                 "math.isnan is an uninterpreted predicate (onsets are modelled as reals; NaN = unreadable cell)"])

# ---- C10 "groups shifted by a Delay tag take effect at their effective time" / C20 "Delay-shifted groups start at their shifted time" / C07
# "row bookkeeping across onset sorting, Delay splitting and same-onset merging": every usable top-level Delay group of a row gets a row of
# ITS OWN (index computed for that group), at the row's OWN onset (looked up by the row's label) plus the delay in default units, labelled
# with the row it came from, and is taken out of its row's text; a group without a usable delay or on a row without a usable onset stays
# where it is; the row's text is written back at its own label after the removal; then the table is sorted (stable: C10.onset_sort_is_stable),
# re-indexed in place with the old index dropped, and only then merged by time point
class_model("DelayTagW7", {})
class_model("DelayGroupW7", {"__str__": "Str"})
class_model("DelayRowW7", {"__str__": "Str"})
if z3 is not None:
    from pyvc.vals import TList as _TL7, TTuple as _TT7, TRef as _TR7, TOpt as _TO7, REAL as _REAL7, sort_of as _sort_of7

    def _delay_groups_w7(interp, args, kwargs):
        ty = _TL7(_TT7(_TR7("DelayTagW7"), _TR7("DelayGroupW7")))
        f = z3.Function("delay_groups_w7", z3.IntSort(), _sort_of7(ty))
        return interp.ctx.wrap(f(args[0].t), ty).sym

    def _find_delay_groups_w7(interp, args, kwargs):
        keys = args[1] if len(args) > 1 else kwargs.get("anchor_tags")
        inc = args[2] if len(args) > 2 else kwargs.get("include_groups", 2)
        ok = isinstance(keys, Cell) and keys.sym is None and set(keys.conc) == {"Delay"} and inc == 2
        interp.ctx.oblige("call-pre", "find_top_level_tags.C10.delay.anchored_at_Delay_tag_and_group", z3.BoolVal(bool(ok)), top=True,
                          info={"callee": "HedString.find_top_level_tags", "clause": "anchor_tags == {'Delay'}, include_groups == 2"})
        return _delay_groups_w7(interp, [args[0]], {})

    def _delay_of_w7(interp, args, kwargs):
        ty = _TO7(_REAL7)
        f = z3.Function("delay_of_w7", z3.IntSort(), _sort_of7(ty))
        return SV(ty, f(args[0].t))

    def _row_remove_w7(interp, args, kwargs):
        g = interp.ctx.ghost
        g["g_removals"] = SV(INT, interp.ctx.term(g["g_removals"], INT) + 1)
        return None
    EXTERNS["delay_groups_w7"] = _delay_groups_w7
    EXTERNS["delay_of_w7"] = _delay_of_w7
    EXTERNS["DelayRowW7.find_top_level_tags"] = _find_delay_groups_w7
    EXTERNS["DelayRowW7.remove"] = _row_remove_w7
    EXTERNS["DelayTagW7.value_as_default_unit"] = _delay_of_w7
class_model("TimePointsW7", {})
class_model("RowTextsW7", {})
contract("C10.w7.indexed_dict_view", file=DFU, func="_indexed_dict_from_onsets", params={"onsets": "Opaque"}, returns="TimePointsW7", enc="native",
         trusted=True, ensures={"new": "fresh(result)"},
         ghost={"sets": {"g_time_points_built": "g_time_points_built + 1", "g_points_from": "onsets", "g_points": "result"}},
         assume=["summary of _indexed_dict_from_onsets for its caller: a new dictionary time point -> row positions (its loop body is proved as "
                 "C10.rows_within_tolerance_share_a_time_point); the call, its argument and its answer are remembered (ghost g_time_points_built, "
                 "g_points_from, g_points)"])
contract("C10.w7.merge_rows_view", file=DFU, func="_filter_by_index_list", params={"original_data": "Opaque", "indexed_dict": "Opaque"},
         returns="Opaque", enc="native", trusted=True, ensures={},
         ghost={"sets": {"g_merges": "g_merges + 1", "g_merged_what": "original_data", "g_merged_by": "indexed_dict"}},
         assume=["summary of _filter_by_index_list for its caller: a new series / a copy of the table whose HED text at the first row of every "
                 "time point is the ','-join of the texts of the rows of that time point, '' elsewhere (pandas item assignment; not verified); "
                 "the call and its arguments are remembered (ghost g_merges, g_merged_what, g_merged_by)"])
# C10 "Rows sharing an onset time ... take effect at their effective time" / C07 "never raises for readable input": the time points are built
# ONCE, from the NUMERIC reading of the onset column that is handed in, read tolerantly (errors='coerce': an n/a onset is no reason to
# raise), and the rows merged are those of the series handed in, by exactly those time points
contract("C10.rows_merged_by_the_time_points_of_the_numeric_onsets", file=DFU, func="filter_series_by_onset",
         params={"series": "RowTextsW7", "onsets": "OnsetColW2"}, returns="Opaque", enc="native",
         ghost={"not_at_call_sites": True, "no_frame": True,
                "init": {"g_time_points_built": "0", "g_merges": "0", "numeric_readings": "0"}},
         ensures={
             "C10.merge.time_points_built_once_from_one_numeric_reading": "g_time_points_built == 1 and numeric_readings == 1",
             "C10.merge.numeric_reading_is_that_of_the_onsets_given": "g_points_from.is_monotonic_increasing == numeric_nondecreasing(onsets)",
             "C10.merge.the_series_given_is_merged_once_by_those_time_points": "g_merges == 1 and g_merged_what is series and g_merged_by is g_points",
         },
         assume=["pd.to_numeric(col, errors='coerce') is the model of C07.needs_sorting_iff_numeric_onsets_go_down (x_w2): anything but 'coerce' is an "
                 "obligation failure; _indexed_dict_from_onsets / _filter_by_index_list are summarised (trusted views)"])
contract("C10.w7.filter_series_view", file=DFU, func="filter_series_by_onset", params={"series": "Opaque", "onsets": "Opaque"}, returns="Opaque",
         enc="native", trusted=True, ensures={},
         assume=["summary of filter_series_by_onset for split_delay_tags: a new table (proved of its body: C10.rows_merged_by_the_time_points_of_the_numeric_onsets)"])
_LOC = "split_df.loc[insert_index] = {'HED': str(group), 'onset': onset_mod, 'original_index': i}"
contract("C10.every_delay_group_gets_its_own_row_at_the_rows_own_onset_plus_delay", file=DFU, func="split_delay_tags",
         params={"series": "Opaque", "hed_schema": "Opaque", "onsets": "Opt[Map[Int,Str]]"}, returns="Opaque", enc="native", unwind="havoc",
         also=["C20", "C07"],
         locals={"delay_strings": "List[Tuple[Int,DelayRowW7]]", "to_remove": "List[DelayGroupW7]"},
         raises={"KeyError": "True"},
         ghost={"no_frame": True, "not_at_call_sites": True,
                "call_requires": {"reset_index": {"drop": [True], "inplace": [True]}},
                "init": {"g_row": "0", "g_due": "False", "g_idx_fresh": "False", "g_removals": "0", "g_stage": "0", "g_ok": "True",
                         "g_written_back": "0", "g_reindexed_at": "0"},
                "update": [("assign:split_df", "g_stage = g_stage + 1"),
                           ("assign:duration_tags", "g_row = i"),
                           ("assign:duration_tags", "g_removals = 0"),
                           ("assign:delay", "g_idx_fresh = False"),      # (first statement of the per-group loop body)
                           ("assign:insert_index", "g_idx_fresh = True"),
                           ("to_remove.append(group)", "g_due = True"),
                           (_LOC, "g_ok = must_w7('C10.delay.new_row_at_the_rows_own_onset_plus_the_delay', delay_of_w7(tag) is not None"
                                  " and float_parses(onsets[g_row]) and onset_mod == delay_of_w7(tag) + float_of(onsets[g_row]) and i == g_row)"),
                           (_LOC, "g_ok = must_w7('C10.delay.index_of_the_new_row_computed_for_this_group', g_idx_fresh)"),
                           (_LOC, "g_ok = must_w7('C10.delay.group_given_a_row_is_listed_for_removal_from_its_own_row', g_due)"),
                           (_LOC, "g_idx_fresh = False"),
                           (_LOC, "g_due = False"),
                           ("split_df.at[i, 'HED'] = str(delay_string)",
                            "g_written_back = must_w7('C10.delay.row_text_written_back_at_its_own_label_after_the_removal', g_removals == 1 and i == g_row)"),
                           ("split_df.reset_index(drop=True, inplace=True)", "g_reindexed_at = g_stage")]},
         ensures={
             "C10.delay.every_usable_delay_group_gets_its_row": "not g_due",
             "C10.delay.sorted_then_reindexed_then_merged": "implies(g_stage > 0, g_stage == 3 and g_reindexed_at == 2)",
         },
         assume=["loops explored as one arbitrary iteration from a havocked state; the table is a pandas object (opaque): item assignment through "
                 ".loc[new label] appends a row, .at[label, column] writes one cell; reset_index(drop=True, inplace=True) renumbers 0..n-1 in place",
                 "the rows carrying a Delay are an arbitrary list of (label, parsed row) pairs: the case-insensitive 'delay/' pre-filter of the "
                 "comprehension is not covered here (allocation inside a comprehension)",
                 "HedString.find_top_level_tags({Delay}) is the deterministic view delay_groups_w7(row); HedTag.value_as_default_unit is the "
                 "view delay_of_w7 (its own contract: C11.value_as_default_unit); HedString.remove(list) takes the listed groups out",
                 "the onset column is a map label -> cell text (a pandas Series in the real object); a label missing from it raises KeyError (admitted)"])

# ---- C16 "the sidecar applied to an events file is the top-down merge, deeper files overriding shallower ones per column key": the merged
# dictionary has exactly the column keys of the listed files, and the entry of a key is the entry of the LAST listed file that has it
# (BidsFileGroup hands the list root first, so the deepest file wins) - column by column, not file by file
SC = "hed/models/sidecar.py"
class_model("SidecarLoadW7", {"name": "Opaque"})
if z3 is not None:
    from pyvc.vals import TMap as _TM7

    def _json_of_w7(interp, args, kwargs):
        ty = _TM7(STR, STR)
        f = z3.Function("json_of_w7", z3.StringSort(), _sort_of7(ty))
        return interp.ctx.wrap(f(interp.ctx.strs.to_native(args[0])), ty)
    EXTERNS["json_of_w7"] = lambda interp, args, kwargs: _json_of_w7(interp, args, kwargs).sym
    EXTERNS["SidecarLoadW7.load_sidecar_file"] = lambda interp, args, kwargs: _json_of_w7(interp, [args[1]], {})
_HAS = "any(c in json_of_w7(files[k]) for k in range({n}))"
_LAST = ("all(implies(c in json_of_w7(files[k]) and all(c not in json_of_w7(files[j]) for j in range(k + 1, {n})),"
         " {m}[c] == json_of_w7(files[k])[c]) for k in range({n}))")
contract("C16.later_files_override_earlier_ones_column_by_column", file=SC, func="Sidecar.load_sidecar_files",
         params={"self": "SidecarLoadW7", "files": "List[Str]"}, returns="Map[Str,Str]", enc="native", self_class="SidecarLoadW7",
         locals={"merged_dict": "Map[Str,Str]"},
         ensures={
             "C16.merge.keys_are_those_of_all_the_files": "forall_str(lambda c: (c in result) == " + _HAS.format(n="len(files)") + ")",
             "C16.merge.entry_of_a_key_is_that_of_the_last_file_that_has_it": "forall_str(lambda c: " + _LAST.format(n="len(files)", m="result") + ")",
         },
         loops={0: {"invariant": [
             "forall_str(lambda c: (c in merged_dict) == " + _HAS.format(n="_n") + ")",
             "forall_str(lambda c: " + _LAST.format(n="_n", m="merged_dict") + ")",
         ]}},
         assume=["Sidecar.load_sidecar_file(file) is the deterministic view json_of_w7(file): the JSON object of that file as a map column key -> "
                 "entry (entries are compared as values); a file that is not a JSON object raises (not explored: the view is always a dict)",
                 "the list form of `files` is covered (a single path / file object is wrapped into a one-element list by the code)"])

# ---- C06 "skipping cells that are n/a or empty" / C07 "never raises for readable input ... (n/a)": an events file is read tab-separated with
# EVERY column as text (dtype=str: an onset '1.50' or a key '007' is not turned into a number), with the header line decided by the caller's
# flag, and every missing cell of the table that was read is then the TEXT 'n/a' (fillna('n/a') on that very table) - so that assembly and
# the validators only ever see strings
BI = "hed/models/base_input.py"
class_model("RawTableW7", {})
class_model("TextLoadW7", {"_dataframe": "Opt[RawTableW7]", "name": "Opaque"})
if z3 is not None:
    _read_csv_before_w7 = EXTERNS.get("pd.read_csv")

    def _kw_fact_w7(interp, call, kw, ok, found):
        interp.ctx.oblige("call-pre", f"{call}.{kw}", z3.BoolVal(bool(ok)), top=True,
                          info={"callee": call, "clause": f"{call}(..., {kw}=...) must read every cell as text; found {found!r}"})

    def _read_csv_w7(interp, args, kwargs):
        """pd.read_csv in the contract that counts the table reads (ghost table_reads_w7): keyword facts are obligations, the table read is a
        new object that is remembered; every other contract sees the model registered before"""
        g = interp.ctx.ghost
        if "table_reads_w7" not in g:
            if _read_csv_before_w7 is not None:
                return _read_csv_before_w7(interp, args, kwargs)
            return interp.opaque_call("pd.read_csv", args, kwargs)
        name = lambda v: getattr(v, "name", None)
        sep = kwargs.get("delimiter", kwargs.get("sep"))
        _kw_fact_w7(interp, "read_csv", "delimiter", sep == "\t", sep)
        _kw_fact_w7(interp, "read_csv", "dtype", name(kwargs.get("dtype")) == "str", kwargs.get("dtype"))
        g["table_reads_w7"] = SV(INT, interp.ctx.term(g["table_reads_w7"], INT) + 1)
        g["g_read_from"] = args[0] if args else kwargs.get("filepath_or_buffer")
        g["g_header"] = kwargs.get("header", 0)
        obj = interp.new_object("RawTableW7")
        g["g_table_read"] = obj
        return obj

    def _fillna_w7(interp, args, kwargs):
        g = interp.ctx.ghost
        g["g_fills"] = SV(INT, interp.ctx.term(g["g_fills"], INT) + 1)
        g["g_fill_text"] = args[1] if len(args) > 1 else kwargs.get("value")
        g["g_filled"] = args[0]
        g["g_fill_inplace"] = bool(kwargs.get("inplace", False))
        g["g_result_of_fill"] = r = interp.new_object("RawTableW7")
        return r
        return interp.new_object("RawTableW7")

    def _dataframe_w7(interp, args, kwargs):
        """pd.DataFrame(...): an unmodelled table, except in the contract that counts the table reads (an object of the table model)"""
        if "table_reads_w7" in interp.ctx.ghost:
            return interp.new_object("RawTableW7")
        return interp.opaque_call("pd.DataFrame", args, kwargs)
    if "pd.DataFrame" not in EXTERNS:
        EXTERNS["pd.DataFrame"] = _dataframe_w7
    EXTERNS["pd.read_csv"] = _read_csv_w7
    EXTERNS["RawTableW7.fillna"] = _fillna_w7
contract("C06.text_file_read_as_text_with_missing_cells_as_na", file=BI, func="BaseInput._load_text_file",
         params={"self": "TextLoadW7", "file": "Str", "pandas_header": "Opt[Int]"}, returns=None, enc="native", self_class="TextLoadW7",
         modifies=["self._dataframe"], raises={"HedFileError": "True"}, also=["C07"],
         ghost={"init": {"table_reads_w7": "0", "g_fills": "0", "g_fill_text": "''", "g_fill_inplace": "False", "g_read_from": "''", "g_header": "None"}},
         ensures={
             "C06.read.at_most_one_table_read_from_the_file_given": "table_reads_w7 <= 1 and implies(table_reads_w7 == 1, g_read_from == file)",
             "C06.read.header_line_as_the_caller_says": "implies(table_reads_w7 == 1, g_header == pandas_header)",
             "C06.read.missing_cells_of_that_table_become_the_text_na":
                 "implies(table_reads_w7 == 1, g_fills == 1 and g_filled is g_table_read and g_fill_text == 'n/a' and not g_fill_inplace"
                 " and self._dataframe is g_result_of_fill)",
         },
         assume=["pandas: read_csv(delimiter='\\t', dtype=str) hands back every cell as the text between two tabs or NaN for a missing one; "
                 "fillna(v) returns a new table with every NaN replaced by v; which cell texts count as missing (keep_default_na / na_values) is "
                 "not covered; a failing read raises (HedFileError admitted); os.path.getsize is opaque"])

# ---- C06 "a reference whose cell is n/a disappears together with the comma or parentheses that only surrounded it": with a real replacement
# text every occurrence of the reference is replaced by it; with an EMPTY or 'n/a' replacement the reference is removed by the
# delimiter-aware removal, one occurrence at a time, until none is left (or the removal cannot make progress) - it is never left in the text
# and never replaced by the literal 'n/a'
if z3 is not None:
    def _re_escape_w7(interp, args, kwargs):
        f = z3.Function("re_escape_w7", z3.StringSort(), z3.StringSort())
        return SV(STR, f(interp.ctx.strs.to_native(args[0])))

    def _re_sub_w7(interp, args, kwargs):
        """re.sub(pattern, repl, text, count=1) with a callable repl: an uninterpreted function of pattern and text (one removal step);
        count must be 1 in the contract that states ghost removal_steps_w7"""
        ctx = interp.ctx
        if "removal_steps_w7" not in ctx.ghost or any(isinstance(a, Opaque) for a in (args[0], args[2])):
            return interp.opaque_call("re.sub", args, kwargs)
        cnt = kwargs.get("count", args[3] if len(args) > 3 else 0)
        ctx.oblige("call-pre", "re.sub.C06.ref.one_reference_at_a_time(count == 1)", z3.BoolVal(cnt == 1), top=True,
                   info={"callee": "re.sub", "clause": f"count must be 1 (a single pass cannot remove two adjacent references); found {cnt!r}"})
        f = z3.Function("remove_once_w7", z3.StringSort(), z3.StringSort(), z3.StringSort())
        return SV(STR, f(ctx.strs.to_native(args[0]), ctx.strs.to_native(args[2])))
    if "re.sub" not in EXTERNS and "re.escape" not in EXTERNS:
        EXTERNS["re.sub"] = _re_sub_w7
        EXTERNS["re.escape"] = _re_escape_w7
    EXTERNS["remove_once_w7"] = lambda interp, args, kwargs: SV(STR, z3.Function("remove_once_w7", z3.StringSort(), z3.StringSort(), z3.StringSort())(
        interp.ctx.strs.to_native(args[0]), interp.ctx.strs.to_native(args[1])))
contract("C06.na_reference_is_removed_not_replaced", file=DFU, func="replace_ref",
         params={"text": "Str", "oldvalue": "Str", "newvalue": "Str"}, returns="Str", enc="native",
         ghost={"not_at_call_sites": True, "init": {"removal_steps_w7": "0", "g_pattern": "''"}, "update": [("assign:pattern", "g_pattern = pattern")]},
         ensures={
             "C06.ref.real_replacement_replaces_every_occurrence":
                 "implies(len(newvalue) > 0 and newvalue != 'n/a', result == replace_all(text, oldvalue, newvalue))",
             "C06.ref.empty_or_na_replacement_removes_until_none_is_left_or_no_progress":
                 "implies(len(newvalue) == 0 or newvalue == 'n/a', oldvalue not in result or remove_once_w7(g_pattern, result) == result)",
         },
         loops={0: {"invariant": ["len(oldvalue) >= 0"]}},
         assume=["re.sub(pattern, remover, text, count=1) is one uninterpreted removal step remove_once_w7(pattern, text); what the step removes "
                 "(the regular expression and the nested _remover: which commas / parentheses go with the reference) is outside the subset (regex)"])
