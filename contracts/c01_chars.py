from pyvc.contract import contract, class_model

CU = "hed/validator/util/char_util.py"
class_model("CharValidator", {"_validate_characters": "Bool"})

# helper: one issue at the given index; '~' has its own code
contract("C01.report_invalid_character_error", file=CU, func="CharValidator._report_invalid_character_error",
         params={"hed_string": "Str", "index": "Int"}, returns="List[Issue]", enc="array", prop="C01",
         requires=["0 <= index < len(hed_string)"],
         ensures={"C01.char.one_issue_with_the_rule_code": "len(result) == 1 and result[0].severity == 1 and result[0].has_msg_char_index"
                                                           " and result[0].msg_char_index == index and result[0].code == "
                                                           "('TILDES_UNSUPPORTED' if hed_string[index] == '~' else 'CHARACTER_INVALID')"})

# C01 "forbidden character -> CHARACTER_INVALID, '~' -> TILDES_UNSUPPORTED": exactly one issue per forbidden character
contract("C01.check_invalid_character_issues", file=CU, func="CharValidator.check_invalid_character_issues",
         params={"self": "CharValidator", "hed_string": "Str", "allow_placeholders": "Bool"}, returns="List[Issue]", enc="array", prop="C01",
         locals={"validation_issues": "List[Issue]"},
         lets={"n": "len(hed_string)"},
         ensures={
             "C01.char.clean_text_is_silent": "(len(result) == 0) == all(not forbidden_char(hed_string[k], allow_placeholders, self._validate_characters)"
                                              " for k in range(len(hed_string)))",
             "C01.char.every_forbidden_character_reported_at_its_index": "all(implies(forbidden_char(hed_string[k], allow_placeholders, self._validate_characters),"
                 " any_in(result, lambda x: x.has_msg_char_index and x.msg_char_index == k and x.severity == 1 and x.code == "
                 "('TILDES_UNSUPPORTED' if hed_string[k] == '~' else 'CHARACTER_INVALID'))) for k in range(len(hed_string)))",
             "C01.char.nothing_else_reported": "all_in(result, lambda x: x.has_msg_char_index and 0 <= x.msg_char_index and x.msg_char_index < len(hed_string)"
                                               " and forbidden_char(hed_string[x.msg_char_index], allow_placeholders, self._validate_characters))",
         },
         loops={0: {"invariant": [
             "(len(validation_issues) == 0) == all(not forbidden_char(hed_string[k], allow_placeholders, self._validate_characters) for k in range(_n))",
             "all(implies(forbidden_char(hed_string[k], allow_placeholders, self._validate_characters),"
             " any_in(validation_issues, lambda x: x.has_msg_char_index and x.msg_char_index == k and x.severity == 1 and x.code == "
             "('TILDES_UNSUPPORTED' if hed_string[k] == '~' else 'CHARACTER_INVALID'))) for k in range(_n))",
             "all_in(validation_issues, lambda x: x.has_msg_char_index and 0 <= x.msg_char_index and x.msg_char_index < _n"
             " and forbidden_char(hed_string[x.msg_char_index], allow_placeholders, self._validate_characters))",
         ]}},
         bounded={"cases": "rt.gens.char_cases", "adapter": "rt.adapters.char_validator_method"})

# C01 / C12: invalid characters inside a tag are reported at exactly their tag-relative position
contract("C01.check_invalid_chars", file=CU, func="CharValidator._check_invalid_chars",
         params={"check_string": "Str", "allowed_chars": "Str", "source_tag": "HedTag", "starting_index": "Int", "error_code": "Opt[Str]"},
         returns="List[Issue]", enc="array", prop="C01", also=["C12"],
         requires=["0 <= starting_index", "starting_index + len(check_string) <= len(source_tag.tag)"],
         locals={"validation_issues": "List[Issue]"},
         ensures={
             "C01.tagchar.clean_is_silent": "(len(result) == 0) == all(allowed_tag_char(check_string[k], allowed_chars) for k in range(len(check_string)))",
             "C12.tagchar.each_invalid_character_located": "all(implies(not allowed_tag_char(check_string[k], allowed_chars),"
                 " any_in(result, lambda x: x.has_index_in_tag and x.index_in_tag == starting_index + k"
                 " and x.index_in_tag_end == starting_index + k + 1 and x.severity == 1)) for k in range(len(check_string)))",
             "C12.tagchar.only_invalid_characters_located": "all_in(result, lambda x: x.has_index_in_tag and starting_index <= x.index_in_tag"
                 " and x.index_in_tag < starting_index + len(check_string) and x.index_in_tag_end == x.index_in_tag + 1"
                 " and not allowed_tag_char(check_string[x.index_in_tag - starting_index], allowed_chars))",
         },
         loops={0: {"invariant": [
             "(len(validation_issues) == 0) == all(allowed_tag_char(check_string[k], allowed_chars) for k in range(_n))",
             "all(implies(not allowed_tag_char(check_string[k], allowed_chars),"
             " any_in(validation_issues, lambda x: x.has_index_in_tag and x.index_in_tag == starting_index + k"
             " and x.index_in_tag_end == starting_index + k + 1 and x.severity == 1)) for k in range(_n))",
             "all_in(validation_issues, lambda x: x.has_index_in_tag and starting_index <= x.index_in_tag"
             " and x.index_in_tag < starting_index + _n and x.index_in_tag_end == x.index_in_tag + 1"
             " and not allowed_tag_char(check_string[x.index_in_tag - starting_index], allowed_chars))",
         ]}})

# C13: "a prefix that is ... not alphabetic is an error"
contract("C13.check_invalid_prefix_issues", file=CU, func="CharValidator._check_invalid_prefix_issues",
         params={"original_tag": "HedTag"}, returns="List[Issue]", enc="array", prop="C13",
         lets={"ns": "original_tag.schema_namespace"},
         ensures={"C13.prefix.non_alphabetic_is_error": "(len(result) > 0) == (len(ns) > 0 and not (len(ns) > 1 and "
                                                        "all(ns[k].isalpha() for k in range(len(ns) - 1))))",
                  "C13.prefix.code": "all_in(result, lambda x: x.code == 'TAG_NAMESPACE_PREFIX_INVALID' and x.severity == 1)"})
