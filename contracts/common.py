"""Class models (abstract views of the real classes) and trusted external models shared by the contracts.

Class models are *assumed* to describe the real objects (pure property getters are treated as fields);
the T3 monitors exercise them on the real classes.  Everything here is listed as trusted base in the evidence."""
from pyvc.contract import class_model, EXTERNS
try:                                    # the solver side (python3-vt); absent under /venv/bin/python
    import z3
    from pyvc.vals import SV, Cell, Opaque, Unsupported, INT, BOOL
except ImportError:                     # concrete side only needs the contract texts
    z3 = None

class_model("Issue", {
    "code": "Str", "severity": "Int", "message": "Opaque", "kind": "Str",
    "source_tag": "Opt[HedTag]", "has_source_tag": "Bool",
    "index_in_tag": "Int", "has_index_in_tag": "Bool",
    "index_in_tag_end": "Opt[Int]", "has_index_in_tag_end": "Bool",
    "char_index": "Int", "has_char_index": "Bool", "msg_char_index": "Int", "has_msg_char_index": "Bool", "char_index_end": "Int", "has_char_index_end": "Bool",
    "source_string": "Opaque", "has_source_string": "Bool",
    "def_name": "Opaque", "tag_text": "Opaque",
    # ghost view: where the issue's tag sits in the validated text (None when it cannot be located)
    "span_start": "Opt[Int]", "span_end": "Opt[Int]",
})

class_model("HedTag", {
    "tag": "Str", "org_tag": "Str", "extension": "Str", "short_base_tag": "Str", "short_tag": "Str", "long_tag": "Str",
    "base_tag": "Str", "org_base_tag": "Str", "schema_namespace": "Str", "_hed_string": "Str", "span": "Tuple[Int,Int]",
    "_tag": "Opt[Str]", "_namespace": "Str", "_extension_value": "Str", "__str__": "Str",
    # abstract view of the resolved schema node (pure getters of HedTag, trusted; exercised by the T3 workloads)
    "known": "Bool",            # bool(self._schema_entry)
})

class_model("HedGroup", {"_startpos": "Int", "_endpos": "Int", "_hed_string": "Str", "__str__": "Str", "span": "Tuple[Int,Int]",
                         "__bool__": "Bool"})       # bool(group) == bool(children)
class_model("HedString", {"_from_strings": "List[HedString]"}, bases=["HedGroup"])


def _format_error(interp, args, kwargs):
    """ErrorHandler.format_error(kind, *args, actual_error=None, **kwargs): trusted model taken from the
    mechanically extracted decorator table (kind -> published code, default severity, sub-tag flag)."""
    ctx = interp.ctx
    eng = interp.engine
    kind = args[0]
    if isinstance(kind, SV) and kind.ty.name in ("Str", "Opt"):
        # a kind computed by the code (e.g. chosen by a helper): split on the registered kinds it can be - only candidates whose text occurs
        # in the path condition are tried, the rest is one "none of them" branch that stays unsupported
        if kind.ty.name == "Opt":
            kind = ctx.unopt(kind, "TypeError", "format_error(None)")
        term = ctx.strs.to_native(kind)
        mentioned = " ".join(p_.sexpr() for p_ in ctx.pc)
        chosen = None
        for cand in sorted(eng.errtab):
            if ('"' + cand + '"') in mentioned and ctx.decide(term == z3.StringVal(cand), "error-kind"):
                chosen = cand
                break
        if chosen is None:
            raise Unsupported("format_error with a symbolic error kind outside the registered kinds mentioned on this path")
        kind = chosen
    if not isinstance(kind, str):
        raise Unsupported("format_error with a symbolic error kind")
    entry = eng.errtab.get(kind)
    rest = list(args[1:])
    kw = dict(kwargs)
    actual = kw.pop("actual_error", None)
    obj = interp.new_object("Issue")
    code = entry["code"] if entry else kind
    sev = entry["severity"] if entry else 1
    if "severity" in kw:
        sev = kw.pop("severity")
    if actual is not None:
        if isinstance(actual, str):
            code = actual if actual else code
        elif isinstance(actual, SV) and actual.ty.name == "Opt":
            # `if actual_error:` - None or '' keeps the registered code
            from pyvc.vals import sort_of
            so = sort_of(actual.ty)
            val = ctx.wrap(so.val(actual.t), actual.ty.args[0])
            cond = z3.And(z3.Not(so.is_none(actual.t)), ctx.zbool(ctx.truth(val)))
            code = interp.merge(cond, val, code)
        else:
            raise Unsupported("symbolic actual_error")
    W = interp.field_write
    W(obj, "code", code)
    W(obj, "severity", sev)
    W(obj, "kind", kind)
    for f in ("has_source_tag", "has_index_in_tag", "has_index_in_tag_end", "has_char_index", "has_char_index_end",
              "has_source_string", "has_msg_char_index"):
        W(obj, f, False)
    if entry:
        params = list(entry["params"])
        bound = {}
        if entry["tag_error"]:
            wrapper_params = ["tag", "index_in_tag", "index_in_tag_end"] if entry["has_sub_tag"] else ["tag"]
            inner = params[2:] if entry["has_sub_tag"] else params[1:]
            names = wrapper_params + inner
        else:
            names = params
        for k, a in enumerate(rest):
            if k < len(names):
                bound[names[k]] = a
        for k, v in kw.items():
            bound[k] = v
        if entry["tag_error"]:
            tag = bound.get("tag")
            if isinstance(tag, SV) and tag.ty.name == "Ref" and tag.ty.args[0].name == "HedTag":
                W(obj, "source_tag", tag)
                W(obj, "has_source_tag", True)
                if entry["has_sub_tag"]:
                    a = bound.get("index_in_tag")
                    b = bound.get("index_in_tag_end")
                    tag_len = ctx.term(interp.seq_len(interp.field_read(tag, "tag")), INT)
                    at = ctx.term(a, INT)
                    bt = tag_len if b is None else ctx.term(ctx.unopt(b), INT)
                    # C12: the sub-tag wrapper requires 0 <= index_in_tag <= index_in_tag_end <= len(tag.tag)
                    ctx.oblige("call-pre", f"format_error[{kind}].subtag-span", z3.And(0 <= at, at <= bt, bt <= tag_len),
                               info={"callee": "hed_tag_error.wrapper(has_sub_tag)", "kind": kind})
                    W(obj, "index_in_tag", SV(INT, at))
                    W(obj, "has_index_in_tag", True)
                    W(obj, "index_in_tag_end", SV(INT, bt))
                    W(obj, "has_index_in_tag_end", True)
            elif tag is not None:
                W(obj, "has_source_tag", True)
        if "char_index" in bound and not isinstance(bound["char_index"], Opaque):
            # the message functions take char_index only to print it: the issue dict itself gets no 'char_index' key from
            # format_error (that key is written by _update_error_with_char_pos alone).  Ghost view of the printed index:
            W(obj, "msg_char_index", bound["char_index"])
            W(obj, "has_msg_char_index", True)
    res = Cell("list", conc=[obj], fresh=True)
    res.elem = obj.ty
    return res


def _has_attr_term(interp, tag, key):
    f = z3.Function("has_attr", z3.IntSort(), z3.StringSort(), z3.BoolSort())
    known = interp.ctx.term(interp.field_read(tag, "known"), BOOL)
    return z3.And(known, f(tag.t, interp.ctx.strs.to_native(key) if not isinstance(key, str) else z3.StringVal(key)))


def _tag_has_attribute(interp, args, kwargs):
    """HedTag.has_attribute(k) == bool(entry) and entry.has_attribute(k): uninterpreted per (tag, key)"""
    return SV(BOOL, _has_attr_term(interp, args[0], args[1]))


def _tag_is_basic(interp, args, kwargs):
    ctx = interp.ctx
    tag = args[0]
    ext = interp.field_read(tag, "extension")
    return SV(BOOL, z3.And(ctx.term(interp.field_read(tag, "known"), BOOL), z3.Not(ctx.zbool(ctx.truth(ext)))))


def _tag_takes_value(interp, args, kwargs):
    return SV(BOOL, _has_attr_term(interp, args[0], "takesValue"))


def _tag_base_has_attribute(interp, args, kwargs):
    f = z3.Function("base_has_attr", z3.IntSort(), z3.StringSort(), z3.BoolSort())
    key = args[1]
    return SV(BOOL, f(args[0].t, z3.StringVal(key) if isinstance(key, str) else interp.ctx.strs.to_native(key)))


def _in_original(interp, args, kwargs):
    """HedGroup.check_if_in_original(x): trusted pure predicate (identity search in the original children)"""
    f = z3.Function("in_original", z3.IntSort(), z3.IntSort(), z3.BoolSort())
    r = f(args[0].t, args[1].t)
    if isinstance(args[0], SV) and args[0].ty.name == "Ref":
        # a group that holds something is not empty: bool(group) is True
        truth = interp.engine.truth_of_object(interp.ctx, args[0])
        if not isinstance(truth, bool):
            interp.ctx.assume(z3.Implies(r, truth))
    return SV(BOOL, r)


if z3 is not None:
    EXTERNS["HedString.check_if_in_original"] = _in_original
    EXTERNS["HedGroup.check_if_in_original"] = _in_original
    EXTERNS["in_original"] = _in_original
    EXTERNS["HedTag.base_tag_has_attribute"] = _tag_base_has_attribute
    EXTERNS["base_has_attr"] = _tag_base_has_attribute
    EXTERNS["ErrorHandler.format_error"] = _format_error
    # format_error_from_context(kind, error_context, *args, ...) = format_error(kind, *args, ...) + context entries and character
    # positions stamped on the single issue (code / severity / kind are those of format_error)
    EXTERNS["ErrorHandler.format_error_from_context"] = lambda interp, args, kwargs: _format_error(
        interp, [args[0]] + list(args[2:]), {k: v for k, v in kwargs.items() if k != "error_context"})
    EXTERNS["HedTag.has_attribute"] = _tag_has_attribute
    EXTERNS["has_attr"] = _tag_has_attribute
    EXTERNS["HedTag.is_basic_tag"] = _tag_is_basic
    EXTERNS["HedTag.is_takes_value_tag"] = _tag_takes_value

TRUSTED = [
    "ErrorHandler.format_error modelled from the extracted @hed_error/@hed_tag_error decorator table "
    "(kind -> code, severity, sub-tag flag); message text not modelled",
    "HedTag.has_attribute / is_basic_tag / is_takes_value_tag are pure functions of the resolved schema node "
    "(has_attr uninterpreted per tag and key; is_basic == known and no extension)",
]

# representation invariant of HedTag text layout used by the sub-tag span preconditions (C12): the extension follows the
# base tag after one slash.  It is a PRECONDITION (requires) of the contracts that use it, established by _calculate_to_canonical_forms for
# parsed tags; the concrete cross-check (rt/xgens_tags.py) found real tags outside it - a trailing slash ('Red/'), a tag after
# replace_placeholder, a tag rewritten through the .tag / .short_base_tag setters - which those contracts therefore do not cover.
HEDTAG_LAYOUT = ("len(original_tag.tag) == len(original_tag.org_base_tag) + (1 + len(original_tag.extension) "
                 "if len(original_tag.extension) > 0 else 0)")

from pyvc.contract import CLASSES
for _c in ("HedTag", "HedGroup", "HedString"):
    CLASSES[_c]["opaque_methods"] = True      # in frame-only (havoc) contracts their unmodelled methods are opaque calls

for _c in ("HedGroup", "HedString", "HedTag"):
    CLASSES[_c]["structural_eq"] = True       # __eq__ compares children, not identity
