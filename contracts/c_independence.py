"""Iteration-independence contracts (pyvc/dataflow.py) for the loops that judge items one by one.

Each states, for the named loop(s) of the real function: no local value computed for one item reaches a later item, the issue list is only
extended, no item is skipped by a break.  That is the part of "every tag / group / column / entry / file is judged on its own, whatever
stands next to it" (C01, C04, C07, C08, C14, C16) that can be decided from the loop body alone; object state written through parameters is
outside the analysis.  Registered BEFORE any seeded change to these functions was seen."""
from pyvc.contract import contract

IND = {"dataflow_only": True, "no_frame": True}
GU = "hed/validator/util/group_util.py"
HV = "hed/validator/hed_validator.py"
SV = "hed/validator/sidecar_validator.py"
SC = "hed/schema/schema_compliance.py"
TABLE = [
    # (contract id, property, also, file, function, {loop ordinal: [accumulators]})
    ("C01.tag_level_rules_per_group", "C01", ["C04"], GU, "GroupValidator.run_tag_level_validators", {0: ["validation_issues"]}),
    ("C01.required_tags_each_checked", "C01", [], GU, "GroupValidator.check_for_required_tags", {0: ["validation_issues"]}),
    ("C01.unique_tags_each_checked", "C01", [], GU, "GroupValidator.check_multiple_unique_tags_exist", {0: ["validation_issues"]}),
    ("C01.tag_characters_each_tag", "C01", ["C04"], HV, "HedValidator.run_basic_checks", {0: ["issues"]}),
    ("C01.tag_formatting_each_tag", "C01", ["C04"], HV, "HedValidator._run_hed_string_validators", {0: ["validation_issues"]}),
    ("C01.def_tags_each_checked", "C01", ["C09"], "hed/validator/def_validator.py", "DefValidator.validate_def_tags", {0: ["def_issues"]}),
    ("C07.column_structure_each_cell", "C07", [], "hed/validator/spreadsheet_validator.py", "SpreadsheetValidator._validate_column_structure",
     {0: ["issues"], 1: ["issues"], 2: ["issues"]}),
    ("C08.structure_each_column", "C08", [], SV, "SidecarValidator.validate_structure", {0: ["all_validation_issues"]}),
    ("C08.categorical_each_key", "C08", [], SV, "SidecarValidator._validate_categorical_column", {0: ["val_issues"]}),
    ("C08.nested_key_search_every_value", "C08", [], SV, "SidecarValidator._check_dict", {0: []}),
    ("C08.nested_key_search_every_item", "C08", [], SV, "SidecarValidator._check_list", {0: []}),
    ("C08.definition_spot_each_column", "C08", [], SV, "SidecarValidator._check_definitions_bad_spot", {0: ["issues"], 1: ["issues"]}),
    ("C14.attributes_each_entry", "C14", [], SC, "SchemaValidator.check_attributes", {0: ["issues_list"], 1: ["issues_list"]}),
    ("C14.tag_entry_attributes_each", "C14", [], SC, "SchemaValidator._check_tag_entry_attributes", {0: ["issues_list"]}),
    ("C14.unknown_attributes_each", "C14", [], SC, "SchemaValidator._check_unknown_attributes", {0: ["issues_list"]}),
    ("C14.validators_each_run", "C14", [], SC, "SchemaValidator._run_validators", {0: ["issues_list"], 1: []}),
    ("C14.duplicate_names_each_section", "C14", [], SC, "SchemaValidator.check_duplicate_names", {0: ["issues_list"]}),
    ("C14.script_every_schema_file_counts", "C14", [], "hed/scripts/script_util.py", "validate_all_schemas",
     {0: ["all_issues"], 1: ["single_schema_issues"]}),
    ("C09.def_tags_collected_from_every_tag_of_every_group", "C09", ["C01"], "hed/models/hed_group.py", "HedGroup._get_def_tags_from_group",
     {0: ["def_tags"], 1: ["def_tags"]}),
    ("C16.sidecars_each_validated", "C16", [], "hed/tools/bids/bids_file_group.py", "BidsFileGroup.validate_sidecars", {0: ["issues"]}),
    ("C16.datafiles_each_validated", "C16", [], "hed/tools/bids/bids_file_group.py", "BidsFileGroup.validate_datafiles", {0: ["issues"]}),
    ("C16.groups_each_validated", "C16", [], "hed/tools/bids/bids_dataset.py", "BidsDataset.validate", {0: ["issues"]}),
]
for cid, prop, also, f, fn, loops in TABLE:
    contract(cid, file=f, func=fn, params={}, returns="Opaque", enc="native", prop=prop, also=also,
             ghost=dict(IND, independent_iterations=loops), ensures={})
