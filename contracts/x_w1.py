"""Contracts of writer w1: HedTag getters, HedGroup tree surgery / searches, HedString expand / shrink, query operators (C02, C04, C09, C15)."""
from pyvc.contract import contract, class_model, CLASSES, EXTERNS

# ------------------------------------------------------------------------------------------------ HedTag: the forms a tag is printed in
# C02 "printing the tree in original, short or long form and re-parsing yields an equal tree" / "each tag's original text is exactly the source
# slice at its reported span"; C13/C04: the library prefix and the value / extension suffix are part of every form.
# Stated against the STORED fields (_schema_entry, _namespace, _extension_value, _tag, _hed_string, span).
T = "hed/models/hed_tag.py"
class_model("TagEntryW1", {"short_tag_name": "Str", "long_tag_name": "Str"})
class_model("HedTagW1", {"_schema_entry": "Opt[TagEntryW1]", "_namespace": "Str", "_extension_value": "Str", "_tag": "Opt[Str]",
                         "_hed_string": "Str", "span": "Tuple[Int,Int]", "__str__": "Str"})
TRUTHY_ENTRY = "a schema entry is truthy (HedSchemaEntry defines neither __bool__ nor __len__)"
SELF = {"self": "HedTagW1"}
KW = dict(file=T, params=SELF, enc="native", self_class="HedTagW1", assume=[TRUTHY_ENTRY])

contract("C02.tag_short_form", func="HedTag.short_tag", returns="Str", **KW,
         ensures={"C02.short.prefix_name_suffix": "implies(self._schema_entry is not None,"
                                                  " result == self._namespace + self._schema_entry.short_tag_name + self._extension_value)",
                  "C02.short.unidentified_is_text": "implies(self._schema_entry is None, result == self.__str__)"})
contract("C02.tag_long_form", func="HedTag.long_tag", returns="Str", **KW,
         ensures={"C02.long.prefix_path_suffix": "implies(self._schema_entry is not None,"
                                                 " result == self._namespace + self._schema_entry.long_tag_name + self._extension_value)",
                  "C02.long.unidentified_is_text": "implies(self._schema_entry is None, result == self.__str__)"})
contract("C02.tag_base_forms", func="HedTag.base_tag", returns="Str", **KW,
         ensures={"C02.base.long_name_of_the_node": "result == (self._schema_entry.long_tag_name if self._schema_entry is not None else self.__str__)"})
contract("C02.tag_short_base", func="HedTag.short_base_tag#0", returns="Str", **KW,
         ensures={"C02.base.short_name_of_the_node": "result == (self._schema_entry.short_tag_name if self._schema_entry is not None else self.__str__)"})
# (a getter that reads another getter sees it as a field of the model: each getter's own rule is the contract on that getter)
class_model("HedTagW1b", {"org_tag": "Str", "short_tag": "Str", "tag": "Str"}, bases=["HedTagW1"])
SELFB = {"self": "HedTagW1b"}
KWB = dict(file=T, params=SELFB, enc="native", self_class="HedTagW1b")
contract("C02.tag_text", func="HedTag.__str__", returns="Str", **KWB, assume=[TRUTHY_ENTRY],
         ensures={"C02.str.identified_prints_short_form": "implies(self._schema_entry is not None, result == self.short_tag)",
                  "C02.str.rewritten_text_else_source_slice": "implies(self._schema_entry is None, result == (self._tag if self._tag is not None and len(self._tag) > 0"
                                                              " else self._hed_string[self.span[0]:self.span[1]]))"})
contract("C02.tag_as_written", func="HedTag.org_tag", returns="Str", file=T, params=SELF, enc="native", self_class="HedTagW1",
         ensures={"C02.org.source_slice_at_span": "result == self._hed_string[self.span[0]:self.span[1]]"})
contract("C02.tag_current_text", func="HedTag.tag#0", returns="Str", **KWB,
         ensures={"C02.tag.rewritten_text_else_as_written": "result == (self._tag if self._tag is not None and len(self._tag) > 0 else self.org_tag)"})
contract("C02.tag_extension", func="HedTag.extension#0", returns="Str", file=T, params=SELF, enc="native", self_class="HedTagW1",
         ensures={"C02.ext.suffix_without_its_slash": "result == self._extension_value[1:]"})
# the part of the text as written that names the schema node: the text minus the value / extension suffix
contract("C02.tag_base_as_written", func="HedTag.org_base_tag", returns="Str", **KWB, assume=[TRUTHY_ENTRY],
         ensures={"C02.orgbase.text_minus_suffix": "implies(self._schema_entry is not None and len(self._extension_value) <= len(self.tag),"
                                                   " result == self.tag[:len(self.tag) - len(self._extension_value)])",
                  "C02.orgbase.text_is_base_plus_suffix_length": "implies(self._schema_entry is not None and len(self._extension_value) <= len(self.tag),"
                                                                 " len(result) + len(self._extension_value) == len(self.tag))",
                  "C02.orgbase.unidentified_is_text": "implies(self._schema_entry is None, result == self.__str__)"})

# C09 "content with '#' replaced by v": a tag carries a placeholder when its text as written or its value part has a '#'; plugging a value
# rewrites the value part of an identified tag (the node name is untouched) or the text of an unidentified one, and only those
contract("C09.tag_is_placeholder", func="HedTag.is_placeholder", returns="Bool", **KWB,
         ensures={"C09.placeholder.hash_in_text_or_value": "result == ('#' in self.org_tag or '#' in self._extension_value)"})
contract("C09.tag_replace_placeholder", func="HedTag.replace_placeholder", file=T, params={"self": "HedTagW1b", "placeholder_value": "Str"},
         returns=None, enc="native", self_class="HedTagW1b", modifies=["self._extension_value", "self._tag"], assume=[TRUTHY_ENTRY],
         lets={"ph": "'#' in self.org_tag or '#' in old(self._extension_value)"},
         ensures={
             "C09.plug.value_part_of_identified_tag": "implies(ph and self._schema_entry is not None,"
                 " self._extension_value == replace_all(old(self._extension_value), '#', placeholder_value) and self._tag == old(self._tag))",
             "C09.plug.text_of_unidentified_tag": "implies(ph and self._schema_entry is None,"
                 " self._tag == replace_all(old(self.tag), '#', placeholder_value) and self._extension_value == old(self._extension_value))",
             "C09.plug.tag_without_placeholder_untouched": "implies(not ph, self._tag == old(self._tag) and self._extension_value == old(self._extension_value))",
         })

# C04 "unchanged when any tag name is rewritten in another valid spelling": rewriting a tag's text in place (the .tag setter) forgets the old node and
# identifies the NEW text with the schema the tag belongs to, under the tag's own prefix
class_model("HedTagSetW1", {"_tag": "Opt[Str]", "_schema": "SchemaAny"}, bases=["HedTagIdent"])
contract("C04.tag_text_setter_reidentifies", func="HedTag.tag#1", file=T, params={"self": "HedTagSetW1", "new_tag_val": "Str"}, returns=None,
         enc="native", self_class="HedTagSetW1",
         modifies=["self._tag", "self._schema_entry", "self._schema", "self.tag_terms", "self._extension_value"],
         ensures={
             "C04.retag.new_text_stored": "self._tag == new_tag_val",
             "C04.retag.identified_by_its_own_schema": "self._schema is old(self._schema) and"
                                                       " self._schema_entry == answered_entry(self._schema, self, self.schema_namespace)",
         },
         assume=["a tag under the setter has a schema (HedTag.__init__ always records one: _calculate_to_canonical_forms runs in the constructor)"])

# C04 "schema-based attribute checks use the resolved node, not the spelling": the attribute questions the validators ask of a tag are the
# answers of the tag's OWN resolved node for the attribute ASKED; an unidentified tag has no attribute
try:
    import z3 as _z3w1
    from pyvc.vals import SV as _SVw1, BOOL as _BOOLw1, sort_of as _sortw1

    def _ref_of(v):
        """reference term of a Ref or Opt[Ref] value (clauses guard `is not None` themselves)"""
        return _sortw1(v.ty).val(v.t) if v.ty.name == "Opt" else v.t

    def _entry_pred(fname):
        def f(interp, args, kwargs):
            fn = _z3w1.Function(fname, _z3w1.IntSort(), _z3w1.StringSort(), _z3w1.BoolSort())
            key = args[1]
            return _SVw1(_BOOLw1, fn(_ref_of(args[0]), _z3w1.StringVal(key) if isinstance(key, str) else interp.ctx.strs.to_native(key)))
        return f
    def _expansion_of_w1(interp, args, kwargs):
        """the same uninterpreted expansion_of(entry, tag, value) as contracts/extern_fs.py, admitting an Opt[...] entry (guarded by the clause)"""
        from pyvc.vals import TRef, TOpt
        ty = TOpt(TRef("HedGroup"))
        f = _z3w1.Function("expansion_of", _z3w1.IntSort(), _z3w1.IntSort(), _z3w1.StringSort(), _sortw1(ty))
        return _SVw1(ty, f(_ref_of(args[0]), _ref_of(args[1]), interp.ctx.strs.to_native(args[2])))
    EXTERNS["expansion_of_w1"] = _expansion_of_w1
    EXTERNS["TagEntryW1.has_attribute"] = EXTERNS["entry_has_attr_w1"] = _entry_pred("entry_has_attr_w1")
    EXTERNS["TagEntryW1.base_tag_has_attribute"] = EXTERNS["entry_base_has_attr_w1"] = _entry_pred("entry_base_has_attr_w1")
except ImportError:
    pass
ENTRY_PURE = "has_attribute / base_tag_has_attribute of a schema entry are pure functions of (entry, attribute name)"
KWA = dict(file=T, params={"self": "HedTagW1", "attribute": "Str"}, returns="Bool", enc="native", self_class="HedTagW1", assume=[TRUTHY_ENTRY, ENTRY_PURE])
contract("C04.tag_has_attribute", func="HedTag.has_attribute", **KWA,
         ensures={"C04.attr.answer_of_the_resolved_node": "result == (self._schema_entry is not None and entry_has_attr_w1(self._schema_entry, attribute))"})
contract("C04.tag_base_has_attribute", func="HedTag.base_tag_has_attribute", file=T, params={"self": "HedTagW1", "tag_attribute": "Str"}, returns="Bool",
         enc="native", self_class="HedTagW1", assume=[TRUTHY_ENTRY, ENTRY_PURE],
         ensures={"C04.attr.inherited_answer_of_the_resolved_node": "result == (self._schema_entry is not None and entry_base_has_attr_w1(self._schema_entry, tag_attribute))"})
contract("C04.tag_takes_value", func="HedTag.is_takes_value_tag", file=T, params=SELF, returns="Bool", enc="native", self_class="HedTagW1",
         assume=[TRUTHY_ENTRY, ENTRY_PURE],
         ensures={"C04.attr.takes_value_is_the_nodes_attribute": "result == (self._schema_entry is not None and entry_has_attr_w1(self._schema_entry, 'takesValue'))"})
contract("C04.tag_exists", func="HedTag.tag_exists_in_schema", file=T, params=SELF, returns="Bool", enc="native", self_class="HedTagW1", assume=[TRUTHY_ENTRY],
         ensures={"C04.attr.exists_iff_resolved": "result == (self._schema_entry is not None)"})

# C09 "Expanding an annotation replaces every Def/Name[/v] by (Def-expand/Name[/v], content with '#' replaced by v) ... expanding twice equals
# expanding once": the expansion a Def tag hands out is what its definition entry answers for THIS tag and the value after 'Name/', it is
# computed once and remembered (asked again, the same group comes back), and computing it leaves the tag where it sits in the tree
class_model("DefEntryW1", {})
class_model("HedTagExpW1", {"_expandable": "Opt[HedGroup]", "_def_entry": "Opt[DefEntryW1]", "_parent": "Opt[HedGroup]", "_expanded": "Bool"},
            bases=["HedTag"])
contract("C09.get_definition_reparents_w1", file="hed/models/definition_entry.py", func="DefinitionEntry.get_definition",
         params={"self": "DefEntryW1", "replace_tag": "HedTagExpW1", "placeholder_value": "Str", "return_copy_of_tag": "Bool"},
         returns="Opt[HedGroup]", enc="native", trusted=True, self_class="DefEntryW1", modifies=["replace_tag._parent"],
         ensures={"named": "result == expansion_of(self, replace_tag, placeholder_value)"},
         assume=["DefinitionEntry.get_definition is a deterministic function of the entry, the tag and the value; the group it builds around the tag "
                 "becomes the tag's parent (HedGroup.__init__ re-parents its contents) - nothing else of the tag is written"])
contract("C09.tag_expandable", func="HedTag.expandable", file=T, params={"self": "HedTagExpW1"}, returns="Opt[HedGroup]", enc="native",
         self_class="HedTagExpW1", modifies=["self._expandable", "self._expanded", "self._parent"],
         lets={"value": "self.extension.partition('/')[2]",
               "asked": "old(self._expandable) is None and self._def_entry is not None"},
         ensures={
             "C09.expandable.is_the_entrys_answer_for_this_tag_and_value": "implies(asked, result == expansion_of_w1(self._def_entry, self, value))",
             "C09.expandable.remembered": "self._expandable == result",
             "C09.expandable.computed_once": "implies(old(self._expandable) is not None, result == old(self._expandable) and self._expanded == old(self._expanded))",
             "C09.expandable.tag_stays_in_its_group": "self._parent == old(self._parent)",
             "C09.expandable.flag_says_whether_already_expanded": "implies(asked and result is not None, self._expanded == (self.short_base_tag == 'Def-expand'))",
             "C09.expandable.no_definition_no_expansion": "implies(old(self._expandable) is None and self._def_entry is None, result is None)",
         },
         assume=["a definition entry is truthy (DefinitionEntry defines neither __bool__ nor __len__)"])

# ------------------------------------------------------------------------------------------------ HedGroup: the tag searches behind the queries
# C15 "a bare term matches exactly when some tag has that term on its schema path, a quoted term only the exact tag, and a trailing-star term
# by short-form prefix": each search hands out exactly the tags of the searched list that satisfy its rule, each paired with ITS OWN parent group
G = "hed/models/hed_group.py"
class_model("TagQW1", {"short_base_tag": "Str", "short_tag": "Str", "tag_terms": "Set[Str]", "_parent": "Opt[GroupQW1]", "__str__": "Str"})
class_model("GroupQW1", {"_parent": "Opt[GroupQW1]", "__bool__": "Bool"})       # bool(group) == bool(children)
CLASSES["GroupQW1"]["structural_eq"] = True       # HedGroup.__eq__ compares children, not identity
try:
    from contracts.extern_fs import _ulist as _ulist_w1
    EXTERNS["all_tags_w1"] = _ulist_w1("all_tags_w1", 1, "TagQW1")
    EXTERNS["direct_tags_w1"] = _ulist_w1("direct_tags_w1", 1, "TagQW1")
except ImportError:
    pass
contract("C15.all_tags_w1", file=G, func="HedGroup.get_all_tags", params={"self": "GroupQW1"}, returns="List[TagQW1]", enc="native", trusted=True,
         self_class="GroupQW1", ensures={"named": "result == all_tags_w1(self)"},
         assume=["HedGroup.get_all_tags() is some list all_tags_w1(group) of tags (the depth-first order is exercised by the bounded workloads)"])
contract("C15.direct_tags_w1", file=G, func="HedGroup.tags", params={"self": "GroupQW1"}, returns="List[TagQW1]", enc="native", trusted=True,
         self_class="GroupQW1", ensures={"named": "result == direct_tags_w1(self)"},
         assume=["HedGroup.tags() is some list direct_tags_w1(group) of tags"])
PAIRS = "List[Tuple[TagQW1,Opt[GroupQW1]]]"
SEARCHED = "(all_tags_w1(self) if recursive else direct_tags_w1(self))"
QUERY_CALLS = "only the (tag, parent) pair form (include_groups=2, the form the query code asks for) is covered"
contract("C15.find_tags_with_term", file=G, func="HedGroup.find_tags_with_term",
         params={"self": "GroupQW1", "term": "Str", "recursive": "Bool", "include_groups": "Int"}, returns=PAIRS, enc="native",
         self_class="GroupQW1", requires=["include_groups == 2"], ghost={"not_at_call_sites": True},
         locals={"found_tags": PAIRS}, lets={"S": SEARCHED},
         ensures={
             "C15.term.every_tag_with_the_term_on_its_path_is_found":
                 "all(implies(term.casefold() in S[k].tag_terms, any(result[j][0] is S[k] for j in range(len(result)))) for k in range(len(S)))",
             "C15.term.only_such_tags_each_with_its_own_group":
                 "all(is_in(result[j][0], S) and term.casefold() in result[j][0].tag_terms and result[j][1] == result[j][0]._parent for j in range(len(result)))",
             "C15.term.no_tag_twice_unless_listed_twice": "len(result) <= len(S)",
         },
         loops={0: {"invariant": [
             "all(implies(term.casefold() in _iter0[k].tag_terms, any(found_tags[j][0] is _iter0[k] for j in range(len(found_tags)))) for k in range(_n))",
             "all(is_in(found_tags[j][0], _iter0) and term.casefold() in found_tags[j][0].tag_terms and found_tags[j][1] == found_tags[j][0]._parent"
             " for j in range(len(found_tags)))",
             "len(found_tags) <= _n"]}},
         assume=[QUERY_CALLS])

# (HedGroup.find_tags / find_wildcard_tags build their case-folded search set with a set comprehension, which the engine reads as a set of
#  unknown content: the matching rule itself is not reachable.  What IS decided: nothing is invented and every tag found is paired with its
#  own parent group - the pairing HedString.shrink_defs relies on to put the Def tag back where its Def-expand group sat.)
contract("C09.find_tags_pairs_each_tag_with_its_own_group", file=G, func="HedGroup.find_tags",
         params={"self": "GroupQW1", "search_tags": "List[Str]", "recursive": "Bool", "include_groups": "Int"}, returns=PAIRS, enc="native",
         self_class="GroupQW1", requires=["include_groups == 2"], ghost={"not_at_call_sites": True}, locals={"found_tags": PAIRS},
         ensures={"C09.find.only_searched_tags_each_with_its_own_group":
                  "all(is_in(result[j][0], " + SEARCHED + ") and result[j][1] == result[j][0]._parent for j in range(len(result)))",
                  "C09.find.no_more_than_searched": "len(result) <= len(" + SEARCHED + ")"},
         loops={0: {"invariant": ["all(is_in(found_tags[j][0], _iter0) and found_tags[j][1] == found_tags[j][0]._parent for j in range(len(found_tags)))",
                                  "len(found_tags) <= _n"]}},
         assume=[QUERY_CALLS, "the name test (short_base_tag.casefold() in the case-folded search set) is NOT covered: set comprehension outside the encoding"])

# ------------------------------------------------------------------------------------------------ query text -> tokens -> tree
# C15 "any query text either compiles or is rejected with the documented parse error": the token cursor moves one token at a time, never
# past the end (running out of tokens is the documented ValueError), and a look-ahead that does not match consumes nothing
QH = "hed/models/query_handler.py"
class_model("TokenW1", {"kind": "Int", "text": "Str"})
class_model("QueryHandlerW1", {"tokens": "List[TokenW1]", "at_token": "Int"})
contract("C15.get_next_token", file=QH, func="QueryHandler._get_next_token", params={"self": "QueryHandlerW1"}, returns="TokenW1", enc="native",
         self_class="QueryHandlerW1", requires=["self.at_token >= -1"], modifies=["self.at_token"],
         raises={"ValueError": "self.at_token + 1 >= len(self.tokens)"},
         ensures={"C15.cursor.advances_by_one_and_hands_out_that_token": "self.at_token == old(self.at_token) + 1 and result is self.tokens[self.at_token]"})
contract("C15.next_token_is", file=QH, func="QueryHandler._next_token_is", params={"self": "QueryHandlerW1", "kinds": "List[Int]"},
         returns="Opt[TokenW1]", enc="native", self_class="QueryHandlerW1", requires=["self.at_token >= -1"], modifies=["self.at_token"],
         lets={"nxt": "old(self.at_token) + 1", "matches": "old(self.at_token) + 1 < len(self.tokens) and self.tokens[old(self.at_token) + 1].kind in kinds"},
         ensures={
             "C15.lookahead.matching_token_is_consumed": "implies(matches, result is self.tokens[nxt] and self.at_token == nxt)",
             "C15.lookahead.other_token_or_end_consumes_nothing": "implies(not matches, result is None and self.at_token == old(self.at_token))",
         })

# ------------------------------------------------------------------------------------------------ query operators over search results
# (built on the SearchResult model and the proved SearchResult.merge_and_result / has_same_tags contracts of contracts/c15_search.py)
QE = "hed/models/query_expressions.py"
SR = "List[SearchResult]"
# one result g of the left operand and one result o of the right operand can be combined: same group (identity), no tag in common (identity)
COMPAT = "(lambda g, o: g.group is o.group and not any(t is t2 and t is not None for t in g.tags for t2 in o.tags))"
# r is the combination of g and o: their group, the identity-union of their tags, nothing else
COMBINES = ("(lambda r, g, o: r.group is g.group and all_in(g.tags, lambda t: is_in(t, r.tags)) and all_in(o.tags, lambda t: is_in(t, r.tags))"
            " and all_in(r.tags, lambda t: is_in(t, g.tags) or is_in(t, o.tags)))")
FROM_A_PAIR = ("(lambda r, L1, L2: any(any(" + COMPAT + "(L1[i], L2[j]) and " + COMBINES + "(r, L1[i], L2[j]) for j in range(len(L2)))"
               " for i in range(len(L1))))")
try:
    import z3 as _z3q
    from pyvc.vals import INT as _INTq, TList as _TListq, sort_of as _sort_q

    def _snoc_int(interp, args, kwargs):
        """snoc_int_w1(L, x): the list L followed by x (a definition: same data below len(L), x at len(L), length + 1); L itself is not touched"""
        ctx = interp.ctx
        ty = _TListq(_INTq)
        so = _sort_q(ty)
        t = ctx.term(args[0], ty)
        return ctx.wrap(so.mk(_z3q.Store(so.data(t), so.len(t), ctx.term(args[1], _INTq)), so.len(t) + 1), ty)
    EXTERNS["snoc_int_w1"] = _snoc_int
except ImportError:
    pass
# ghost witnesses: wi[m], wj[m] = the positions in groups1 / groups2 of the pair that result m was merged from (recorded where it is appended)
WIT = ("len(wi) == len(return_list) and len(wj) == len(return_list) and all(0 <= wi[m] and wi[m] < len(groups1) and 0 <= wj[m] and wj[m] < len(groups2) and "
       + COMPAT + "(groups1[wi[m]], groups2[wj[m]]) and " + COMBINES + "(return_list[m], groups1[wi[m]], groups2[wj[m]]) for m in range(len(return_list)))")
GH = {"wi": "List[Int]", "wj": "List[Int]"}
DONE_ROWS = "implies(any(any(" + COMPAT + "(groups1[i], groups2[j]) for j in range(len(groups2))) for i in range(_n0)), len(return_list) > 0)"
# C15 "'A && B' ... matches only if both do, via distinct tags": every result of the merge combines one result of each operand that sit in the
# same group and share no tag (its tags are the identity-union of theirs); and whenever such a pair exists the merge is not empty
contract("C15.merge_and_groups", file=QE, func="ExpressionAnd.merge_and_groups", params={"groups1": SR, "groups2": SR}, returns=SR, enc="native",
         locals={"return_list": SR, "dont_add": "Bool", "merged_result": "SearchResult"},
         ghost={"init": {"wi": "[]", "wj": "[]"},
                "update": [("return_list.append(merged_result)", "wi = snoc_int_w1(wi, _n0)"), ("return_list.append(merged_result)", "wj = snoc_int_w1(wj, _n1)")]},
         ensures={
             "C15.and.every_result_combines_a_compatible_pair": "all(" + FROM_A_PAIR + "(result[m], groups1, groups2) for m in range(len(result)))",
             "C15.and.a_compatible_pair_gives_a_match": "implies(any(any(" + COMPAT + "(groups1[i], groups2[j]) for j in range(len(groups2)))"
                                                        " for i in range(len(groups1))), len(result) > 0)",
         },
         loops={
             0: {"invariant": [WIT, DONE_ROWS], "ghost": GH},
             1: {"invariant": [WIT, DONE_ROWS, "implies(any(" + COMPAT + "(groups1[_n0], groups2[j]) for j in range(_n1)), len(return_list) > 0)"], "ghost": GH},
             2: {"invariant": ["not dont_add"]},
         })

# the operands of an operator node: any expression; what it answers for (annotation, exact flag) is named results_w1(expr, group, exact)
class_model("ExprW1", {})
class_model("ExprBinW1", {"left": "ExprW1", "right": "ExprW1"}, bases=["ExpressionAnd"])     # (base: the static merge_and_groups contract is found through it)
OPERAND = ("an operand's handle_expr is a deterministic function results_w1(expression, annotation, exact flag) that alters neither the annotation nor "
           "any earlier result ('repeated searches agree, searching never alters the annotation': bounded workload rt/c15 'search laws'); "
           "exact defaults to False")
try:
    def _results_w1(interp, args, kwargs):
        sv = _ulist_w1("results_w1", 3, "SearchResult")(interp, args, kwargs)
        interp.ctx.assume_type_inv(sv, sv.ty)       # it is a list: length >= 0, its elements are its members, they exist by now
        return sv
    EXTERNS["results_w1"] = _results_w1

    def _operand_handle_expr(interp, args, kwargs):
        """<operand>.handle_expr(hed_group, exact=False): THE list results_w1(operand, hed_group, exact) - the same term the clauses name"""
        exact = kwargs.get("exact", args[2] if len(args) > 2 else False)
        interp.ctx.now = interp.ctx.now + 1       # whatever the operand allocated was allocated no later than now (as for any callee)
        sv = EXTERNS["results_w1"](interp, [args[0], args[1], exact], {})
        return interp.ctx.wrap(sv.t, sv.ty)
    EXTERNS["ExprW1.handle_expr"] = _operand_handle_expr
except NameError:
    pass
OPS = {"L": "results_w1(self.left, hed_group, exact)", "R": "results_w1(self.right, hed_group, exact)"}
# C15 "'A && B' ... matches only if both do, via distinct tags": the node asks BOTH operands about the SAME annotation with the SAME exact flag
# and answers with the merge of their answers (nothing when the left operand has no match)
contract("C15.and_node", file=QE, func="ExpressionAnd.handle_expr", params={"self": "ExprBinW1", "hed_group": "HedGroup", "exact": "Bool"},
         returns=SR, enc="native", self_class="ExprBinW1", lets=OPS, assume=[OPERAND],
         ensures={
             "C15.and.no_match_unless_both_match": "implies(len(L) == 0 or len(R) == 0, len(result) == 0)",
             "C15.and.every_match_combines_one_match_of_each_operand_via_distinct_tags":
                 "all(" + FROM_A_PAIR + "(result[m], L, R) for m in range(len(result)))",
             "C15.and.matches_when_operands_match_compatibly": "implies(any(any(" + COMPAT + "(L[i], R[j]) for j in range(len(R))) for i in range(len(L))),"
                                                               " len(result) > 0)",
         })

# C15 "'A || B' matches iff A or B does": the node asks both operands (same annotation, same exact flag) and answers with every match of B plus
# every match of A that does not repeat a match of B (same group, identical tags) - so it matches exactly when one of them does
SAME = "(lambda g, o: g.group == o.group and len(g.tags) == len(o.tags) and all(g.tags[k] is o.tags[k] for k in range(len(g.tags))))"
class_model("ExprOrW1", {"left": "ExprW1", "right": "ExprW1"})
DUPS_FOUND = "all(implies(any(" + SAME + "(groups1[i], groups2[j]) for j in range(len(groups2))), is_in(groups1[i], duplicates)) for i in range(_n0))"
DUPS_REAL = "all_in(duplicates, lambda d: is_in(d, groups1) and any(" + SAME + "(d, groups2[j]) for j in range(len(groups2))))"
contract("C15.or_node", file=QE, func="ExpressionOr.handle_expr", params={"self": "ExprOrW1", "hed_group": "HedGroup", "exact": "Bool"},
         returns=SR, enc="native", self_class="ExprOrW1", lets=OPS, assume=[OPERAND], locals={"duplicates": SR, "groups1": SR},
         ensures={
             "C15.or.matches_iff_either_operand_matches": "(len(result) > 0) == (len(L) > 0 or len(R) > 0)",
             "C15.or.every_match_of_the_right_operand_kept": "all_in(R, lambda x: is_in(x, result))",
             "C15.or.a_left_match_is_kept_unless_it_repeats_a_right_match":
                 "all_in(L, lambda g: is_in(g, result) or any(" + SAME + "(g, R[j]) for j in range(len(R))))",
             "C15.or.nothing_invented": "all_in(result, lambda x: is_in(x, L) or is_in(x, R))",
         },
         loops={0: {"invariant": [DUPS_REAL, DUPS_FOUND]},
                1: {"invariant": [DUPS_REAL, DUPS_FOUND,
                                  "implies(any(" + SAME + "(groups1[_n0], groups2[j]) for j in range(_n1)), is_in(groups1[_n0], duplicates))"]}})

# (ExpressionNegation.handle_expr builds its answer with `[SearchResult(group, []) for group in ... if ...]`: an object allocation inside a symbolic
#  comprehension is ONE fresh reference for every position in the encoding - not stated, left to the bounded workload rt/c15.)

# C15 "`{}` exact groups": of the candidate results only those are exact whose matched children are ALL the children of their group - as many
# matched as the group has - each kept once, in order, nothing else
class_model("NodeXW1", {})
class_model("GroupXW1", {"children": "List[NodeXW1]"}, bases=["HedGroup"])
class_model("SearchResultXW1", {"group": "GroupXW1"}, bases=["SearchResult"])
SRX = "List[SearchResultXW1]"
EXACT = "(lambda r: len(r.group.children) == len(r.tags))"
contract("C15.filter_exact_matches", file=QE, func="ExpressionExactMatch._filter_exact_matches", params={"search_results": SRX}, returns=SRX,
         enc="native", locals={"filtered_list": SRX},
         ensures={
             "C15.exact.every_fully_matched_group_kept": "all_in(search_results, lambda r: implies(" + EXACT + "(r), is_in(r, result)))",
             "C15.exact.only_fully_matched_candidates": "all_in(result, lambda r: is_in(r, search_results) and " + EXACT + "(r))",
             "C15.exact.none_repeated": "len(result) <= len(search_results)",
         },
         loops={0: {"invariant": [
             "all(implies(" + EXACT + "(search_results[k]), is_in(search_results[k], filtered_list)) for k in range(_n))",
             "all_in(filtered_list, lambda r: is_in(r, search_results) and " + EXACT + "(r))",
             "len(filtered_list) <= _n"]}})

# C09 "content with '#' replaced by v": the tag that receives the value is the FIRST tag of the content (any depth) that carries a placeholder;
# a content without one has none
try:
    EXTERNS["TagQW1.is_placeholder"] = EXTERNS["is_placeholder_w1"] = lambda interp, args, kwargs: _SVw1(_BOOLw1, _z3w1.Function("is_placeholder_w1", _z3w1.IntSort(), _z3w1.BoolSort())(_ref_of(args[0])))
except NameError:
    pass
contract("C09.find_placeholder_tag", file=G, func="HedGroup.find_placeholder_tag", params={"self": "GroupQW1"}, returns="Opt[TagQW1]", enc="native",
         self_class="GroupQW1", lets={"S": "all_tags_w1(self)"},
         ensures={
             "C09.placeholder_tag.none_iff_no_tag_has_one": "(result is None) == (not any(is_placeholder_w1(S[k]) for k in range(len(S))))",
             "C09.placeholder_tag.is_the_first_such_tag": "implies(result is not None, any(result is S[k] and is_placeholder_w1(S[k])"
                                                          " and not any(is_placeholder_w1(S[j]) for j in range(k)) for k in range(len(S))))",
         },
         loops={0: {"invariant": ["not any(is_placeholder_w1(_iter0[k]) for k in range(_n))"]}},
         assume=["HedTag.is_placeholder is a pure predicate of the tag (its rule: C09.tag_is_placeholder)"])

# C12/C07 "true locations": membership in the original tree is decided by IDENTITY of the node, not by equal content
contract("C04.check_in_group_by_identity", file=G, func="HedGroup._check_in_group", params={"group": "GroupQW1", "group_list": "List[GroupQW1]"},
         returns="Bool", enc="native", self_class="GroupQW1",
         ensures={"C04.in_group.iff_the_same_object_is_listed": "result == any(group_list[k] is group for k in range(len(group_list)))"},
         loops={0: {"invariant": ["not any(group_list[k] is group for k in range(_n))"]}})

# ------------------------------------------------------------------------------------------------ HedGroup / HedString: tree surgery
# C09 "Expanding an annotation replaces every Def/Name[/v] by (Def-expand/Name[/v], content ...) and nothing else": replacing a child puts the new
# node at the position of that very child (identity), re-parents it to this group, leaves every other child and the remembered original
# children alone, and refuses (KeyError) a node that is not a child
class_model("NodeRW1", {"_parent": "Opt[GroupRW1]"})
class_model("GroupRW1", {"children": "List[NodeRW1]", "_original_children": "List[NodeRW1]"}, bases=["NodeRW1"])
for _c in ("NodeRW1", "GroupRW1"):
    CLASSES[_c]["structural_eq"] = True       # HedTag.__eq__ / HedGroup.__eq__ compare content, not identity
UNCHANGED = "len(self.children) == len(old(self.children)) and all(self.children[k] is old(self.children)[k] for k in range(len(self.children)))"
contract("C09.group_replace_child", file=G, func="HedGroup._replace",
         params={"self": "GroupRW1", "item_to_replace": "NodeRW1", "new_contents": "NodeRW1"}, returns=None, enc="native", self_class="GroupRW1",
         modifies=["heap:GroupRW1.children", "new_contents._parent"],
         raises={"KeyError": "not any(self.children[k] is item_to_replace for k in range(len(self.children)))"},
         ensures={
             "C09.replace.new_node_takes_the_place_of_that_very_child":
                 "len(self.children) == len(old(self.children)) and any(old(self.children)[k] is item_to_replace"
                 " and not any(old(self.children)[j] is item_to_replace for j in range(k)) and self.children[k] is new_contents"
                 " and all(implies(j != k, self.children[j] is old(self.children)[j]) for j in range(len(self.children)))"
                 " for k in range(len(self.children)))",
             "C09.replace.new_node_is_reparented": "new_contents._parent is self",
             "C09.replace.original_children_remembered_unchanged": "len(self._original_children) == len(old(self._original_children)) and"
                 " all(self._original_children[k] is old(self._original_children)[k] for k in range(len(self._original_children)))",
         },
         loops={0: {"invariant": [UNCHANGED, "not any(self.children[k] is item_to_replace for k in range(_n))"]}},
         assume=["frame of the children lists of OTHER groups is not proved (the loop cut forgets the whole children field; `modifies` therefore lists it whole)",
                 "at entry children and _original_children are two list objects (the state after an earlier edit); the first-edit state, in which "
                 "the shared list is copied before the edit, is outside the encoding (two fields holding ONE list cannot be expressed)"])

# C09 "shrinking an expanded annotation restores the original": every Def-expand tag found (at any depth) whose group sits in a parent is
# switched back to Def, flagged as not expanded, and put - re-parented - in the place of ITS OWN Def-expand group in that group's parent
S = "hed/models/hed_string.py"
class_model("TagSW1", {"_expanded": "Bool"}, bases=["TagQW1"])
class_model("HedStringSW1", {}, bases=["GroupQW1"])
SPAIRS = "List[Tuple[TagSW1,GroupQW1]]"
try:
    EXTERNS["def_expand_pairs_w1"] = lambda interp, args, kwargs: interp.ctx.wrap(_z3w1.Function(
        "def_expand_pairs_w1", _z3w1.IntSort(), _sortw1(interp.ptype(SPAIRS)))(_ref_of(args[0])), interp.ptype(SPAIRS)).sym
except NameError:
    pass
contract("C09.def_expand_pairs_w1", file=G, func="HedGroup.find_tags",
         params={"self": "HedStringSW1", "search_tags": "Set[Str]", "recursive": "Bool", "include_groups": "Int"}, returns=SPAIRS, enc="native",
         trusted=True, self_class="HedStringSW1",
         ghost={"sets": {"searched_def_expand_at_any_depth": "forall_str(lambda k: (k in search_tags) == (k == 'Def-expand')) and recursive and include_groups == 2"}},
         ensures={"named": "result == def_expand_pairs_w1(self)",
                  "own_group": "all(result[j][1] == result[j][0]._parent for j in range(len(result)))"},
         assume=["find_tags(names, recursive, 2) is some list of (tag, group) pairs, each tag paired with its own parent group "
                 "(proved: C09.find_tags_pairs_each_tag_with_its_own_group; a tag of an annotation always has one - the annotation itself at top level); that the tags found are exactly the Def-expand tags is bounded (rt/c09)"])
contract("C09.replace_in_parent_w1", file=G, func="HedGroup.replace", params={"item_to_replace": "GroupQW1", "new_contents": "TagSW1"}, returns=None,
         enc="native", trusted=True, self_class="GroupQW1", modifies=["new_contents._parent"],
         requires=["item_to_replace._parent is not None"],
         ghost={"sets": {"replaced_item": "item_to_replace", "replaced_by": "new_contents", "n_replaced": "n_replaced + 1"}},
         ensures={"reparented": "new_contents._parent == item_to_replace._parent"},
         assume=["HedGroup.replace(item, new) = item._parent._replace(item, new) (its rule: C09.group_replace_child): the new node gets the parent of "
                 "the replaced one; the children lists it edits are not part of this model"])
contract("C09.shrink_defs", file=S, func="HedString.shrink_defs", params={"self": "HedStringSW1"}, returns="HedStringSW1", enc="native",
         self_class="HedStringSW1", unwind="havoc",
         locals={"def_expand_tag": "TagSW1", "def_expand_group": "GroupQW1", "expanded_parent": "Opt[GroupQW1]"},
         modifies=["heap:TagQW1.short_base_tag", "heap:TagSW1._expanded", "heap:TagQW1._parent", "heap:GroupQW1._parent"],
         ghost={"init": {"searched_def_expand_at_any_depth": "False", "n_replaced": "0", "checked": "0", "armed": "0", "shrunk_ok": "True", "replaced_item": "self", "replaced_by": "self"},
                "update": [("expanded_parent.replace(def_expand_group, def_expand_tag)",
                            "shrunk_ok = shrunk_ok and replaced_item is def_expand_group and replaced_by is def_expand_tag"
                            " and def_expand_tag.short_base_tag == 'Def' and not def_expand_tag._expanded"
                            " and def_expand_tag._parent == def_expand_group._parent"),
                           ("expanded_parent.replace(def_expand_group, def_expand_tag)", "checked = checked + 1"),
                           ("def_expand_tag._parent = expanded_parent", "armed = armed + 1")]},     # (every tag taken up is also put in place)
         ensures={
             "C09.shrink.looks_for_def_expand_tags_at_any_depth": "searched_def_expand_at_any_depth",
             "C09.shrink.tag_switched_to_def_and_put_in_place_of_its_own_group": "shrunk_ok and checked == n_replaced and armed == n_replaced",
             "C09.shrink.hands_back_the_same_annotation": "result is self",
         },
         assume=["the loop is explored as one arbitrary iteration from a havocked state (the clause is about each Def-expand tag separately); "
                 "that exploration forgets every _parent field, so the frame of the groups' _parent (never written by the code) is not proved",
                 "the short_base_tag setter is read as a plain store of the new name (its rule: C09.base_tag_switch_keeps_the_namespace)"])

# C09 "Expanding an annotation replaces every Def/Name[/v] by (Def-expand/Name[/v], content ...) and nothing else, expanding twice equals expanding
# once": only Def tags (any depth) that HAVE an expansion and are NOT already expanded are queued, each with its own expansion; each queued tag is
# replaced in its parent by its expansion group, moves inside that group, is switched to Def-expand and flagged expanded
class_model("GroupEW1", {"_parent": "Opt[GroupEW1]", "__bool__": "Bool"})
class_model("TagEW1", {"_parent": "GroupEW1", "expandable": "Opt[GroupEW1]", "expanded": "Bool", "_expanded": "Bool", "short_base_tag": "Str"})
class_model("HedStringEW1", {}, bases=["GroupEW1"])
try:
    def _def_tags_w1(interp, args, kwargs):
        sv = _ulist_w1("def_tags_w1", 1, "TagEW1")(interp, args, kwargs)
        interp.ctx.assume_type_inv(sv, sv.ty)
        return sv
    EXTERNS["def_tags_w1"] = _def_tags_w1
except NameError:
    pass
contract("C09.def_tags_w1", file=G, func="HedGroup.find_def_tags", params={"self": "HedStringEW1", "recursive": "Bool", "include_groups": "Int"},
         returns="List[TagEW1]", enc="native", trusted=True, self_class="HedStringEW1",
         ghost={"sets": {"asked_for_def_tags_at_any_depth": "recursive and include_groups == 0"}},
         ensures={"named": "result == def_tags_w1(self)"},
         assume=["find_def_tags(recursive=True, include_groups=0) is some list def_tags_w1(annotation) of tags (which tags: bounded workload rt/c09)"])
contract("C09.replace_tag_by_group_w1", file=G, func="HedGroup.replace", params={"item_to_replace": "TagEW1", "new_contents": "GroupEW1"}, returns=None,
         enc="native", trusted=True, self_class="GroupEW1", modifies=["new_contents._parent"],
         ghost={"sets": {"replaced_item": "item_to_replace", "replaced_by": "new_contents", "n_replaced": "n_replaced + 1"}},
         ensures={"reparented": "new_contents._parent == item_to_replace._parent"},
         assume=["HedGroup.replace(item, new) = item._parent._replace(item, new) (its rule: C09.group_replace_child): the new node gets the parent of "
                 "the replaced one; the children lists it edits are not part of this model"])
QUEUE = "List[Tuple[TagEW1,GroupEW1]]"
contract("C09.expand_defs", file=S, func="HedString.expand_defs", params={"self": "HedStringEW1"}, returns="HedStringEW1", enc="native",
         self_class="HedStringEW1", unwind="havoc",
         locals={"replacements": QUEUE, "tag": "TagEW1", "group": "GroupEW1", "tag_parent": "GroupEW1", "def_tags": "List[TagEW1]"},
         modifies=["heap:TagEW1.short_base_tag", "heap:TagEW1._expanded", "heap:TagEW1._parent", "heap:GroupEW1._parent"],
         ghost={"init": {"asked_for_def_tags_at_any_depth": "False", "n_replaced": "0", "checked": "0", "armed": "0", "expanded_ok": "True", "replaced_item": "self", "replaced_by": "self"},
                "update": [("tag._expanded = True",
                            "expanded_ok = expanded_ok and replaced_item is tag and replaced_by is group and group == tag.expandable"
                            " and not tag.expanded and group._parent == tag_parent and tag._parent == group"
                            " and tag.short_base_tag == 'Def-expand' and tag._expanded"),
                           ("tag._expanded = True", "checked = checked + 1"),
                           ("tag_parent = tag._parent", "armed = armed + 1")]},     # (every queued tag taken up is replaced, and then checked)
         ensures={
             "C09.expand.looks_for_def_tags_at_any_depth": "asked_for_def_tags_at_any_depth",
             "C09.expand.unexpanded_tag_replaced_by_its_own_expansion_and_moved_inside": "expanded_ok and checked == n_replaced and armed == n_replaced",
             "C09.expand.hands_back_the_same_annotation": "result is self",
         },
         loops={0: {"invariant": [
             "all(replacements[m][1] == replacements[m][0].expandable and not replacements[m][0].expanded"
             " and is_in(replacements[m][0], def_tags) for m in range(len(replacements)))",
             "all(implies(_iter0[k].expandable is not None and _iter0[k].expandable.__bool__ and not _iter0[k].expanded,"
             " any(replacements[m][0] is _iter0[k] for m in range(len(replacements)))) for k in range(_n))"]}},
         assume=["the second loop is explored as one arbitrary iteration from a havocked state (the clause is about each queued tag separately); "
                 "that exploration forgets every _parent field, so the frame of the _parent of nodes the code never writes is not proved",
                 "a Def tag of an annotation has a parent group (the annotation itself at top level)",
                 "HedTag.expandable / expanded are read as fields (the cached expansion and its flag; rule of the getter: C09.tag_expandable); "
                 "the short_base_tag setter is read as a plain store of the new name (its rule: C09.base_tag_switch_keeps_the_namespace)"])

# C09 "under arbitrary interleavings of expand, shrink, copy and validate on the same object": a copy of an annotation is a NEW object (handed
# out once per copy operation: asked again within the same operation, the same copy comes back), registered before its content is copied
# (so that parent pointers inside the content meet the copy, not the original)
class_model("ListObjW1", {})      # a python list seen as an object with identity (what copy.deepcopy and `is` see of it)
class_model("HedStringRawW1", {"children": "ListObjW1", "_original_children": "ListObjW1", "_from_strings": "Opt[ListObjW1]", "_schema": "Opaque",
                               "_hed_string": "Str", "_startpos": "Int", "_endpos": "Int"})
contract("C09.string_deepcopy", file=S, func="HedString.__deepcopy__", params={"self": "HedStringRawW1", "memo": "Map[Int,HedStringRawW1]"},
         returns="HedStringRawW1", enc="native", self_class="HedStringRawW1", modifies=["memo"],
         ensures={
             "C09.copy.string_copy_is_a_new_object": "implies(id(self) not in old(memo), fresh(result) and result is not self)",
             "C09.copy.string_copy_memoised": "implies(id(self) in old(memo), result is old(memo)[id(self)])",
             "C09.copy.string_copy_registered_in_memo": "implies(id(self) not in old(memo), id(self) in memo and memo[id(self)] is result)",
             "C09.copy.string_text_and_span_kept": "implies(id(self) not in old(memo), result._hed_string == self._hed_string"
                                                   " and result._startpos == self._startpos and result._endpos == self._endpos)",
             "C09.copy.children_list_not_shared": "implies(id(self) not in old(memo) and id(self.children) not in old(memo)"
                                                  " and id(self.children) != id(self), fresh(result.children))",
             "C09.copy.original_children_list_not_shared": "implies(id(self) not in old(memo) and id(self._original_children) not in old(memo)"
                                                           " and id(self._original_children) != id(self), fresh(result._original_children))",
             "C09.copy.source_strings_list_not_shared": "implies(id(self) not in old(memo), (result._from_strings is None) == (self._from_strings is None)"
                                                        " and implies(self._from_strings is not None and id(self._from_strings) not in old(memo)"
                                                        " and id(self._from_strings) != id(self), fresh(result._from_strings)))",
             "C09.copy.original_keeps_its_lists": "self.children is old(self.children) and self._original_children is old(self._original_children)",
         },
         assume=["a python list is modelled as an object with identity (ListObjW1): copy.deepcopy of it is the memo entry or an object allocated by "
                 "the call; that the new lists hold new nodes (element-wise copy) is bounded only (rt/c09 'copyops')"])
contract("C09.string_copy", file=S, func="HedString.copy", params={"self": "HedStringRawW1"}, returns="HedStringRawW1", enc="native",
         self_class="HedStringRawW1",
         ensures={"C09.copy.string_copy_is_new": "fresh(result) and result is not self"},
         assume=["copy.deepcopy modelled as an allocation (the copied content is exercised by the bounded workload)"])

# C02 "each tag's original text is exactly the source slice at its reported span" (and C12 "points at the offending text"): the span reported for
# a node is its own span when the node belongs to the text as parsed, the span shifted into the joined text when the annotation was assembled
# from several strings, and absent (None, None) for a node that was put in later (an expansion) - never a span of some other text
contract("C02.get_org_span", file=S, func="HedString._get_org_span", params={"self": "HedString", "tag_or_group": "HedTag"},
         returns="Tuple[Opt[Int],Opt[Int]]", enc="native",
         lets={"L": "self._from_strings", "t": "tag_or_group"},
         ensures={
             "C02.span.own_span_when_in_the_parsed_text": "implies(len(L) == 0 and in_original(self, t), result[0] == t.span[0] and result[1] == t.span[1])",
             "C02.span.absent_for_a_node_added_later": "implies(len(L) == 0 and not in_original(self, t), result[0] is None and result[1] is None)",
             "C02.span.assembled_annotation_absent_when_in_no_part": "implies(len(L) > 0 and all(not in_original(L[k], t) for k in range(len(L))),"
                                                                     " result[0] is None and result[1] is None)",
             "C02.span.assembled_annotation_shifted_into_the_joined_text":
                 "implies(len(L) > 0, all(implies(in_original(L[j], t) and all(not in_original(L[k], t) for k in range(j)),"
                 " result[0] == t.span[0] + joined_offset(L, j) and result[1] == t.span[1] + joined_offset(L, j)) for j in range(len(L))))",
         },
         assume=["HedGroup.check_if_in_original is a pure predicate (in_original); an annotation not assembled from strings has an empty / absent "
                 "_from_strings (modelled as the empty list)"])

# ------------------------------------------------------------------------------------------------ iteration independence (pyvc/dataflow.py)
# C15 "the match result is unchanged by reordering siblings in the annotation" / C04 "sibling order": the loops that examine tags, groups or
# candidate results one by one treat each item on its own - no value computed for one item reaches a later one, the accumulator is only
# extended, no item is skipped by a break of the outer loop.  (Covers the searches whose matching rule the solver side cannot reach.)
IND = {"dataflow_only": True, "no_frame": True}
for _cid, _prop, _also, _file, _fn, _loops in [
    ("C15.exact_tag_search_each_tag_on_its_own", "C15", [], G, "HedGroup.find_exact_tags", {0: ["found_tags"]}),
    ("C15.wildcard_search_each_tag_on_its_own", "C15", [], G, "HedGroup.find_wildcard_tags", {0: ["found_tags"]}),
    ("C15.name_search_each_tag_on_its_own", "C15", ["C09"], G, "HedGroup.find_tags", {0: ["found_tags"]}),
    ("C15.term_search_each_tag_on_its_own", "C15", [], G, "HedGroup.find_tags_with_term", {0: ["found_tags"]}),
    ("C15.parent_groups_each_result_on_its_own", "C15", [], QE, "Expression._get_parent_groups", {0: ["found_parent_groups"]}),
    ("C15.exact_filter_each_result_on_its_own", "C15", [], QE, "ExpressionExactMatch._filter_exact_matches", {0: ["filtered_list"]}),
    ("C04.canonical_forms_each_tag_on_its_own", "C04", ["C02"], S, "HedString._calculate_to_canonical_forms", {0: ["validation_issues"]}),
    ("C09.expansion_queue_each_def_tag_on_its_own", "C09", [], S, "HedString.expand_defs", {0: ["replacements"]}),
]:
    contract(_cid, file=_file, func=_fn, params={}, returns="Opaque", enc="native", prop=_prop, also=_also,
             ghost=dict(IND, independent_iterations=_loops), ensures={})
