"""Contracts written by w8 (second pass over C03, C05, C11, C13, C14, C19): functions of the schema package that had no contract."""
from pyvc.contract import contract, class_model, EXTERNS, CLASSES
try:
    import z3
    from pyvc.vals import SV, Cell, Opaque, Unsupported, INT, BOOL, REAL, STR, TRef, TOpt, TList, sort_of
except ImportError:
    z3 = None

SEC = "hed/schema/hed_schema_section.py"
HE = "hed/schema/hed_schema_entry.py"
HS = "hed/schema/hed_schema.py"

# ----------------------------------------------------------------------------------------------------------------------------------
# C14 "a duplicated node name ... is reported": the load-time bookkeeping of the three specialised sections.  Each of them ends in
# `super()._check_if_duplicate(...)`; the parent's rule is proved once more on a model class of its own (so that it can serve at those call
# sites) and `super()` inside a method of a specialised section denotes `self` seen as the parent class.
class_model("SectionBaseW8", {"all_names": "Map[Str,EntryN]", "_duplicate_names": "Map[Str,List[EntryN]]", "case_sensitive": "Bool"})
class_model("UnitClassSectionW8", {}, bases=["SectionBaseW8"])
class_model("UnitSectionW8", {}, bases=["SectionBaseW8"])
if z3 is not None:
    def _super_w8(interp, args, kwargs):
        """super() (no arguments) inside a method whose contract declares ghost {"super_is": <model class>}: the receiver `self` seen as its
        (single) parent class; everywhere else the engine's own rule (an unknown object)"""
        top = interp.frames[0].contract if interp.frames and hasattr(interp.frames[0], "contract") else None
        base = top.ghost.get("super_is") if top is not None else None
        me = interp.ctx.entry_env.get("self") if hasattr(interp.ctx, "entry_env") else None
        if base is None or args or len(interp.frames) != 1 or not isinstance(me, SV) or me.ty.name != "Ref":
            return interp.opaque_call("super", args, kwargs)
        return SV(TRef(base), me.t)
    EXTERNS["super"] = _super_w8

    def _len_w8(interp, args, kwargs):
        """len(d) of a dict of symbolic content: the number of keys - an uninterpreted, non-negative function of the key set (at least one
        when some key is known to be present is NOT stated); every other argument goes to the engine's own rule"""
        a = args[0] if args else None
        if isinstance(a, SV) and a.ty.name == "Map":
            a = interp.ctx.wrap(a.t, a.ty)
        if len(args) == 1 and isinstance(a, Cell) and a.kind == "dict" and a.sym is not None and not getattr(a, "unknown", False):
            so = sort_of(a.sym.ty)
            f = z3.Function("key_count_" + a.sym.ty.key, so.dom(a.sym.t).sort(), z3.IntSort())
            n = f(so.dom(a.sym.t))
            interp.ctx.assume(n >= 0)
            return SV(INT, n)
        del EXTERNS["len"]
        try:
            return interp.call_builtin("len", args, kwargs, None)
        finally:
            EXTERNS["len"] = _len_w8
    if "len" not in EXTERNS:
        EXTERNS["len"] = _len_w8
    # a section class without __contains__: `k in section` iterates the section (__iter__ is iter(self.all_names)) - membership among the keys
    _in_all_names = lambda interp, args, kwargs: SV(BOOL, interp.ctx.zbool(interp.contains(interp.field_read(args[0], "all_names"), args[1])))
    EXTERNS["UnitClassSectionW8.__contains__"] = _in_all_names

DUP_ENS = {
    "C14.dup.entry_is_returned": "result is new_entry",
    "C14.dup.new_name_is_entered": "implies(not taken, name_key in self.all_names and self.all_names[name_key] is new_entry)",
    "C14.dup.new_name_is_no_duplicate": "implies(not taken, self._duplicate_names == old(self._duplicate_names))",
    "C14.dup.other_names_untouched": "forall_str(lambda p: implies(p != name_key, (p in self.all_names) == (p in old(self.all_names))"
                                     " and implies(p in self.all_names, self.all_names[p] is old(self.all_names)[p])))",
    "C14.dup.taken_name_keeps_its_first_holder": "implies(taken, name_key in self.all_names and self.all_names[name_key] is old(self.all_names)[name_key]"
                                                 " and self.all_names == old(self.all_names))",
    "C14.dup.first_clash_records_the_first_holder_too":
        "implies(taken and name_key not in old(self._duplicate_names), name_key in self._duplicate_names and len(self._duplicate_names[name_key]) == 2"
        " and self._duplicate_names[name_key][0] is old(self.all_names)[name_key] and self._duplicate_names[name_key][1] is new_entry)",
    "C14.dup.later_clash_appends_the_newcomer_and_keeps_earlier_records":
        "implies(taken and name_key in old(self._duplicate_names) and len(old(self._duplicate_names)[name_key]) >= 0,"
        " name_key in self._duplicate_names and self._duplicate_names[name_key][len(old(self._duplicate_names)[name_key])] is new_entry"
        " and len(self._duplicate_names[name_key]) == len(old(self._duplicate_names)[name_key]) + 1"
        " and all(self._duplicate_names[name_key][k] is old(self._duplicate_names)[name_key][k] for k in range(len(old(self._duplicate_names)[name_key]))))",
    "C14.dup.records_of_other_names_untouched":
        "forall_str(lambda p: implies(p != name_key, (p in self._duplicate_names) == (p in old(self._duplicate_names))))",
}
contract("C14.parent_section_duplicate_rule", file=SEC, func="HedSchemaSection._check_if_duplicate",
         params={"self": "SectionBaseW8", "name_key": "Str", "new_entry": "EntryN"}, returns="EntryN", enc="native", self_class="SectionBaseW8",
         fresh_result=False, modifies=["self.all_names", "self._duplicate_names"],
         lets={"taken": "name_key in old(self.all_names)"}, ensures=dict(DUP_ENS))

# C14 (fixed finding): a second definition of a unit class is a duplicate; ONLY the documented library placeholder - a definition whose single
# attribute is inLibrary - is folded into the class that exists (the existing class is handed back and nothing is recorded)
PLACEHOLDER = "(name_key in old(self.all_names) and len(new_entry.attributes) == 1 and 'inLibrary' in new_entry.attributes)"
contract("C14.unit_class_second_definition_is_a_duplicate_unless_library_placeholder", file=SEC, func="HedSchemaUnitClassSection._check_if_duplicate",
         params={"self": "UnitClassSectionW8", "name_key": "Str", "new_entry": "EntryN"}, returns="EntryN", enc="native",
         self_class="UnitClassSectionW8", fresh_result=False, ghost={"super_is": "SectionBaseW8"},
         modifies=["self.all_names", "self._duplicate_names"],
         lets={"taken": "name_key in old(self.all_names)", "ph": PLACEHOLDER},
         ensures={
             "C14.unitclass.placeholder_is_folded_into_the_existing_class":
                 "implies(ph, result is old(self.all_names)[name_key] and self.all_names == old(self.all_names)"
                 " and self._duplicate_names == old(self._duplicate_names))",
             "C14.unitclass.any_other_second_definition_is_recorded_with_first_holder_and_newcomer":
                 "implies(taken and not ph and name_key not in old(self._duplicate_names), result is new_entry and name_key in self._duplicate_names"
                 " and len(self._duplicate_names[name_key]) == 2 and self._duplicate_names[name_key][0] is old(self.all_names)[name_key]"
                 " and self._duplicate_names[name_key][1] is new_entry and self.all_names[name_key] is old(self.all_names)[name_key])",
             "C14.unitclass.a_later_second_definition_is_appended_to_the_record":
                 "implies(taken and not ph and name_key in old(self._duplicate_names) and len(old(self._duplicate_names)[name_key]) >= 0,"
                 " result is new_entry and name_key in self._duplicate_names"
                 " and len(self._duplicate_names[name_key]) == len(old(self._duplicate_names)[name_key]) + 1"
                 " and self._duplicate_names[name_key][len(old(self._duplicate_names)[name_key])] is new_entry"
                 " and self.all_names[name_key] is old(self.all_names)[name_key])",
             "C14.unitclass.new_name_is_entered_and_no_duplicate":
                 "implies(not taken, result is new_entry and name_key in self.all_names and self.all_names[name_key] is new_entry"
                 " and self._duplicate_names == old(self._duplicate_names))",
             "C14.unitclass.other_names_untouched":
                 "forall_str(lambda p: implies(p != name_key, (p in self.all_names) == (p in old(self.all_names))"
                 " and implies(p in self.all_names, self.all_names[p] is old(self.all_names)[p])"
                 " and (p in self._duplicate_names) == (p in old(self._duplicate_names))))",
         },
         assume=["`name_key in self` for a section class without __contains__ is membership among the keys of all_names (iteration protocol: __iter__)",
                 "super() in a method of the leaf class HedSchemaUnitClassSection is self seen as HedSchemaSection (single inheritance)"])

# C14 "a duplicated node name ... is reported" / C11 "a unit name in any letter case, or a unit symbol exactly as declared": a unit is filed
# under its name as written when it is a symbol and under the case-folded name otherwise; a second unit whose (conventional) key is taken is
# recorded as a duplicate together with the first holder, the table keeps the first holder, the newcomer is handed back
if z3 is not None:
    EXTERNS["EntryN.has_attribute"] = EXTERNS.get("EntryN.has_attribute") or __import__("contracts.extern_fs", fromlist=["_entry_has_attribute"])._entry_has_attribute
UKEY = "(name_key if 'unitSymbol' in new_entry.attributes else name_key.casefold())"
contract("C14.unit_filed_under_symbol_as_written_or_folded_name_and_clash_recorded", file=SEC, func="HedSchemaUnitSection._check_if_duplicate",
         params={"self": "UnitSectionW8", "name_key": "Str", "new_entry": "EntryN"}, returns="EntryN", enc="native", also=["C11"],
         self_class="UnitSectionW8", fresh_result=False, ghost={"super_is": "SectionBaseW8"},
         modifies=["self.all_names", "self._duplicate_names"],
         lets={"k": UKEY, "taken": UKEY + " in old(self.all_names)"},
         ensures={
             "C14.unit.newcomer_is_handed_back": "result is new_entry",
             "C14.unit.first_clash_under_the_conventional_key_records_first_holder_and_newcomer":
                 "implies(taken and k not in old(self._duplicate_names), k in self._duplicate_names and len(self._duplicate_names[k]) == 2"
                 " and self._duplicate_names[k][0] is old(self.all_names)[k] and self._duplicate_names[k][1] is new_entry)",
             "C14.unit.later_clash_is_appended": 
                 "implies(taken and k in old(self._duplicate_names) and len(old(self._duplicate_names)[k]) >= 0, k in self._duplicate_names"
                 " and len(self._duplicate_names[k]) == len(old(self._duplicate_names)[k]) + 1"
                 " and self._duplicate_names[k][len(old(self._duplicate_names)[k])] is new_entry)",
             "C14.unit.clash_leaves_the_table_as_it_is":
                 "implies(taken, self.all_names == old(self.all_names))",
             "C14.unit.clash_touches_no_other_record":
                 "forall_str(lambda p: implies(taken and p != k, (p in self._duplicate_names) == (p in old(self._duplicate_names))))",
             "C11.unit.never_filed_under_another_letter_case_of_a_symbol":
                 "implies('unitSymbol' in new_entry.attributes and name_key.casefold() != name_key and name_key.casefold() not in old(self.all_names)"
                 " and taken, name_key.casefold() not in self.all_names)",
         },
         assume=["left out: a unit whose conventional key is free - the key is then chosen by `next(<generator over the table>, key)` (an entry of the same "
                 "name stored under the other convention), which the executor does not model: for that case only the frame and the result are proved",
                 "super() in a method of the leaf class HedSchemaUnitSection is self seen as HedSchemaSection (single inheritance)"])

# C03 "the short form, every partial path ending in it, and the full path, in any letter case ... are identified as the same schema node" /
# C14 "a duplicated node name ... is reported": registering a node whose short name (in any letter case) is free files the node under its name
# and EVERY form _get_tag_forms lists, case-folded, and touches no other form; a node whose short name is taken changes neither table and is
# recorded as a duplicate under its short name together with the first holder
FOLDK = "(gk if self.case_sensitive else gk.casefold())"
# (the lookups of the tag section are proved once more on a model class without an unmodelled base: loops over TagSectionW4 cannot be havocked)
class_model("TagSectionW8", {"long_form_tags": "Map[Str,EntryN]", "all_names": "Map[Str,EntryN]", "case_sensitive": "Bool",
                             "_duplicate_names": "Map[Str,List[EntryN]]"})
if z3 is not None:
    from pyvc import contract as _C8
    # the static method _get_tag_forms called on a TagSectionW8: its registered contract (C03.get_tag_forms, declared on the real class name)
    EXTERNS["TagSectionW8._get_tag_forms"] = lambda interp, args, kwargs: interp.apply_contract(_C8.CONTRACTS["C03.get_tag_forms"], None, list(args[1:]), kwargs)
contract("C03.tag_section_get_in_any_case_w8", file=SEC, func="HedSchemaTagSection.get",
         params={"self": "TagSectionW8", "key": "Str"}, returns="Opt[EntryN]", enc="native", self_class="TagSectionW8", fresh_result=False,
         lets={"k2": "key if self.case_sensitive else key.casefold()"},
         ensures={"C03.tagsection.form_found_under_its_folded_key": "implies(k2 in self.long_form_tags, result == self.long_form_tags[k2])",
                  "C03.tagsection.unknown_form_is_none": "implies(k2 not in self.long_form_tags, result is None)"})
contract("C03.tag_section_contains_in_any_case_w8", file=SEC, func="HedSchemaTagSection.__contains__",
         params={"self": "TagSectionW8", "key": "Str"}, returns="Bool", enc="native", self_class="TagSectionW8",
         ensures={"C03.tagsection.contains_iff_folded_form_registered": "result == ((key if self.case_sensitive else key.casefold()) in self.long_form_tags)"})
contract("C14.tag_short_name_clash_recorded_else_every_form_registered", file=SEC, func="HedSchemaTagSection._check_if_duplicate",
         params={"self": "TagSectionW8", "name": "Str", "new_entry": "EntryN"}, returns="EntryN", enc="native", self_class="TagSectionW8", also=["C03"],
         fresh_result=False, requires=["len(name) > 0"], locals={"tag_forms": "List[Str]"},
         modifies=["self.all_names", "self._duplicate_names", "heap:TagSectionW8.long_form_tags"],   # (the loop's havoc is per field, not per object)
         ghost={"init": {"gk": "''", "gforms": "[]"},
                "update": [("name_key, tag_forms = self._get_tag_forms(name)", "gk = name_key"),
                           ("name_key, tag_forms = self._get_tag_forms(name)", "gforms = tag_forms")]},
         lets={"taken": FOLDK + " in old(self.long_form_tags)"},
         ensures={
             "C14.tag.key_judged_is_the_short_name": "'/' not in gk and name.endswith(gk) and (len(gk) == len(name) or name[len(name) - len(gk) - 1] == '/')",
             "C14.tag.newcomer_is_handed_back": "result is new_entry",
             "C14.tag.clash_changes_neither_table": "implies(taken, self.all_names == old(self.all_names) and self.long_form_tags == old(self.long_form_tags))",
             "C14.tag.first_clash_records_first_holder_and_newcomer":
                 "implies(taken and gk not in old(self._duplicate_names), gk in self._duplicate_names and len(self._duplicate_names[gk]) == 2"
                 " and self._duplicate_names[gk][0] is old(self.long_form_tags)[" + FOLDK + "] and self._duplicate_names[gk][1] is new_entry)",
             "C14.tag.later_clash_is_appended":
                 "implies(taken and gk in old(self._duplicate_names) and len(old(self._duplicate_names)[gk]) >= 0, gk in self._duplicate_names"
                 " and len(self._duplicate_names[gk]) == len(old(self._duplicate_names)[gk]) + 1"
                 " and self._duplicate_names[gk][len(old(self._duplicate_names)[gk])] is new_entry"
                 " and all(self._duplicate_names[gk][k] is old(self._duplicate_names)[gk][k] for k in range(len(old(self._duplicate_names)[gk]))))",
             "C14.tag.records_of_other_names_untouched":
                 "forall_str(lambda p: implies(p != gk, (p in self._duplicate_names) == (p in old(self._duplicate_names))))",
             "C14.tag.free_name_is_no_duplicate": "implies(not taken, self._duplicate_names == old(self._duplicate_names))",
             "C03.tag.free_name_is_entered_under_its_name": "implies(not taken, name in self.all_names and self.all_names[name] is new_entry)",
             "C03.tag.every_listed_form_is_registered_case_folded":
                 "implies(not taken, all(gforms[k].casefold() in self.long_form_tags and self.long_form_tags[gforms[k].casefold()] is new_entry"
                 " for k in range(len(gforms))))",
             "C03.tag.no_other_form_is_touched":
                 "forall_str(lambda p: implies(all(gforms[k].casefold() != p for k in range(len(gforms))),"
                 " (p in self.long_form_tags) == (p in old(self.long_form_tags))"
                 " and implies(p in self.long_form_tags, self.long_form_tags[p] is old(self.long_form_tags)[p])))",
             "C03.tag.no_other_name_is_touched":
                 "forall_str(lambda p: implies(p != name, (p in self.all_names) == (p in old(self.all_names))"
                 " and implies(p in self.all_names, self.all_names[p] is old(self.all_names)[p])))",
         },
         loops={0: {"invariant": [
             "all(tag_forms[k].casefold() in self.long_form_tags and self.long_form_tags[tag_forms[k].casefold()] is new_entry for k in range(_n))",
             "forall_str(lambda p: implies(all(tag_forms[k].casefold() != p for k in range(_n)),"
             " (p in self.long_form_tags) == (p in old(self.long_form_tags))"
             " and implies(p in self.long_form_tags, self.long_form_tags[p] is old(self.long_form_tags)[p])))",
         ]}},
         assume=["the node name is not empty (precondition, as for _get_tag_forms: the loaders name every node)"])


# ----------------------------------------------------------------------------------------------------------------------------------
# C14 "an attribute that is not declared for that section ... is reported" (which attribute is valid where is decided by the PROPERTIES of the
# attribute's declaration): an entry answers "does attribute a have property p" from the declaration of a in its own section's table of valid
# attributes - True exactly when a is declared there and the declaration carries p; otherwise no answer (None), never an exception
contract("C14.attribute_property_is_read_from_the_sections_declaration", file=HE, func="HedSchemaEntry.attribute_has_property",
         params={"self": "EntrySetW4", "attribute": "Str", "property_name": "Str"}, returns="Opt[Bool]", enc="native", self_class="EntrySetW4",
         raises={}, lets={"V": "self._section.valid_attributes"},
         ensures={
             "C14.attrprop.true_iff_declared_in_the_section_with_the_property":
                 "(result is not None) == (attribute in V and property_name in V[attribute].attributes)",
             "C14.attrprop.an_answer_is_always_true": "implies(result is not None, result == True)",
         })

# C14 / C03 "required child / extension allowed ... are judged on the schema node": what an entry answers for an attribute - presence is
# membership in its own attribute table, the value form hands out the stored value (None when absent); a TAG answers from the table that
# includes what it inherits from its ancestors (filled by _finalize_inherited_attributes), so an inherited attribute is present on the node
for _cls, _mdl, _tbl, _p in (("HedSchemaEntry", "EntryN", "attributes", "C14"), ("HedTagEntry", "TagEntryAttrW4", "inherited_attributes", "C03")):
    contract(_p + "." + ("tag" if _p == "C03" else "entry") + "_attribute_presence_is_membership_in_its_table", file=HE, func=_cls + ".has_attribute",
             params={"self": _mdl, "attribute": "Str", "return_value": "Bool"}, returns="Bool", enc="native", self_class=_mdl,
             ghost={"not_at_call_sites": True}, requires=["not return_value"], raises={},
             ensures={_p + ".hasattr.present_iff_in_the_" + _tbl + "_table": "result == (attribute in self." + _tbl + ")"},
             assume=["the presence form (return_value false; the value form has its own contract)"])
    contract(_p + "." + ("tag" if _p == "C03" else "entry") + "_attribute_value_is_the_stored_value_or_none", file=HE, func=_cls + ".has_attribute",
             params={"self": _mdl, "attribute": "Str", "return_value": "Bool"}, returns="Opt[Str]", enc="native", self_class=_mdl,
             ghost={"not_at_call_sites": True}, requires=["return_value"], raises={},
             ensures={_p + ".hasattr.value_of_a_present_attribute": "implies(attribute in self." + _tbl + ", result == self." + _tbl + "[attribute])",
                      _p + ".hasattr.absent_attribute_has_no_value": "implies(attribute not in self." + _tbl + ", result is None)"},
             assume=["the value form (return_value true); attribute values are texts"])

# C05 "loading the result gives a schema equal to the original" (equality is the oracle of the round trip): a unit class equals another only if
# the entries agree (name, attributes, description: C05.entry_equality_compares_name_attributes_and_description) AND their unit tables agree;
# a tag only if the entries agree AND the tables including the inherited attributes agree (up to the order of comma-separated values)
class_model("UnitClassEqW8", {"units": "Int"}, bases=["EntryEqW4"])
class_model("TagEqW8", {"inherited_attributes": "Int"}, bases=["EntryEqW4"])
ENTRY_EQ = ("(self.name == other.name and same_attributes_in_any_order(self.attributes, other.attributes) and self.description == other.description)")
contract("C05.unit_class_equality_also_compares_the_units", file=HE, func="UnitClassEntry.__eq__",
         params={"self": "UnitClassEqW8", "other": "UnitClassEqW8"}, returns="Bool", enc="native", self_class="UnitClassEqW8", prop="C05",
         ghost={"alias_ok": True, "super_is": "EntryEqW4"},
         ensures={"C05.eq.unit_classes_equal_iff_entry_and_units_agree": "result == (" + ENTRY_EQ + " and self.units == other.units)"},
         assume=["the unit table of a class is modelled as an abstract value whose == is dictionary equality",
                 "super() in a method of the leaf class UnitClassEntry is self seen as HedSchemaEntry (single inheritance)"])
contract("C05.tag_equality_also_compares_inherited_attributes", file=HE, func="HedTagEntry.__eq__",
         params={"self": "TagEqW8", "other": "TagEqW8"}, returns="Bool", enc="native", self_class="TagEqW8", prop="C05",
         ghost={"alias_ok": True, "super_is": "EntryEqW4"},
         ensures={"C05.eq.tags_equal_iff_entry_and_inherited_attributes_agree":
                  "result == (" + ENTRY_EQ + " and same_attributes_in_any_order(self.inherited_attributes, other.inherited_attributes))"},
         assume=["super() in a method of the leaf class HedTagEntry is self seen as HedSchemaEntry (single inheritance)"])


# C14 "a unit or value class ... that does not exist ... is reported" / C11 "a value-taking tag with unit classes": the class table of a '#'
# node holds, for EVERY name listed in the attribute (comma separated), the entry of that name in the section asked - and only those;
# a listed name the section does not know is left out (it is the compliance check that reports it), no attribute gives an empty table
class_model("HedSchemaClsW8", {})
if z3 is not None:
    from contracts.x_w4 import _uf_w4 as _uf8
    EXTERNS["entry_in_section_of"] = _uf8("entry_in_section_of", ["HedSchemaClsW8", "Str", "Str"], "Opt[EntryN]")
contract("C14.entry_in_section_view", file=HS, func="HedSchema._get_tag_entry",
         params={"self": "HedSchemaClsW8", "name": "Str", "key_class": "Str"}, returns="Opt[EntryN]", enc="native", trusted=True,
         self_class="HedSchemaClsW8", fresh_result=False, ensures={"view": "result == entry_in_section_of(self, name, key_class)"},
         assume=["looking a name up in one section of a schema is a function of (schema, name, section key)"])
LISTED = "self.attributes[attribute_key].split(',')"
contract("C14.class_table_holds_every_listed_class_the_section_knows", file=HE, func="HedTagEntry._finalize_classes",
         params={"self": "EntryN", "schema": "HedSchemaClsW8", "attribute_key": "Str", "section_key": "Str"}, returns="Map[Str,EntryN]", enc="native",
         self_class="EntryN", also=["C11"], locals={"result": "Map[Str,EntryN]"}, raises={},
         ensures={
             "C14.classes.no_attribute_gives_an_empty_table": "implies(attribute_key not in self.attributes, no_keys(result))",
             "C14.classes.every_listed_name_the_section_knows_is_in_the_table":
                 "implies(attribute_key in self.attributes, all(implies(entry_in_section_of(schema, " + LISTED + "[k], section_key) is not None,"
                 " " + LISTED + "[k] in result and result[" + LISTED + "[k]] == entry_in_section_of(schema, " + LISTED + "[k], section_key))"
                 " for k in range(len(" + LISTED + "))))",
             "C14.classes.nothing_else_is_in_the_table":
                 "forall_str(lambda p: implies(p in result, attribute_key in self.attributes and entry_in_section_of(schema, p, section_key) is not None"
                 " and result[p] == entry_in_section_of(schema, p, section_key) and any(" + LISTED + "[k] == p for k in range(len(" + LISTED + ")))))",
         },
         loops={0: {"invariant": [
             "all(implies(entry_in_section_of(schema, _iter0[k], section_key) is not None,"
             " _iter0[k] in result and result[_iter0[k]] == entry_in_section_of(schema, _iter0[k], section_key)) for k in range(_n))",
             "forall_str(lambda p: implies(p in result, entry_in_section_of(schema, p, section_key) is not None"
             " and result[p] == entry_in_section_of(schema, p, section_key) and any(_iter0[k] == p for k in range(_n))))",
         ]}})
