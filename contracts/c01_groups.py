from pyvc.contract import contract

G = "hed/validator/util/group_util.py"

# C01 placement rules: a tag whose node has tagGroup must sit in a group, one with topLevelTagGroup in a top-level group;
# each breach is reported as an error with the code of the rule, naming the offending tag
contract("C01.check_tag_level_issue", file=G, func="GroupValidator.check_tag_level_issue",
         params={"original_tag_list": "List[HedTag]", "is_top_level": "Bool", "is_group": "Bool"},
         returns="List[Issue]", enc="native",
         locals={"validation_issues": "List[Issue]"},
         ensures={
             # (the converse clauses - each misplaced tag is named by a TAG_GROUP_ERROR / DEFINITION_INVALID issue - need
             #  existential witnesses through two filtered lists; z3/cvc5 do not decide them within budget, so they are
             #  left to the bounded workload rt/c01.py and NOT claimed here)
             "C01.placement.well_placed_is_silent": "implies(all(not base_has_attr(original_tag_list[i], 'tagGroup')"
                 " and not base_has_attr(original_tag_list[i], 'topLevelTagGroup') for i in range(len(original_tag_list))), len(result) == 0)",
         },
         loops={
             0: {"invariant": ["implies(len(tag_group_tags) == 0, len(validation_issues) == 0)"]},
             1: {"invariant": ["implies(len(tag_group_tags) == 0 and len(top_level_tags) == 0, len(validation_issues) == 0)"]},
         },
         assume=["the HED_MULTIPLE_TOP_TAGS part (set cardinalities) is outside the encoding: explored with unknown values; "
                 "the clauses proved do not depend on it"])
