from pyvc.contract import contract

contract("C08.find_non_matching_braces",
         file="hed/validator/sidecar_validator.py", func="SidecarValidator._find_non_matching_braces",
         params={"hed_string": "Str"}, returns="List[Int]", enc="array",
         ensures={
             "C08.braces.empty_iff_ok": "(len(result) == 0) == braces_ok(hed_string)",
             "C08.braces.in_range": "all(0 <= result[k] < len(hed_string) and (hed_string[result[k]] == '{' or hed_string[result[k]] == '}')"
                                    " for k in range(len(result)))",
         },
         locals={"issues": "List[Int]"},
         bounded={"hed_string": "str:{}a:7:10"},
         loops={0: {"invariant": [
             "open_brace_index == open_at(hed_string, _n)",
             "-1 <= open_brace_index < _n",
             "open_brace_index < 0 or hed_string[open_brace_index] == '{'",
             "(len(issues) == 0) == no_brace_fault_before(hed_string, _n)",
             "all(0 <= issues[k] < _n and (hed_string[issues[k]] == '{' or hed_string[issues[k]] == '}') for k in range(len(issues)))",
         ]}})

# ---- C08/C12: sidecar validation keeps the error-context stack balanced on every path (labels of later issues stay true)
SC = "hed/validator/sidecar_validator.py"
G = {"vars": {"ctx_depth0": "Int"}, "init": {"ctx_depth": "ctx_depth0"}, "no_frame": True}
BAL = {"C08.context.stack_balanced": "ctx_depth == ctx_depth0"}
NOTE = ["loops explored as one arbitrary iteration from a havocked state (sound for the ghost balance); values opaque"]
F, COL, KEY, HS = "ErrorContext.FILE_NAME", "ErrorContext.SIDECAR_COLUMN_NAME", "ErrorContext.SIDECAR_KEY_NAME", "ErrorContext.HED_STRING"


def _kinds(*alts):
    return " or ".join("ctx_kinds == (" + "".join(k + ", " for k in alt) + ")" for alt in alts)


# C08/C12 "each structural fault is flagged ... labelled": the contexts in force when issues are stamped, per stamping site
LBL = "C08.label.contexts_in_force_where_issues_are_stamped"
RULES = {
    "validate": {"add_context_and_filter": {LBL: _kinds((F, COL, HS), (F, COL, KEY, HS))},
                 "format_error_with_context:INVALID_COLUMN_REF": {LBL: _kinds((F, COL), (F, COL, KEY))}},
    "_validate_refs": {"format_error_with_context:MALFORMED_COLUMN_REF": {LBL: _kinds((COL, HS), (COL, KEY, HS))},
                       "format_error_with_context:INVALID_COLUMN_REF": {LBL: _kinds((COL, HS), (COL, KEY, HS))},
                       "add_context_and_filter": {LBL: _kinds((COL,))},
                       "format_error_with_context:SELF_COLUMN_REF": {LBL: _kinds(())},
                       "format_error_with_context:NESTED_COLUMN_REF": {LBL: _kinds(())}},
    "_validate_categorical_column": {"format_error_with_context:blankValueString": {LBL: _kinds((), (KEY,))},
                                     "format_error_with_context:wrongHedDataType": {LBL: _kinds((KEY,))},
                                     "format_error_with_context:SIDECAR_NA_USED": {LBL: _kinds((KEY,))}},
    "_check_definitions_bad_spot": {"format_error_with_context:BAD_DEFINITION_LOCATION": {LBL: _kinds((COL,))}},
}
for _name, _params in (
        ("validate_structure", {"self": "Opaque", "sidecar": "Opaque", "error_handler": "ErrorHandlerCtx"}),
        ("_validate_refs", {"self": "Opaque", "sidecar": "Opaque", "error_handler": "ErrorHandlerCtx"}),
        ("_validate_categorical_column", {"self": "Opaque", "column_name": "Opaque", "dict_for_entry": "Opaque",
                                          "error_handler": "ErrorHandlerCtx"}),
        ("_check_definitions_bad_spot", {"self": "Opaque", "definition_checks": "Opaque", "error_handler": "ErrorHandlerCtx"}),
        ("validate", {"self": "Opaque", "sidecar": "Opaque", "extra_def_dicts": "Opaque", "name": "Opaque",
                      "error_handler": "ErrorHandlerCtx"})):
    contract(f"C08.context.{_name.strip('_')}", file=SC, func=f"SidecarValidator.{_name}", params=_params, returns="Opaque",
             enc="native", ghost=dict(G, label_rules=RULES.get(_name, {})), ensures=BAL, unwind="havoc", assume=NOTE, prop="C08")

# C08 "a structurally valid sidecar ... yields no error" / "exactly one '#' in a value column": the placeholders counted are those of the
# annotation with its Definition groups removed AND its Def-expand groups shrunk back to Def tags (a written-out expansion repeats the '#')
from pyvc.contract import class_model as _cm8, EXTERNS as _EX8
_cm8("HedStringPS", {"__str__": "Str"})
try:
    import z3 as _z8
    from pyvc.vals import SV as _SV8, STR as _STR8

    def _text_step(fname):
        def f(interp, args, kwargs):
            """in-place tree surgery seen through the text view: str(obj) becomes fname(str(obj))"""
            fn = _z8.Function(fname, _z8.StringSort(), _z8.StringSort())
            cur = interp.ctx.strs.to_native(interp.field_read(args[0], "__str__"))
            interp.field_write(args[0], "__str__", _SV8(_STR8, fn(cur)))
            return None
        return f

    def _text_fn(fname):
        def f(interp, args, kwargs):
            fn = _z8.Function(fname, _z8.StringSort(), _z8.StringSort())
            return _SV8(_STR8, fn(interp.ctx.strs.to_native(args[0])))
        return f
    _EX8["HedStringPS.remove_definitions"] = _text_step("without_definitions")
    _EX8["HedStringPS.shrink_defs"] = _text_step("with_defs_shrunk")
    _EX8["without_definitions"] = _text_fn("without_definitions")
    _EX8["with_defs_shrunk"] = _text_fn("with_defs_shrunk")
except ImportError:
    pass
contract("C08.expected_pound_sign_count", file="hed/models/column_metadata.py", func="ColumnMetadata.expected_pound_sign_count",
         params={"column_type": "Opt[Str]"}, returns="Tuple[Int,Opt[Str]]", enc="native", prop="C08",
         ensures={"C08.pound.one_for_value_columns_none_otherwise": "result[0] == (1 if column_type == 'value' else 0)",
                  "C08.pound.rule_kind": "result[1] == ('invalidNumberPoundSigns' if column_type == 'value' else"
                                         " ('tooManyPoundSigns' if (column_type == 'hed_tags' or column_type == 'categorical') else None))"})
contract("C08.validate_pound_sign_count", file=SC, func="SidecarValidator._validate_pound_sign_count",
         params={"self": "Opaque", "hed_string": "HedStringPS", "column_type": "Opt[Str]"}, returns="List[Issue]", enc="native", prop="C08",
         requires=["column_type == 'value' or column_type == 'categorical' or column_type == 'hed_tags'"],
         lets={"judged": "with_defs_shrunk(without_definitions(hed_string.__str__))"},
         ensures={
             "C08.pound.counted_after_removing_definitions_and_shrinking_expansions":
                 "(len(result) == 0) == (count_of(judged, '#') == (1 if column_type == 'value' else 0))",
             "C08.pound.code": "all_in(result, lambda x: x.code == 'PLACEHOLDER_INVALID' and x.severity == 1)",
             "C08.pound.caller_string_untouched": "hed_string.__str__ == old(hed_string.__str__)",
         })

# C08 "every value column's template holds exactly one '#'" needs every annotated column's texts to REACH the per-string rules: a column
# that has a type hands its annotation (whatever it is - also an empty template) to the series the validator walks; only a column the
# sidecar does not annotate hands out nothing
_cm8("HedDictM", {"__bool__": "Bool"})      # (a str or dict: may be empty)
_cm8("ColumnMetadataM", {"column_type": "Opt[Str]", "hed_dict": "HedDictM"})
try:
    def _pd_series(interp, args, kwargs):
        """pd.Series(data?, ...): an unmodelled value; the ghost state remembers from what it was built"""
        from pyvc.vals import Opaque as _Opq, INT as _INT8
        g = interp.ctx.ghost
        g["series_built"] = _SV8(_INT8, interp.ctx.term(g.get("series_built", 0), _INT8) + 1)
        g["series_has_data"] = bool(args) or ("data" in kwargs)
        g["series_data"] = args[0] if args else kwargs.get("data")
        return _Opq("pd.Series()", fresh=True)
    _EX8["pd.Series"] = _pd_series
except NameError:
    pass
contract("C08.annotated_column_hands_out_its_annotation", file="hed/models/column_metadata.py", func="ColumnMetadata.get_hed_strings",
         params={"self": "ColumnMetadataM"}, returns="Opaque", enc="native", self_class="ColumnMetadataM", prop="C08", also=["C06"],
         requires=["implies(self.column_type is not None, len(self.column_type) > 0)"],
         ghost={"init": {"series_built": "0", "series_has_data": "False", "series_data": "None"}},
         ensures={
             "C08.texts.typed_column_series_is_built_from_its_annotation":
                 "implies(self.column_type is not None, series_built == 1 and series_has_data and series_data is self.hed_dict)",
             "C08.texts.untyped_column_hands_out_nothing": "implies(self.column_type is None, series_built == 1 and not series_has_data)",
         },
         assume=["a ColumnType member is truthy (Enum); pd.Series(d, dtype=str) holds exactly the texts of d"])
