from pyvc.contract import contract

contract("C08.find_non_matching_braces",
         file="hed/validator/sidecar_validator.py", func="SidecarValidator._find_non_matching_braces",
         params={"hed_string": "Str"}, returns="List[Int]", enc="array",
         ensures={
             "C08.braces.empty_iff_ok": "(len(result) == 0) == braces_ok(hed_string)",
             "C08.braces.in_range": "all(0 <= result[k] < len(hed_string) and (hed_string[result[k]] == '{' or hed_string[result[k]] == '}')"
                                    " for k in range(len(result)))",
         },
         locals={"issues": "List[Int]"},
         bounded={"hed_string": "str:{}a:7:10"},
         loops={0: {"invariant": [
             "open_brace_index == open_at(hed_string, _n)",
             "-1 <= open_brace_index < _n",
             "open_brace_index < 0 or hed_string[open_brace_index] == '{'",
             "(len(issues) == 0) == no_brace_fault_before(hed_string, _n)",
             "all(0 <= issues[k] < _n and (hed_string[issues[k]] == '{' or hed_string[issues[k]] == '}') for k in range(len(issues)))",
         ]}})

# ---- C08/C12: sidecar validation keeps the error-context stack balanced on every path (labels of later issues stay true)
SC = "hed/validator/sidecar_validator.py"
G = {"vars": {"ctx_depth0": "Int"}, "init": {"ctx_depth": "ctx_depth0"}, "no_frame": True}
BAL = {"C08.context.stack_balanced": "ctx_depth == ctx_depth0"}
NOTE = ["loops explored as one arbitrary iteration from a havocked state (sound for the ghost balance); values opaque"]
for _name, _params in (
        ("validate_structure", {"self": "Opaque", "sidecar": "Opaque", "error_handler": "ErrorHandlerCtx"}),
        ("_validate_refs", {"self": "Opaque", "sidecar": "Opaque", "error_handler": "ErrorHandlerCtx"}),
        ("_validate_categorical_column", {"self": "Opaque", "column_name": "Opaque", "dict_for_entry": "Opaque",
                                          "error_handler": "ErrorHandlerCtx"}),
        ("_check_definitions_bad_spot", {"self": "Opaque", "definition_checks": "Opaque", "error_handler": "ErrorHandlerCtx"}),
        ("validate", {"self": "Opaque", "sidecar": "Opaque", "extra_def_dicts": "Opaque", "name": "Opaque",
                      "error_handler": "ErrorHandlerCtx"})):
    contract(f"C08.context.{_name.strip('_')}", file=SC, func=f"SidecarValidator.{_name}", params=_params, returns="Opaque",
             enc="native", ghost=G, ensures=BAL, unwind="havoc", assume=NOTE, prop="C08")
