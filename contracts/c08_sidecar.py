from pyvc.contract import contract

contract("C08.find_non_matching_braces",
         file="hed/validator/sidecar_validator.py", func="SidecarValidator._find_non_matching_braces",
         params={"hed_string": "Str"}, returns="List[Int]", enc="array",
         ensures={
             "C08.braces.empty_iff_ok": "(len(result) == 0) == braces_ok(hed_string)",
             "C08.braces.in_range": "all(0 <= result[k] < len(hed_string) and (hed_string[result[k]] == '{' or hed_string[result[k]] == '}')"
                                    " for k in range(len(result)))",
         },
         locals={"issues": "List[Int]"},
         bounded={"hed_string": "str:{}a:7:10"},
         loops={0: {"invariant": [
             "open_brace_index == open_at(hed_string, _n)",
             "-1 <= open_brace_index < _n",
             "open_brace_index < 0 or hed_string[open_brace_index] == '{'",
             "(len(issues) == 0) == no_brace_fault_before(hed_string, _n)",
             "all(0 <= issues[k] < _n and (hed_string[issues[k]] == '{' or hed_string[issues[k]] == '}') for k in range(len(issues)))",
         ]}})
