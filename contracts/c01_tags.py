from pyvc.contract import contract
from contracts.common import HEDTAG_LAYOUT

F = "hed/validator/util/tag_util.py"
T = {"original_tag": "HedTag"}

# C01 per-tag rules, each an iff over the abstract view of the resolved node (so: for every schema)
contract("C01.check_tag_exists_in_schema", file=F, func="TagValidator.check_tag_exists_in_schema",
         params=T, returns="List[Issue]", enc="native", requires=[HEDTAG_LAYOUT],
         lets={"plain": "original_tag.is_basic_tag() or original_tag.is_takes_value_tag()",
               "ext_ok": "has_attr(original_tag, 'extensionAllowed')"},
         ensures={
             "C01.exists.known_or_value_tag_is_silent": "(len(result) == 0) == plain",
             "C01.exists.reported_as_set": "implies(not plain and not ext_ok, any_in(result, lambda x: x.severity == 1 and"
                                           " (x.code == 'TAG_EXTENSION_INVALID' or x.code == 'PLACEHOLDER_INVALID')))",
             "C01.exists.errors_only_when_forbidden": "all_in(result, lambda x: x.severity >= 10 or (not plain and not ext_ok))",
             "C01.exists.forbidden_extension_is_error": "implies(not plain and not ext_ok, len(result) == 1 and result[0].severity == 1"
                                                        " and result[0].code == ('PLACEHOLDER_INVALID' if '#' in original_tag.extension"
                                                        " else 'TAG_EXTENSION_INVALID'))",
             "C01.exists.allowed_extension_is_warning": "implies(not plain and ext_ok, len(result) == 1 and result[0].severity == 10"
                                                        " and result[0].code == 'TAG_EXTENDED'"
                                                        " and result[0].index_in_tag == len(original_tag.org_base_tag))",
         })

contract("C01.check_tag_requires_child", file=F, func="TagValidator.check_tag_requires_child",
         params=T, returns="List[Issue]", enc="native",
         ensures={"C01.requires_child.iff": "(len(result) > 0) == has_attr(original_tag, 'requireChild')",
                  "C01.requires_child.reported": "implies(has_attr(original_tag, 'requireChild'),"
                                                 " any_in(result, lambda x: x.code == 'TAG_REQUIRES_CHILD' and x.severity == 1))",
                  "C01.requires_child.only_that": "all_in(result, lambda x: x.code == 'TAG_REQUIRES_CHILD' and has_attr(original_tag, 'requireChild'))",
                  "C01.requires_child.code": "all(result[k].code == 'TAG_REQUIRES_CHILD' and result[k].severity == 1 for k in range(len(result)))"})

contract("C01.check_tag_is_deprecated", file=F, func="TagValidator.check_tag_is_deprecated",
         params={"self": "Opaque", "original_tag": "HedTag"}, returns="List[Issue]", enc="native",
         ensures={"C01.deprecated.iff": "(len(result) > 0) == has_attr(original_tag, 'deprecatedFrom')",
                  "C01.deprecated.warning_only": "all_in(result, lambda x: x.severity == 10)",
                  "C01.deprecated.is_warning": "all(result[k].code == 'ELEMENT_DEPRECATED' and result[k].severity == 10 for k in range(len(result)))"})

contract("C01.check_for_placeholder", file=F, func="TagValidator.check_for_placeholder",
         params={"original_tag": "HedTag", "is_definition": "Bool"}, returns="List[Issue]", enc="array", also=["C12"],
         requires=[HEDTAG_LAYOUT,
                   "all(original_tag.tag[len(original_tag.org_base_tag) + 1 + j] == original_tag.extension[j]"
                   " for j in range(len(original_tag.extension)))"],
         locals={"validation_issues": "List[Issue]"},
         ensures={
             "C01.placeholder.one_issue_per_hash": "len(result) == (0 if is_definition else count_char(original_tag.extension, '#', len(original_tag.extension)))",
             "C01.placeholder.code": "all(result[k].code == 'PLACEHOLDER_INVALID' and result[k].severity == 1 for k in range(len(result)))",
             "C01.placeholder.reported_as_set": "implies(not is_definition and '#' in original_tag.extension,"
                                                " any_in(result, lambda x: x.code == 'PLACEHOLDER_INVALID' and x.severity == 1))",
             "C01.placeholder.only_when_present": "implies(is_definition or '#' not in original_tag.extension, len(result) == 0)",
             # C12: the tag-relative offsets select exactly the offending '#'
             "C12.placeholder.offsets_select_the_hash": "all(original_tag.tag[result[k].index_in_tag] == '#'"
                                                        " and result[k].index_in_tag_end == result[k].index_in_tag + 1 for k in range(len(result)))",
         },
         loops={0: {"invariant": [
             "len(validation_issues) == count_char(original_tag.extension, '#', _n)",
             "implies(any(original_tag.extension[j] == '#' for j in range(_n)),"
             " any_in(validation_issues, lambda x: x.code == 'PLACEHOLDER_INVALID' and x.severity == 1))",
             "implies(all(original_tag.extension[j] != '#' for j in range(_n)), len(validation_issues) == 0)",
             "all(validation_issues[k].code == 'PLACEHOLDER_INVALID' and validation_issues[k].severity == 1 for k in range(len(validation_issues)))",
             "all(original_tag.tag[validation_issues[k].index_in_tag] == '#'"
             " and validation_issues[k].index_in_tag_end == validation_issues[k].index_in_tag + 1 for k in range(len(validation_issues)))"]}})
