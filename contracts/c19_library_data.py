"""C19: the library-data look-up populates its folder like the schema cache does (written in the last session from the property text)."""
from pyvc.contract import contract

_LRU = ("the clauses speak about an evaluation of the body of get_library_data; functools.lru_cache hands a later call with equal arguments "
        "the remembered answer of such an evaluation (memoisation itself is exercised by the bounded workload only)")

# C19 "Loading ... succeeds ... regardless of the state in which an earlier or concurrent process left the cache directory" /
# "Two holders of the cache lock for one directory never overlap" / "a refresh attempted within the refresh interval is skipped":
# get_library_data copies the installed library_data under the folder lock and with a lock that keeps no refresh time (call-pre of
# C19.copy_installed_folder_to_cache: a local population is no refresh), downloads at most once and only under a lock that DOES keep the
# refresh time (so that a refresh within the interval is skipped), and lets none of the documented errors escape.
contract("C19.library_data_population_is_locked_local_first_and_total",
         file="hed/schema/hed_cache.py", func="get_library_data",
         params={"library_name": "Str", "cache_folder": "Str"}, returns="Opaque", enc="native",
         ghost={"init": {"cache_locked": "False", "lock_keeps_refresh_time": "False", "downloads": "0"}, "not_at_call_sites": True,
                "decorators_ok": {"lru_cache": _LRU}},
         modifies=["heap:PLock.held"],
         # (not claimed: "every lock taken is released on return" - CacheLock.__exit__ skips the release when the time stamp cannot be
         # written (ValueError, swallowed here); the lock object is then only released when it is garbage-collected)
         ensures={"C19.refresh.at_most_one_download": "downloads <= 1",
                  "C19.refresh.download_only_under_a_lock_that_keeps_the_refresh_time": "implies(downloads == 1, lock_keeps_refresh_time)"},
         assume=[_LRU, "json.load and the subscript of its result are unmodelled values (either outcome of every test on them is explored)",
                 "cache_folder is a text: the None case takes the module's default folder text and continues the same way"])
