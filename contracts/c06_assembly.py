from pyvc.contract import contract

# C06: "skipping cells that are n/a or empty ... a reference whose cell is n/a disappears": the value handed on for an
# n/a / unlisted categorical cell must be the one that the splice (replace_ref) and the row join treat as absent: 'n/a'
contract("C06.category_handler",
         file="hed/models/column_mapper.py", func="ColumnMapper._category_handler",
         params={"category_values": "Map[Str,Str]", "x": "Str"}, returns="Str", enc="native",
         ensures={
             # from the property: "the categorical entry selected by each categorical cell ..., skipping cells that are n/a or empty"
             "C06.cat.listed_key_selects_entry": "implies(x != 'n/a' and x != '' and x in category_values, result == category_values[x])",
             "C06.cat.na_or_empty_cell_is_absent": "implies(x == 'n/a' or x == '', result == 'n/a')",
             "C06.cat.unlisted_key_is_absent": "implies(x not in category_values, result == 'n/a')",
         },
         bounded={"category_values": 'choice:[{"a": "Red", "b": "Blue"}, {}, {"n/a": "Green"}]',
                  "x": 'choice:["a", "b", "n/a", "zz", ""]'})

contract("C06.value_handler",
         file="hed/models/column_mapper.py", func="ColumnMapper._value_handler",
         params={"value_str": "Str", "x": "Str"}, returns="Str", enc="native",
         ensures={
             # "skipping cells that are n/a or empty"
             "C06.value.na_or_empty_cell_is_absent": "implies(x == 'n/a' or x == '', result == 'n/a')",
             "C06.value.template_filled": "implies(x != 'n/a' and x != '', result == replace_all(value_str, '#', x))",
             "C06.value.no_placeholder_left": "implies(x != 'n/a' and x != '' and '#' not in x, '#' not in result)",
             "C06.value.cell_text_inserted": "implies(x != 'n/a' and '#' in value_str and len(x) > 0, x in result)",
         },
         bounded={"value_str": 'choice:["Label/#", "(Label/#, Item/#)", "Red", ""]', "x": 'choice:["3", "n/a", "a#b", ""]'},
         assume=["str.replace is uninterpreted with three sound facts (no occurrence -> unchanged; single-char pattern absent "
                 "from the replacement -> absent from the result; pattern present -> replacement present)"])

# C06 "a column referenced in curly braces is spliced ... gives the same answer every time": after reset_column_mapper(s) the sidecar
# consulted for curly-brace references (self._sidecar) IS the sidecar the new transformers were built from
from pyvc.contract import class_model as _cm
_cm("SidecarM", {})
_cm("ColumnMapper", {"built_from": "Opt[SidecarM]"})
_cm("TabularInputM", {"_sidecar": "Opt[SidecarM]", "_mapper": "Opt[ColumnMapper]", "HED_COLUMN_NAME": "Str"})
contract("C06.column_mapper_init", file="hed/models/column_mapper.py", func="ColumnMapper.__init__",
         params={"self": "ColumnMapper", "sidecar": "Opt[SidecarM]", "tag_columns": "Opaque", "column_prefix_dictionary": "Opaque",
                 "optional_tag_columns": "Opaque", "warn_on_missing_column": "Opaque"}, returns=None, enc="native", trusted=True,
         modifies=["self.built_from"], ensures={"view": "self.built_from is sidecar or (self.built_from is None and sidecar is None)"},
         assume=["ColumnMapper(sidecar=s) builds its transformers from s (view built_from); its body is not verified here"])
contract("C06.reset_mapper", file="hed/models/base_input.py", func="BaseInput.reset_mapper",
         params={"self": "TabularInputM", "new_mapper": "ColumnMapper"}, returns=None, enc="native", trusted=True, self_class="TabularInputM",
         modifies=["self._mapper"], ensures={"set": "self._mapper is new_mapper"})
contract("C06.reset_column_mapper", file="hed/models/tabular_input.py", func="TabularInput.reset_column_mapper",
         params={"self": "TabularInputM", "sidecar": "Opt[SidecarM]"}, returns=None, enc="native", self_class="TabularInputM",
         modifies=["self._sidecar", "self._mapper"],
         ensures={"C06.reset.references_and_transformers_use_the_same_sidecar":
                  "self._mapper is not None and ((sidecar is None and self._sidecar is None and self._mapper.built_from is None)"
                  " or (sidecar is not None and self._sidecar is sidecar and self._mapper.built_from is sidecar))"},
         assume=["only the Sidecar-object (or None) form of the argument is covered"])

# C06 "gives the same answer every time it is asked, and changes neither the table nor the sidecar": assemble() keeps no state on the input
# object (a remembered answer would survive later edits of the table)
_cm("BaseInputState", {"_dataframe": "Opaque", "_mapper": "Opaque", "_sidecar": "Opaque"})
contract("C06.assemble_keeps_no_state", file="hed/models/base_input.py", func="BaseInput.assemble",
         params={"self": "BaseInputState", "mapper": "Opaque", "skip_curly_braces": "Opaque"}, returns="Opaque", enc="native",
         self_class="BaseInputState", unwind="havoc", ghost={"pure": True}, ensures={},
         assume=["table values are pandas objects (opaque); the clause is the frame: no attribute of the input object is written"])
