from pyvc.contract import contract

# C06: "skipping cells that are n/a or empty ... a reference whose cell is n/a disappears": the value handed on for an
# n/a / unlisted categorical cell must be the one that the splice (replace_ref) and the row join treat as absent: 'n/a'
contract("C06.category_handler",
         file="hed/models/column_mapper.py", func="ColumnMapper._category_handler",
         params={"category_values": "Map[Str,Str]", "x": "Str"}, returns="Str", enc="native",
         ensures={
             "C06.cat.listed_key_selects_entry": "implies(x in category_values, result == category_values[x])",
             "C06.cat.na_is_absent": "implies(x not in category_values, result == 'n/a')",
         },
         bounded={"category_values": 'choice:[{"a": "Red", "b": "Blue"}, {}, {"n/a": "Green"}]',
                  "x": 'choice:["a", "b", "n/a", "zz", ""]'})

contract("C06.value_handler",
         file="hed/models/column_mapper.py", func="ColumnMapper._value_handler",
         params={"value_str": "Str", "x": "Str"}, returns="Str", enc="native",
         ensures={
             # "skipping cells that are n/a or empty"
             "C06.value.na_or_empty_cell_is_absent": "implies(x == 'n/a' or x == '', result == 'n/a')",
             "C06.value.template_filled": "implies(x != 'n/a' and x != '', result == replace_all(value_str, '#', x))",
             "C06.value.no_placeholder_left": "implies(x != 'n/a' and x != '' and '#' not in x, '#' not in result)",
             "C06.value.cell_text_inserted": "implies(x != 'n/a' and '#' in value_str and len(x) > 0, x in result)",
         },
         bounded={"value_str": 'choice:["Label/#", "(Label/#, Item/#)", "Red", ""]', "x": 'choice:["3", "n/a", "a#b", ""]'},
         assume=["str.replace is uninterpreted with three sound facts (no occurrence -> unchanged; single-char pattern absent "
                 "from the replacement -> absent from the result; pattern present -> replacement present)"])
