from pyvc.contract import contract

# C01 lemma (finite, decided by evaluating the decorator table extracted from the working tree):
# every rule named by the property reports the HED-specification error code of that rule, as an error.
EXPECTED = {
    "NO_VALID_TAG_FOUND": "TAG_INVALID",                # unknown tag            (internal kind 'invalidTag')
    "TAG_EXTENSION_INVALID": "TAG_EXTENSION_INVALID",
    "TAG_REQUIRES_CHILD": "TAG_REQUIRES_CHILD",
    "UNITS_INVALID": "UNITS_INVALID",
    "VALUE_INVALID": "VALUE_INVALID",
    "HED_TAG_REPEATED": "TAG_EXPRESSION_REPEATED",
    "HED_TAG_REPEATED_GROUP": "TAG_EXPRESSION_REPEATED",
    "HED_TAG_GROUP_TAG": "TAG_GROUP_ERROR",
    "HED_TOP_LEVEL_TAG": "TAG_GROUP_ERROR",
    "HED_MULTIPLE_TOP_TAGS": "TAG_GROUP_ERROR",
    "PARENTHESES_MISMATCH": "PARENTHESES_MISMATCH",
    "TAG_EMPTY": "TAG_EMPTY",
    "HED_GROUP_EMPTY": "TAG_EMPTY",
    "COMMA_MISSING": "COMMA_MISSING",
    "CHARACTER_INVALID": "CHARACTER_INVALID",
    "TILDES_UNSUPPORTED": "TILDES_UNSUPPORTED",
    "TAG_NOT_UNIQUE": "TAG_NOT_UNIQUE",
    "REQUIRED_TAG_MISSING": "REQUIRED_TAG_MISSING",
    "HED_DEF_UNMATCHED": "DEF_INVALID", "HED_DEF_VALUE_MISSING": "DEF_INVALID", "HED_DEF_VALUE_EXTRA": "DEF_INVALID",
    "HED_DEF_EXPAND_INVALID": "DEF_EXPAND_INVALID", "HED_DEF_EXPAND_UNMATCHED": "DEF_EXPAND_INVALID",
    "HED_DEF_EXPAND_VALUE_MISSING": "DEF_EXPAND_INVALID", "HED_DEF_EXPAND_VALUE_EXTRA": "DEF_EXPAND_INVALID",
    "INVALID_PARENT_NODE": "TAG_EXTENSION_INVALID",
}
contract("C01.codes", file="hed/errors/error_messages.py", func="<error-table>", prop="C01",
         ensures={f"C01.codes.{k}": f"CODE[K[{k!r}]] == {v!r} and SEV[K[{k!r}]] == ERROR" for k, v in EXPECTED.items()})
