from pyvc.contract import contract

# C13: prefix extraction from the tag text
contract("C13.get_schema_namespace",
         file="hed/models/hed_tag.py", func="HedTag._get_schema_namespace",
         params={"org_tag": "Str"}, returns="Str", enc="array",
         also=["C03", "C02"],  # C02: parsing is total - the prefix is cut without raising for any text (two colons, no slash ...);      # C03: a tag without prefix must be resolved as a whole (a ':' after the first '/' is part of the value)
         ensures={
             # from the property: the namespace is the text up to and including the first ':' when that colon
             # comes before any '/', otherwise it is empty; it is always a prefix of the tag text
             "C13.ns.iff_colon_before_slash": "(len(result) > 0) == has_namespace_colon(org_tag)",
             "C13.ns.is_prefix": "org_tag.startswith(result)",
             "C13.ns.shape": "implies(len(result) > 0, result[len(result) - 1] == ':'"
                             " and all(result[j] != ':' and result[j] != '/' for j in range(len(result) - 1)))",
         },
         bounded={"org_tag": "str:a:/:6:8"})

from pyvc.contract import class_model
class_model("HedSchemaNS", {"_namespace": "Str", "filename": "Opaque"})
class_model("HedSchemaGroup", {"_schemas": "Map[Str,HedSchema]", "valid_prefixes": "Opaque"})

# C13: a prefix must be alphabetic; ':' is appended when missing
contract("C13.set_schema_prefix", file="hed/schema/hed_schema.py", func="HedSchema.set_schema_prefix",
         params={"self": "HedSchemaNS", "schema_namespace": "Str"}, returns=None, enc="array", self_class="HedSchemaNS",
         also=["C03"],      # C03: a prefix written with capitals must be stored as written, or no prefixed spelling resolves
         modifies=["self._namespace"],
         lets={"body": "schema_namespace[:-1] if (len(schema_namespace) > 0 and schema_namespace[len(schema_namespace) - 1] == ':') else schema_namespace"},
         raises={"HedFileError": "len(schema_namespace) > 0 and not (len(body) > 0 and all(body[k].isalpha() for k in range(len(body))))"},
         ensures={
             "C13.prefix.stored_with_colon": "implies(len(schema_namespace) > 0, len(self._namespace) == len(body) + 1"
                                             " and self._namespace[len(body)] == ':' and all(self._namespace[k] == body[k] for k in range(len(body))))",
             "C13.prefix.empty_stays_empty": "implies(len(schema_namespace) == 0, len(self._namespace) == 0)",
         })

# C13 dispatch: a tag is resolved by the schema owning its prefix and by no other; an unloaded prefix is an error
contract("C13.schema_for_namespace", file="hed/schema/hed_schema_group.py", func="HedSchemaGroup.schema_for_namespace",
         params={"self": "HedSchemaGroup", "namespace": "Str"}, returns="Opt[HedSchema]", enc="native",
         ensures={"C13.dispatch.owner": "result == (self._schemas[namespace] if namespace in self._schemas else None)"})

contract("C13.group_find_tag_entry", file="hed/schema/hed_schema_group.py", func="HedSchemaGroup.find_tag_entry",
         params={"self": "HedSchemaGroup", "tag": "HedTag", "schema_namespace": "Str"},
         returns="Tuple[Opt[TagEntry],Opt[Str],Opaque]", enc="native",
         requires=["tag.__str__ == tag.tag", "len(schema_namespace) <= len(tag.tag)",
                   "len(tag.tag[len(schema_namespace):].casefold()) == len(tag.tag[len(schema_namespace):])"],
         lets={"w": "tag.tag[len(schema_namespace):].casefold()"},
         ensures={
             "C13.dispatch.unloaded_prefix_is_error": "implies(schema_namespace not in self._schemas, result[0] is None and result[1] is None)",
             "C13.dispatch.resolved_by_owner_only": "implies(schema_namespace in self._schemas and tag_view(self._schemas[schema_namespace], w) is not None,"
                                                    " result[0] == tag_view(self._schemas[schema_namespace], w))",
         })

# C13 "an unloaded prefix is an error": a single schema answers only for its own prefix - also for the EMPTY prefix when the schema was
# loaded under a prefix (an unprefixed tag is then a tag of a library that is not loaded)
contract("C13.schema_find_tag_entry", file="hed/schema/hed_schema.py", func="HedSchema.find_tag_entry",
         params={"self": "HedSchema", "tag": "HedTag", "schema_namespace": "Str"},
         returns="Tuple[Opt[TagEntry],Opt[Str],Opaque]", enc="native",
         requires=["tag.__str__ == tag.tag", "len(schema_namespace) <= len(tag.tag)",
                   "len(tag.tag[len(schema_namespace):].casefold()) == len(tag.tag[len(schema_namespace):])"],
         lets={"w": "tag.tag[len(schema_namespace):].casefold()"},
         ghost={"init": {"unmatched_reported": "False"},
                "update": [("assign:validation_issues", "unmatched_reported = len(validation_issues) == 1 and validation_issues[0].severity == 1"
                                                        " and validation_issues[0].code == 'TAG_NAMESPACE_PREFIX_INVALID'")]},
         ensures={
             "C13.single.prefix_of_another_library_is_error": "implies(schema_namespace != self._namespace, result[0] is None and result[1] is None"
                 " and unmatched_reported)",
             "C13.single.own_prefix_resolves": "implies(schema_namespace == self._namespace and tag_view(self, w) is not None, result[0] == tag_view(self, w))",
         })

# C13/C03 "a prefixed annotation is judged ... exactly as" by the schema it is validated WITH: identifying a tag always asks the schema
# handed in (also for a tag that an earlier parse identified with another schema) and stores exactly what that schema answers
class_model("SchemaAny", {})
class_model("HedTagIdent", {"schema_namespace": "Str", "_schema_entry": "Opt[TagEntry]", "_schema": "Opt[SchemaAny]", "tag_terms": "Opaque",
                            "_extension_value": "Opt[Str]"})
contract("C13.any_schema_find_tag_entry", file="hed/schema/hed_schema.py", func="HedSchema.find_tag_entry",
         params={"self": "SchemaAny", "tag": "HedTagIdent", "schema_namespace": "Str"},
         returns="Tuple[Opt[TagEntry],Opt[Str],Opaque]", enc="native", trusted=True, self_class="SchemaAny",
         ensures={"named": "result[0] == answered_entry(self, tag, schema_namespace) and result[1] == answered_remainder(self, tag, schema_namespace)"},
         assume=["find_tag_entry of a schema or schema group is a deterministic function of (schema, tag text, prefix) - its rule is C03/C13.*find_tag_entry"])
contract("C13.identify_with_the_given_schema", file="hed/models/hed_tag.py", func="HedTag._calculate_to_canonical_forms",
         params={"self": "HedTagIdent", "hed_schema": "SchemaAny"}, returns="Opaque", enc="native", self_class="HedTagIdent", also=["C03"],
         modifies=["self._schema_entry", "self._schema", "self.tag_terms", "self._extension_value"],
         ensures={
             "C13.identify.entry_is_what_the_given_schema_answers": "self._schema_entry == answered_entry(hed_schema, self, self.schema_namespace)",
             "C13.identify.schema_recorded": "self._schema is hed_schema",
             "C13.identify.remainder_taken_from_the_given_schema": "implies(self._schema_entry is not None and answered_remainder(hed_schema, self, self.schema_namespace) is not None"
                 " and len(answered_remainder(hed_schema, self, self.schema_namespace)) > 0,"
                 " self._extension_value == answered_remainder(hed_schema, self, self.schema_namespace))",
         })

# C13 "loading ... two schemas under one prefix with clashing names is refused": the duplicate-name question is answered from the sections as
# they are NOW, every time it is asked - the function keeps no state on the schema (a remembered answer would survive a later merge)
class_model("HedSchemaDup", {"_sections": "Opaque"})
contract("C13.has_duplicates_keeps_no_state", file="hed/schema/hed_schema.py", func="HedSchema.has_duplicates",
         params={"self": "HedSchemaDup"}, returns="Opaque", enc="native", self_class="HedSchemaDup", unwind="havoc",
         ghost={"pure": True}, ensures={},
         assume=["the loop over the sections is explored as one arbitrary iteration (sound for the frame obligation)"])

# C13 "an annotation whose tags all carry prefix p is judged exactly as the unprefixed annotation": the names a section advertises for an
# attribute (unique / required tags ...) carry the prefix asked for NOW - the remembered part is the prefix-free entry list only
from pyvc.contract import EXTERNS as _EX13
class_model("EntryN", {"name": "Str", "attributes": "Map[Str,Str]"})
class_model("SectionM", {"_attribute_cache": "Map[Str,List[EntryN]]"})
try:
    from contracts.extern_fs import _entry_has_attribute as _eha13, _ulist as _ul13
    _EX13["EntryN.has_attribute"] = _eha13
    _EX13["SectionM.values"] = lambda interp, args, kwargs: _ul13("section_entries_of", 1, "EntryN")(interp, [args[0]], {})
    _EX13["section_entries_of"] = _ul13("section_entries_of", 1, "EntryN")
except ImportError:
    pass
contract("C13.names_with_attribute_carry_the_prefix_asked_for", file="hed/schema/hed_schema_section.py",
         func="HedSchemaSection.get_entries_with_attribute",
         params={"self": "SectionM", "attribute_name": "Str", "return_name_only": "Bool", "schema_namespace": "Str"},
         returns="List[Str]", enc="native", self_class="SectionM", modifies=["self._attribute_cache"],
         requires=["return_name_only"],
         ensures={"C13.names.every_name_starts_with_the_prefix_asked_for": "all(result[k].startswith(schema_namespace) for k in range(len(result)))"},
         assume=["only the names form (return_name_only=True) is covered"])

# C13 "a library schema partnered with a standard schema contains every standard tag ... plus its own tags": a partnered library read from
# its unmerged file starts as a copy of the (shared, possibly already used) standard schema and gets its own entries added; no finished
# attribute list may survive an added entry, or the library's own unique / required / ... tags are missing from what the validator asks for
class_model("SectionAdd", {"_attribute_cache": "Map[Str,List[EntryN]]", "all_entries": "List[EntryN]", "all_names": "Map[Str,EntryN]",
                           "_duplicate_names": "Map[Str,List[EntryN]]", "case_sensitive": "Bool"})
contract("C13.added_entry_drops_finished_attribute_lists", file="hed/schema/hed_schema_section.py", func="HedSchemaSection._add_to_dict",
         params={"self": "SectionAdd", "name": "Str", "new_entry": "EntryN"}, returns="EntryN", enc="native", self_class="SectionAdd",
         modifies=["self._attribute_cache", "self.all_entries", "self.all_names", "self._duplicate_names"],
         ensures={
             "C13.add.no_finished_attribute_list_survives": "no_keys(self._attribute_cache)",
             "C13.add.entry_is_listed": "len(self.all_entries) == len(old(self.all_entries)) + 1"
                                        " and self.all_entries[len(self.all_entries) - 1] is new_entry",
             "C13.add.entry_is_returned": "result is new_entry",
         })

# C13 "two schemas under one prefix ... is refused": a schema group is refused whenever two POSITIONS of the list carry the same prefix -
# also when both positions hold the very same schema object (load_schema_version hands out cached objects) - and is built otherwise
class_model("HedSchemaMember", {"_namespace": "Str", "source_format": "Str"})
class_model("HedSchemaGroupInit", {"_schemas": "Map[Str,HedSchemaMember]", "source_format": "Opt[Str]", "_name": "Str", "name": "Opaque"})
contract("C13.group_refuses_a_prefix_used_twice", file="hed/schema/hed_schema_group.py", func="HedSchemaGroup.__init__",
         params={"self": "HedSchemaGroupInit", "schema_list": "List[HedSchemaMember]", "name": "Str"}, returns=None, enc="native",
         self_class="HedSchemaGroupInit", modifies=["self._schemas", "self.source_format", "self._name"],
         raises={"HedFileError": "len(schema_list) == 0 or any(schema_list[i]._namespace == schema_list[j]._namespace"
                                 " for j in range(len(schema_list)) for i in range(j))"},
         ensures={
             "C13.group.every_member_reachable_by_its_prefix":
                 "all(schema_list[k]._namespace in self._schemas and self._schemas[schema_list[k]._namespace] is schema_list[k]"
                 " for k in range(len(schema_list)))",
             "C13.group.no_other_prefix_is_served":
                 "forall_str(lambda p: implies(p in self._schemas, any(schema_list[k]._namespace == p for k in range(len(schema_list)))))",
         },
         assume=["HedSchemaBase.__init__ (super().__init__()) sets no attribute the clauses read"])

# C13 "an annotation whose tags all carry prefix p is judged ... against p's schema": whatever FORMAT a schema is read from (XML, MediaWiki,
# TSV file or directory, URL), the object load_schema hands back carries the prefix asked for - every branch reaches set_schema_prefix
LOADED = ["a loader hands back a new schema object without prefix (HedSchema.__init__ sets _namespace = '')"]
for _cid, _file, _fn in (("file", "hed/schema/schema_io/base2schema.py", "SchemaLoader.load"),
                         ("tsv", "hed/schema/schema_io/df2schema.py", "SchemaLoaderDF.load_spreadsheet")):
    contract("C13.loader_" + _cid, file=_file, func=_fn, params={}, returns="HedSchemaNS", enc="native", trusted=True,
             ensures={"new_unprefixed": "fresh(result) and len(result._namespace) == 0"}, assume=LOADED)
contract("C13.loader_string", file="hed/schema/hed_schema_io.py", func="from_string", params={}, returns="HedSchemaNS", enc="native",
         trusted=True, ensures={"new_unprefixed": "fresh(result) and len(result._namespace) == 0"},
         assume=list(LOADED) + ["this summary is only valid for a call that passes no schema_namespace - its one call site in load_schema; "
                                "from_string sets the prefix itself when one is passed (proved from the body in conditional form: "
                                "C13.w13.schema_from_text_is_new_and_carries_the_prefix_asked_for)"])
contract("C13.loaded_schema_carries_the_prefix_asked_for", file="hed/schema/hed_schema_io.py", func="load_schema",
         params={"hed_path": "Str", "schema_namespace": "Opt[Str]", "schema": "Opaque", "name": "Opaque"}, returns="HedSchemaNS",
         enc="native", raises={"HedFileError": True},
         ensures={
             "C13.load.prefix_asked_for_is_set_in_every_format":
                 "implies(schema_namespace is not None and len(schema_namespace) > 0,"
                 " len(result._namespace) > 0 and result._namespace[len(result._namespace) - 1] == ':')",
             "C13.load.no_prefix_asked_none_set": "implies(schema_namespace is None or len(schema_namespace) == 0, len(result._namespace) == 0)",
         })
