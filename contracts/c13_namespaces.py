from pyvc.contract import contract

# C13: prefix extraction from the tag text
contract("C13.get_schema_namespace",
         file="hed/models/hed_tag.py", func="HedTag._get_schema_namespace",
         params={"org_tag": "Str"}, returns="Str", enc="array",
         ensures={
             # from the property: the namespace is the text up to and including the first ':' when that colon
             # comes before any '/', otherwise it is empty; it is always a prefix of the tag text
             "C13.ns.iff_colon_before_slash": "(len(result) > 0) == has_namespace_colon(org_tag)",
             "C13.ns.is_prefix": "org_tag.startswith(result)",
             "C13.ns.shape": "implies(len(result) > 0, result[len(result) - 1] == ':'"
                             " and all(result[j] != ':' and result[j] != '/' for j in range(len(result) - 1)))",
         },
         bounded={"org_tag": "str:a:/:6:8"})
