from pyvc.contract import contract, class_model

D = "hed/models/definition_dict.py"
class_model("DefinitionDict", {"defs": "Opaque"})

contract("C09.strip_value_placeholder", file=D, func="DefinitionDict._strip_value_placeholder",
         params={"self": "DefinitionDict", "def_tag_name": "Str"}, returns="Tuple[Str,Bool]", enc="native",
         ensures={"C09.name.takes_value_iff_hash_suffix": "result[1] == def_tag_name.endswith('/#')",
                  "C09.name.suffix_stripped": "def_tag_name == result[0] + ('/#' if result[1] else '')"},
         bounded={"def_tag_name": "str:a/#:5:7", "adapter": "rt.adapters.method_of_definition_dict"})

# (A contract for DefinitionDict._validate_placeholders - "exactly one '#' on a value-taking tag iff the name ends in '/#'" -
#  was attempted: its filtered-list counting invariant is not decided by z3/cvc5 within budget; the acceptance rules are
#  therefore left to the bounded workload rt/c09.py and are NOT claimed as proved.)
