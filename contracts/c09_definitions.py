from pyvc.contract import contract, class_model

D = "hed/models/definition_dict.py"
class_model("DefinitionDict", {"defs": "Opaque"})

contract("C09.strip_value_placeholder", file=D, func="DefinitionDict._strip_value_placeholder",
         params={"self": "DefinitionDict", "def_tag_name": "Str"}, returns="Tuple[Str,Bool]", enc="native",
         ensures={"C09.name.takes_value_iff_hash_suffix": "result[1] == def_tag_name.endswith('/#')",
                  "C09.name.suffix_stripped": "def_tag_name == result[0] + ('/#' if result[1] else '')"},
         bounded={"def_tag_name": "str:a/#:5:7", "adapter": "rt.adapters.method_of_definition_dict"})

# (A contract for DefinitionDict._validate_placeholders - "exactly one '#' on a value-taking tag iff the name ends in '/#'" -
#  was attempted: its filtered-list counting invariant is not decided by z3/cvc5 within budget; the acceptance rules are
#  therefore left to the bounded workload rt/c09.py and are NOT claimed as proved.)

DV = "hed/validator/def_validator.py"
class_model("DefEntry", {})
class_model("DefValidator", {"defs": "Map[Str,DefEntry]"})
contract("C09.get_definition", file="hed/models/definition_entry.py", func="DefinitionEntry.get_definition",
         params={"self": "DefEntry", "replace_tag": "HedTag", "placeholder_value": "Str", "return_copy_of_tag": "Bool"},
         returns="Opt[HedGroup]", enc="native", trusted=True, self_class="DefEntry",
         ensures={"named": "result == expansion_of(self, replace_tag, placeholder_value)"},
         assume=["DefinitionEntry.get_definition is a deterministic function of the entry, the tag and the value (its copy semantics "
                 "and placeholder substitution are exercised by the bounded workload)"])
contract("C09.group_sorted", file="hed/models/hed_group.py", func="HedGroup.sorted",
         params={"self": "HedGroup"}, returns="HedGroup", enc="native", trusted=True,
         ensures={"named": "result is canon_of(self)"},
         assume=["HedGroup.sorted() returns the canonical (recursively sorted) copy: canonical-form correctness is C04 / bounded"])
contract("C09.report_missing_or_invalid_value", file=DV, func="DefValidator._report_missing_or_invalid_value",
         params={"def_tag": "HedTag", "def_entry": "DefEntry", "is_def_expand_tag": "Bool"}, returns="List[Issue]", enc="native", trusted=True,
         ensures={"one": "len(result) == 1 and result[0].severity == 1"})

# C09: "validation accepts a Def-expand group exactly when its content equals that expansion up to sibling order"
contract("C09.validate_def_contents", file=DV, func="DefValidator._validate_def_contents",
         params={"self": "DefValidator", "def_tag": "HedTag", "def_expand_group": "HedGroup", "hed_validator": "Opaque"},
         returns="List[Issue]", enc="native", also=["C01", "C04"],     # "altered Def-expand" (C01), "up to sibling order" (C04)
         lets={"label": "def_tag.extension.partition('/')[0].casefold()", "value": "def_tag.extension.partition('/')[2]",
               "is_expand": "not struct_equal(def_expand_group, def_tag)"},
         ensures={
             "C09.defexpand.accepted_iff_equal_up_to_sibling_order":
                 "implies(label in self.defs and expansion_of(self.defs[label], def_tag, value) is not None and is_expand,"
                 " (len(result) == 0) == struct_equal(canon_of(def_expand_group), canon_of(expansion_of(self.defs[label], def_tag, value))))",
             "C09.defexpand.altered_content_code": "implies(label in self.defs and expansion_of(self.defs[label], def_tag, value) is not None and is_expand,"
                 " all_in(result, lambda x: x.code == 'DEF_EXPAND_INVALID' and x.severity == 1))",
             "C09.def.undeclared_name_reported": "implies(label not in self.defs, len(result) == 1 and result[0].severity == 1 and"
                                                 " result[0].code == ('DEF_EXPAND_INVALID' if is_expand else 'DEF_INVALID'))",
             "C09.def.plain_def_with_valid_value_is_silent": "implies(label in self.defs and expansion_of(self.defs[label], def_tag, value) is not None"
                                                             " and not is_expand, len(result) == 0)",
         })

# C09 "under arbitrary interleavings of expand, shrink, copy and validate on the same object": a copy owns its expansion state.
# HedTag.__deepcopy__ under an ownership contract over the raw attributes (allocation clock: fresh(x) <=> allocated by this call)
class_model("HedTagRaw", {"_parent": "Opt[HedGroup]", "_expandable": "Opt[HedGroup]", "_expanded": "Bool", "_hed_string": "Str",
                          "_schema": "Opaque", "_schema_entry": "Opaque", "span": "Opaque", "_tag": "Opt[Str]",
                          "_namespace": "Str", "_extension_value": "Str"})
contract("C09.tag_deepcopy", file="hed/models/hed_tag.py", func="HedTag.__deepcopy__",
         params={"self": "HedTagRaw", "memo": "Map[Int,HedTagRaw]"}, returns="HedTagRaw", enc="native",
         modifies=["memo"],
         ensures={
             "C09.copy.is_a_new_object": "implies(id(self) not in old(memo), fresh(result) and result is not self)",
             "C09.copy.memoised": "implies(id(self) in old(memo), result is old(memo)[id(self)])",
             "C09.copy.expansion_content_not_shared": "implies(id(self) not in old(memo) and self._expandable is not None"
                                                      " and id(self._expandable) not in old(memo), fresh(result._expandable))",
             "C09.copy.parent_not_shared": "implies(id(self) not in old(memo) and self._parent is not None"
                                           " and id(self._parent) not in old(memo), fresh(result._parent))",
             "C09.copy.none_stays_none": "implies(id(self) not in old(memo), (result._expandable is None) == (self._expandable is None)"
                                         " and (result._parent is None) == (self._parent is None))",
             "C09.copy.text_and_flag_kept": "implies(id(self) not in old(memo), result._expanded == self._expanded and"
                                            " result._hed_string == self._hed_string and result._extension_value == self._extension_value"
                                            " and result._namespace == self._namespace)",
             "C09.copy.registered_in_memo": "implies(id(self) not in old(memo), id(self) in memo and memo[id(self)] is result)",
         },
         assume=["copy.deepcopy modelled: memo hit returns the memo entry, otherwise an object allocated by the call; class model HedTagRaw "
                 "lists the attributes the clauses speak about (__dict__.update copies every modelled attribute)"])

class_model("HedGroupRaw", {"_parent": "Opt[HedGroupRaw]"})
contract("C09.group_copy", file="hed/models/hed_group.py", func="HedGroup.copy",
         params={"self": "HedGroupRaw"}, returns="HedGroupRaw", enc="native", modifies=["self._parent"],
         ensures={
             "C09.copy.group_copy_is_new": "fresh(result) and result is not self",
             "C09.copy.original_keeps_its_parent": "self._parent == old(self._parent)",
         },
         assume=["copy.deepcopy modelled as an allocation (the copied content is exercised by the bounded workload)"])

# C09 "a duplicate name is reported and ignored": merging definition sources keeps the entry accepted first
class_model("DefEntrySrc", {"source_context": "Opaque"})
class_model("DefinitionDictM", {"defs": "Map[Str,DefEntrySrc]", "_issues": "List[Issue]"})
contract("C09.add_definition", file=D, func="DefinitionDict._add_definition",
         params={"self": "DefinitionDictM", "def_tag": "Str", "def_value": "DefEntrySrc"}, returns=None, enc="native",
         modifies=["self.defs", "self._issues"],
         ensures={
             "C09.duplicate.first_entry_kept": "implies(def_tag in old(self.defs), same_keys(self.defs, old(self.defs))"
                                               " and forall_str(lambda k: implies(k in old(self.defs), self.defs[k] is old(self.defs)[k])))",
             "C09.duplicate.reported_once": "implies(def_tag in old(self.defs), len(self._issues) == len(old(self._issues)) + 1"
                                            " and self._issues[len(self._issues) - 1].kind == 'duplicateDefinition' and self._issues[len(self._issues) - 1].code == 'DEFINITION_INVALID'"
                                            " and self._issues[len(self._issues) - 1].severity == 1)",
             "C09.new_name.added_and_nothing_else_changes": "implies(def_tag not in old(self.defs), map_eq_except_add(self.defs, old(self.defs), def_tag)"
                                                            " and self.defs[def_tag] is def_value and len(self._issues) == len(old(self._issues))"
                                                            " and forall_str(lambda k: implies(k in old(self.defs), self.defs[k] is old(self.defs)[k])))",
             "C09.issues.earlier_issues_kept": "all(self._issues[k] is old(self._issues)[k] for k in range(len(old(self._issues))))",
         })

# C09 acceptance rule: "exactly one '#' on a value-taking tag if and only if its name ends in '/#'" - over ALL tags of the content, at any depth.
# Proved: the rejection directions below and the loop invariants (the listed '#' tags are exactly the '#' tags of get_all_tags(), their
# number is n_hash_tags).  NOT decided within budget on two paths each and therefore not claimed (bounded workload rt/c09 'placeholder depth'
# decides them): "a wrong number of '#' tags is rejected" and "one '#' on a value-taking tag at any depth is accepted".
NH = "(lambda t: count_of(t.__str__, '#'))"
TAGS = "all_tags_of(group)"
contract("C09.all_tags_for_placeholders", file="hed/models/hed_group.py", func="HedGroup.get_all_tags",
         params={"self": "HedGroup"}, returns="List[HedTag]", enc="native", trusted=True,
         ensures={"named": "result == all_tags_of(self)"})
contract("C09.direct_tags", file="hed/models/hed_group.py", func="HedGroup.tags",
         params={"self": "HedGroup"}, returns="List[HedTag]", enc="native", trusted=True,
         ensures={"named": "result == direct_tags_of(self)"},
         assume=["HedGroup.tags() (direct children only) is some list direct_tags_of(group), unrelated to all_tags_of(group) as far as the proof knows"])
contract("C09.validate_placeholders", file=D, func="DefinitionDict._validate_placeholders",
         params={"self": "Opaque", "def_tag_name": "Str", "group": "HedGroup", "def_takes_value": "Bool", "error_handler": "Opaque"},
         returns="List[Issue]", enc="native", also=["C08"],
         locals={"placeholder_tags": "List[HedTag]", "tags_with_issues": "List[HedTag]"},
         requires=["group.__bool__ or len(all_tags_of(group)) == 0"],        # a group without children has no tags
         lets={"T": TAGS, "want": "(1 if def_takes_value else 0)"},
         ensures={
             "C09.placeholder.tag_with_two_hashes_rejected": "implies(any(" + NH + "(T[k]) > 1 for k in range(len(T))), len(result) > 0)",
             "C09.placeholder.hash_on_non_value_tag_rejected": "implies(def_takes_value and n_hash_tags(T, len(T)) == 1 and"
                 " any(" + NH + "(T[k]) > 0 and not has_attr(T[k], 'takesValue') for k in range(len(T))), len(result) > 0)",
             "C09.placeholder.issues_are_definition_errors": "all_in(result, lambda x: x.code == 'DEFINITION_INVALID' and x.severity == 1)",
         },
         loops={0: {"invariant": [
             "len(placeholder_tags) == n_hash_tags(_iter0, _n)",
             "all_in(placeholder_tags, lambda t: is_in(t, _iter0) and " + NH + "(t) > 0)",
             "all(implies(" + NH + "(_iter0[k]) > 0, is_in(_iter0[k], placeholder_tags)) for k in range(_n))",
             "(len(tags_with_issues) > 0) == any(" + NH + "(_iter0[k]) > 1 for k in range(_n))",
         ]}})

# C09 "expanding replaces each Def by its Def-expand group ... shrinking restores the original" under EVERY schema configuration: the
# Def <-> Def-expand switch re-identifies the tag by name in the schema the tag belongs to, under the tag's OWN namespace prefix (a look-up
# without the prefix finds nothing in a schema loaded under a prefix, and the tag silently loses its entry)
from pyvc.contract import EXTERNS as _EX09
try:
    import z3 as _z09
    from pyvc.vals import SV as _SV09, TOpt as _TOpt09, TRef as _TRef09, BOOL as _B09, sort_of as _so09

    def _named_entry(interp, args, kwargs):
        """uninterpreted function of (schema, name, prefix): what the schema's get_tag_entry answers"""
        ty = _TOpt09(_TRef09("TagEntry"))
        fn = _z09.Function("named_entry", _z09.IntSort(), _z09.StringSort(), _z09.StringSort(), _so09(ty))
        sch = args[0]
        ref = _so09(sch.ty).val(sch.t) if sch.ty.name == "Opt" else sch.t      # (an Opt[...] schema: the clause guards 'is not None')
        return _SV09(ty, fn(ref, interp.ctx.strs.to_native(args[1]), interp.ctx.strs.to_native(args[2])))
    _EX09["named_entry"] = _named_entry
    _EX09["takes_value_view"] = lambda interp, args, kwargs: _SV09(_B09, _z09.Function("takes_value_view", _z09.IntSort(), _z09.BoolSort())(args[0].t))
    _EX09["HedTagIdent.is_takes_value_tag"] = _EX09["takes_value_view"]
except ImportError:
    pass
contract("C09.schema_get_tag_entry", file="hed/schema/hed_schema.py", func="HedSchema.get_tag_entry",
         params={"self": "SchemaAny", "name": "Str", "key_class": "Opaque", "schema_namespace": "Str"}, returns="Opt[TagEntry]",
         enc="native", trusted=True, self_class="SchemaAny",
         ensures={"named": "result == named_entry(self, name, schema_namespace)"},
         assume=["get_tag_entry of a schema or schema group is a deterministic function of (schema, name, prefix) - its rule is C13.*get_tag_entry"])
contract("C09.base_tag_switch_keeps_the_namespace", file="hed/models/hed_tag.py", func="HedTag.short_base_tag#1",
         params={"self": "HedTagIdent", "new_tag_val": "Str"}, returns=None, enc="native", self_class="HedTagIdent", also=["C13"],
         modifies=["self._schema_entry"],
         raises={"ValueError": "self._schema_entry is None"},
         ensures={
             "C09.switch.entry_asked_under_the_tags_own_prefix":
                 "implies(self._schema is not None, self._schema_entry == named_entry(self._schema,"
                 " new_tag_val + '/#' if takes_value_view(self) else new_tag_val, self.schema_namespace))",
             "C09.switch.no_schema_no_entry": "implies(self._schema is None, self._schema_entry is None)",
         },
         assume=["a TagEntry is truthy (HedSchemaEntry defines neither __bool__ nor __len__)"])
