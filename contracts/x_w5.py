"""Contracts of writer w5: schema readers/writers (C05), issue construction / ordering / export (C12), group-level orchestration (C01/C04)."""
from pyvc.contract import contract, class_model, EXTERNS, CLASSES

W2S = "hed/schema/schema_io/wiki2schema.py"
X2S = "hed/schema/schema_io/xml2schema.py"
B2S = "hed/schema/schema_io/base2schema.py"
S2B = "hed/schema/schema_io/schema2base.py"
DFU = "hed/schema/schema_io/df_util.py"
TXU = "hed/schema/schema_io/text_util.py"
ER = "hed/errors/error_reporter.py"
GU = "hed/validator/util/group_util.py"
HV = "hed/validator/hed_validator.py"



# Constants of OTHER repository modules reached as <module>.<NAME> (xml_constants.PROLOGUE_ELEMENT ...) or imported by name: the engine resolves
# constants of the function's own module only.  They are read here from the working tree (HED_REPO honoured) on every load by literal
# evaluation of the module's top-level assignments - nothing is copied by hand - and handed to the engine as class-level constants of a
# pseudo class named like the module.
def _module_consts_w5(rel, classes=None):
    import ast
    import os
    from pyvc import REPO
    with open(os.path.join(REPO, rel), encoding="utf-8") as f:
        tree = ast.parse(f.read())
    out = {}

    def lit(n, env):
        if isinstance(n, ast.Constant):
            return n.value
        if isinstance(n, ast.Name) and n.id in env:
            return env[n.id]
        if isinstance(n, ast.JoinedStr):
            parts = []
            for v in n.values:
                if isinstance(v, ast.Constant):
                    parts.append(v.value)
                elif isinstance(v, ast.FormattedValue) and v.conversion == -1 and v.format_spec is None:
                    parts.append(str(lit(v.value, env)))
                else:
                    raise ValueError
            return "".join(parts)
        if isinstance(n, ast.Attribute) and isinstance(n.value, ast.Name) and classes and n.value.id in classes and n.attr in classes[n.value.id]:
            return classes[n.value.id][n.attr]
        if isinstance(n, (ast.List, ast.Tuple)):
            return [lit(e, env) for e in n.elts]
        if isinstance(n, ast.Dict):
            return {lit(k, env): lit(v, env) for k, v in zip(n.keys, n.values)}
        raise ValueError

    def scan(body, env):
        for st in body:
            if isinstance(st, ast.Assign) and len(st.targets) == 1 and isinstance(st.targets[0], ast.Name):
                try:
                    env[st.targets[0].id] = lit(st.value, env)
                except (ValueError, TypeError):
                    pass
    scan(tree.body, out)
    cls = {}
    for st in tree.body:
        if isinstance(st, ast.ClassDef):
            cls[st.name] = {}
            scan(st.body, cls[st.name])
    return out, cls


def _const_cell_w5(v):
    from pyvc.vals import Cell
    if isinstance(v, dict):
        return Cell("dict", conc={k: _const_cell_w5(x) for k, x in v.items()}, fresh=False, origin="constant")
    if isinstance(v, list):
        return Cell("list", conc=[_const_cell_w5(x) for x in v], fresh=False, origin="constant")
    return v


def _register_module_w5(alias, rel, classes=None, by_name=()):
    consts, own_classes = _module_consts_w5(rel, classes)
    try:
        from pyvc.vals import ClassRef
    except ImportError:            # concrete side: the constants are still needed for the contract texts
        return consts
    EXTERNS[alias] = ClassRef(alias)
    for k in own_classes:
        EXTERNS[f"{alias}.{k}"] = ClassRef(k)       # <module>.<Class> stays the class it is
    for k, v in consts.items():
        if isinstance(v, (str, int, bool)):
            EXTERNS[f"{alias}.{k}"] = v
        elif isinstance(v, (dict, list)) and all(isinstance(x, (str, int)) for x in (v.values() if isinstance(v, dict) else v)):
            EXTERNS[f"{alias}.{k}"] = _const_cell_w5(v)        # read-only constant tables
    for k in by_name:
        EXTERNS[k] = consts[k]
    return consts


_, _HSC_CLASSES = _module_consts_w5("hed/schema/hed_schema_constants.py")
XMLC = _register_module_w5("xml_constants", "hed/schema/schema_io/xml_constants.py", _HSC_CLASSES)
HSC = _register_module_w5("hed_schema_constants", "hed/schema/hed_schema_constants.py", None, by_name=("NS_ATTRIB", "NO_LOC_ATTRIB"))

# ------------------------------------------------------------------------------------------------------------------ C05 mediawiki reader
# C05 "saving to ... MediaWiki ... and loading the result gives a schema equal to the original": the hierarchy of the tag section is carried
# ONLY by the number of leading asterisks of a line; the level read back is exactly that number (a line without asterisk is level 1)
contract("C05.wiki_tag_level_is_the_number_of_leading_asterisks", file=W2S, func="SchemaLoaderWiki._get_tag_level",
         params={"row": "Str"}, returns="Int", enc="array",
         raises={"IndexError": "all(row[k] == '*' for k in range(len(row)))"},
         ensures={
             "C05.wiki.level_counts_the_leading_asterisks":
                 "implies(row[0] == '*', 1 <= result and result < len(row) and row[result] != '*' and all(row[k] == '*' for k in range(result)))",
             "C05.wiki.line_without_asterisk_is_level_one": "implies(row[0] != '*', result == 1)",
         },
         loops={0: {"invariant": ["0 <= count", "count <= len(row)", "all(row[k] == '*' for k in range(count))"]}},
         assume=["(finding, not covered by the property) a line made only of asterisks escapes as IndexError instead of a schema error"])

# C05 "descriptions containing '=', quotes or non-ASCII text" / "attribute values with several entries" survive the MediaWiki format: the
# attribute block {..} and the description block [..] read from a line are EXACTLY the text between the delimiters (nothing trimmed, nothing
# of the delimiters kept), a line without the block gives the empty text (and the scan position stays), unbalanced delimiters are refused
DELIMS = "((start_delim == '[' and end_delim == ']') or (start_delim == '{' and end_delim == '}'))"
contract("C05.wiki_line_block_is_the_text_between_its_delimiters", file=W2S, func="SchemaLoaderWiki._get_line_section",
         params={"row": "Str", "starting_index": "Int", "start_delim": "Str", "end_delim": "Str"}, returns="Tuple[Opt[Str],Int]", enc="native",
         requires=["0 <= starting_index", "starting_index <= len(row)", DELIMS],
         lets={"n1": "count_of(row, start_delim)", "n2": "count_of(row, end_delim)", "tail": "row[starting_index:]",
               "a": "row[starting_index:].find(start_delim)", "b": "row[starting_index:].find(end_delim)"},
         ensures={
             # (n1 == n2 == 1: the first delimiter after the scan position is THE delimiter of the line)
             "C05.wiki.block_is_exactly_the_text_between_the_delimiters":
                 "implies(n1 == 1 and n2 == 1 and 0 <= a and a < b, result[0] == tail[a + 1:b] and result[1] == starting_index + b)",
             "C05.wiki.no_block_gives_the_empty_text_and_keeps_the_position":
                 # (a == -1 and b == -1 follow from n1 == n2 == 0; spelled out because the string solvers need seconds to derive it)
                 "implies(n1 == 0 and n2 == 0 and a == -1 and b == -1, result[0] == '' and result[1] == starting_index)",
             "C05.wiki.unbalanced_or_repeated_delimiters_are_refused": "implies(n1 != n2 or n1 > 1, result[0] is None)",
             "C05.wiki.closing_before_opening_is_refused": "implies(n1 == n2 and n1 <= 1 and b < a, result[0] is None)",
         })

# ------------------------------------------------------------------------------------------------------------------ C05 XML reader
try:
    import z3 as _z3_w5                  # noqa: F401  (the solver side; absent under /venv/bin/python)
    from contracts.extern_fs import _ulist as _ulist_w5, _entry_has_attribute as _eha_w5
except ImportError:                      # concrete side: only the contract texts are needed
    _ulist_w5 = _eha_w5 = None
class_model("XmlElemW5", {"text": "Opt[Str]", "tag": "Str"})
class_model("SchemaLoaderXMLW5", {"name": "Opaque", "_root_element": "Opaque"})


def _elements_by_name_w5(interp, args, kwargs):
    """SchemaLoaderXML._get_elements_by_name(name) without parent element: root.findall('.//name') - a deterministic function of the
    parsed document and the element name (ElementTree, trusted)"""
    name = args[1] if len(args) > 1 else kwargs.get("element_name", "node")
    if len(args) > 2 or "parent_element" in kwargs:
        from pyvc.vals import Unsupported
        raise Unsupported("_get_elements_by_name with a parent element")
    return _ulist_w5("xml_elements_named", 2, "XmlElemW5")(interp, [args[0], name], {})


if _ulist_w5 is not None:
    EXTERNS["xml_elements_named"] = _ulist_w5("xml_elements_named", 2, "XmlElemW5")
    EXTERNS["SchemaLoaderXMLW5._get_elements_by_name"] = _elements_by_name_w5
XML_TRUST = ["ElementTree: root.findall('.//name') is a deterministic function of the parsed document and the element name "
             "(xml_elements_named; only the form without parent element is summarised)"]
# C05 "the saved XML ... lists exactly the original ... descriptions" / round trip of prologue and epilogue: the text read is the text of THE
# prologue (epilogue) element; a file without the element gives the EMPTY text, never text from elsewhere
for _what in ("prologue", "epilogue"):
    contract(f"C05.xml_{_what}_is_the_text_of_its_own_element", file=X2S, func=f"SchemaLoaderXML._read_{_what}",
             params={"self": "SchemaLoaderXMLW5"}, returns="Opt[Str]", enc="native", self_class="SchemaLoaderXMLW5",
             lets={"E": f"xml_elements_named(self, '{_what}')"},
             ensures={
                 f"C05.xml.{_what}_text_is_that_of_the_single_{_what}_element": "implies(len(E) == 1, result == E[0].text)",
                 f"C05.xml.no_{_what}_element_gives_the_empty_text": "implies(len(E) == 0, result == '')",
                 f"C05.xml.several_{_what}_elements_give_the_empty_text": "implies(len(E) > 1, result == '')",
             }, assume=XML_TRUST)


def _xml_find_w5(interp, args, kwargs):
    """Element.find(name): the first direct child with that element name or None - a deterministic function of (element, name)"""
    import z3
    from pyvc.vals import SV, TOpt, TRef, sort_of
    ty = TOpt(TRef("XmlElemW5"))
    f = z3.Function("xml_child_named", z3.IntSort(), z3.StringSort(), sort_of(ty))
    nm = args[1]
    return SV(ty, f(args[0].t, z3.StringVal(nm) if isinstance(nm, str) else interp.ctx.strs.to_native(nm)))


if _ulist_w5 is not None:
    EXTERNS["XmlElemW5.find"] = _xml_find_w5
    EXTERNS["xml_child_named"] = _xml_find_w5
# C05 "lists exactly the original nodes, attributes, values and descriptions": the name / description / value text of a node is the text of
# ITS OWN child element of that name - verbatim; a node without such a child gives the empty text; an empty child element is refused
contract("C05.xml_element_value_is_the_text_of_its_own_child", file=X2S, func="SchemaLoaderXML._get_element_tag_value",
         params={"self": "SchemaLoaderXMLW5", "element": "XmlElemW5", "tag_name": "Str"}, returns="Opt[Str]", enc="native",
         self_class="SchemaLoaderXMLW5",
         lets={"child": "xml_child_named(element, tag_name)"},
         raises={"HedFileError": "xml_child_named(element, tag_name) is not None and xml_child_named(element, tag_name).text is None"
                                 " and tag_name != 'units'"},
         ensures={
             "C05.xml.value_is_the_child_text_verbatim": "implies(child is not None, result == child.text)",
             "C05.xml.no_child_gives_the_empty_text": "implies(child is None, result == '')",
         },
         assume=["ElementTree: element.find(name) is a deterministic function of the element and the name (xml_child_named)"])

# C05 "saving ... and loading the result gives a schema equal to the original" for the HEADER: every header attribute of the XML root is taken
# over verbatim under its own name; only the schema-location attribute (which ElementTree reports under its expanded namespace name) is
# kept under the two names the writers use; nothing else appears
XSD = repr(XMLC.get("NO_NAMESPACE_XSD_KEY", "")) if XMLC else "''"
NS, NOLOC, XSI = (repr(HSC.get("NS_ATTRIB")), repr(HSC.get("NO_LOC_ATTRIB")), repr(XMLC.get("XSI_SOURCE"))) if XMLC else ("''", "''", "''")
contract("C05.xml_header_attributes_taken_over_verbatim", file=X2S, func="SchemaLoaderXML._reformat_xsd_attrib",
         params={"self": "SchemaLoaderXMLW5", "attrib_dict": "Map[Str,Str]"}, returns="Map[Str,Str]", enc="native", self_class="SchemaLoaderXMLW5",
         locals={"final_attrib": "Map[Str,Str]"},
         requires=[f"implies({XSD} in attrib_dict, {NS} not in attrib_dict and {NOLOC} not in attrib_dict)"],
         ensures={
             "C05.xml.every_header_attribute_kept_with_its_value":
                 f"forall_str(lambda k: implies(k in attrib_dict and k != {XSD}, k in result and result[k] == attrib_dict[k]))",
             "C05.xml.schema_location_kept_under_the_names_the_writers_use":
                 f"implies({XSD} in attrib_dict, {NS} in result and result[{NS}] == {XSI} and {NOLOC} in result and result[{NOLOC}] == attrib_dict[{XSD}])",
             "C05.xml.no_header_attribute_invented":
                 f"forall_str(lambda k: implies(k in result, (k in attrib_dict and k != {XSD}) or ({XSD} in attrib_dict and (k == {NS} or k == {NOLOC}))))",
         },
         loops={0: {"invariant": [
             f"all(implies(attrib_dict.items()[j][0] != {XSD}, attrib_dict.items()[j][0] in final_attrib and final_attrib[attrib_dict.items()[j][0]] == attrib_dict[attrib_dict.items()[j][0]]) for j in range(_n))",
             f"implies(any(attrib_dict.items()[j][0] == {XSD} for j in range(_n)), {NS} in final_attrib and final_attrib[{NS}] == {XSI}"
             f" and {NOLOC} in final_attrib and final_attrib[{NOLOC}] == attrib_dict[{XSD}])",
             f"forall_str(lambda k: implies(k in final_attrib, (k in attrib_dict and k != {XSD}) or ({XSD} in attrib_dict and (k == {NS} or k == {NOLOC}))))",
         ]}},
         assume=["(precondition) a parsed XML root never has attributes literally named 'xmlns:xsi' / 'xsi:noNamespaceSchemaLocation' next to the "
                 "expanded schema-location attribute: ElementTree consumes namespace declarations and expands prefixed names"])

# ------------------------------------------------------------------------------------------------------------------ C05 TSV writer / reader helpers
# C05 "saving to ... TSV ... and loading the result gives a schema equal to the original": the TSV format files a schema attribute under one
# of three sheets by its kind; the kind is 'annotation' exactly for annotation properties, else 'object' exactly when the attribute ranges
# over tags / units / unit classes / value classes, else 'data'
RANGES = ["tagRange", "unitRange", "unitClassRange", "valueClassRange"]
ANY_RANGE = " or ".join(f"'{r}' in attribute_entry.attributes" for r in RANGES)
contract("C05.attribute_kind_decides_its_sheet", file=DFU, func="calculate_attribute_type",
         params={"attribute_entry": "SaveEntry"}, returns="Str", enc="native",
         ensures={
             "C05.tsv.annotation_property_is_annotation": "implies('annotationProperty' in attribute_entry.attributes, result == 'annotation')",
             "C05.tsv.object_range_is_object": f"implies('annotationProperty' not in attribute_entry.attributes and ({ANY_RANGE}), result == 'object')",
             "C05.tsv.everything_else_is_data": f"implies('annotationProperty' not in attribute_entry.attributes and not ({ANY_RANGE}), result == 'data')",
         })


# C05 "descriptions containing '=', quotes or non-ASCII text" / "values" survive the TSV format: a cell is text and nothing else.  The library
# calls that read and write the sheets carry that meaning in their keyword arguments - tab separated, every column read as text (dtype=str),
# no cell turned into a missing value ('NA', 'None', 'null' are legal names: na_filter=False), quote characters are ordinary characters
# (quoting=csv.QUOTE_NONE), no index column, a header line, '\n' line ends
def _kw_fact_w5(interp, call, kw, ok, found):
    import z3
    interp.ctx.oblige("call-pre", f"{call}.{kw}", z3.BoolVal(bool(ok)), top=True,
                      info={"callee": call, "clause": f"{call}(..., {kw}=...) must keep every cell as the text it is; found {found!r}"})


_read_csv_before_w5 = None


def _read_csv_w5(interp, args, kwargs):
    """pd.read_csv(...): an unmodelled table; when the contract under verification counts the reads (ghost csv_reads), the keyword
    arguments that decide whether cells come back as their text are obligations of the call"""
    from pyvc.vals import Opaque, SV, INT
    g = interp.ctx.ghost
    if "csv_reads" in g:
        name = lambda v: getattr(v, "name", None)
        _kw_fact_w5(interp, "read_csv", "sep", kwargs.get("sep") == "\t", kwargs.get("sep"))
        _kw_fact_w5(interp, "read_csv", "dtype", name(kwargs.get("dtype")) == "str", kwargs.get("dtype"))
        _kw_fact_w5(interp, "read_csv", "na_filter", kwargs.get("na_filter") is False or kwargs.get("keep_default_na") is False, kwargs.get("na_filter"))
        _kw_fact_w5(interp, "read_csv", "quoting", name(kwargs.get("quoting")) == "csv.QUOTE_NONE" or kwargs.get("quoting") == 3, kwargs.get("quoting"))
        g["csv_reads"] = SV(INT, interp.ctx.term(g["csv_reads"], INT) + 1)
    elif _read_csv_before_w5 is not None:
        return _read_csv_before_w5(interp, args, kwargs)       # every other contract: the model that was registered before (C18)
    return Opaque("pd.read_csv()", fresh=True)


if _ulist_w5 is not None:
    from pyvc.vals import ClassRef as _ClassRefW5
    _read_csv_before_w5 = EXTERNS.get("pd.read_csv")
    EXTERNS["pd.read_csv"] = _read_csv_w5
    EXTERNS["csv"] = _ClassRefW5("csv")
    for _k, _v in (("QUOTE_MINIMAL", 0), ("QUOTE_ALL", 1), ("QUOTE_NONNUMERIC", 2), ("QUOTE_NONE", 3)):
        EXTERNS["csv." + _k] = _v            # the values of the standard-library constants
PANDAS = ["pandas: read_csv(sep='\\t', dtype=str, na_filter=False, quoting=QUOTE_NONE) returns every cell as the text between two tabs; "
          "to_csv(sep='\\t', index=False, header=True, quoting=QUOTE_NONE, lineterminator='\\n') writes every cell text as it is",
          "loops explored as one arbitrary iteration from a havocked state (the obligations are about each call separately)"]
for _fn, _ps in (("convert_filenames_to_dict", {"filenames": "Opaque", "include_prefix_dfs": "Opaque"}), ("create_empty_dataframes", {})):
    contract("C05.w5." + _fn, file=DFU, func=_fn, params=_ps, returns="Opaque", enc="native", trusted=True, ensures={},
             assume=[_fn + " hands back a dictionary (suffix -> file name / empty sheet); nothing about its content is used"])
contract("C05.tsv_sheets_read_as_text", file=DFU, func="load_dataframes",
         params={"filenames": "Opaque", "include_prefix_dfs": "Opaque"}, returns="Opaque", enc="native", unwind="havoc",
         raises={"HedFileError": "True"}, ghost={"init": {"csv_reads": "0"}, "no_frame": True}, ensures={},
         modifies=["havoc:dataframes"],      # the function's own dictionary (the havoc exploration forgets that it is local)
         assume=PANDAS)
contract("C05.tsv_sheets_written_as_text", file=DFU, func="save_dataframes",
         params={"base_filename": "Str", "dataframe_dict": "Opaque"}, returns="Opaque", enc="native", unwind="havoc",
         ghost={"call_requires": {"to_csv": {"sep": ["\t"], "index": [False], "header": [True], "quoting": [3], "lineterminator": ["\n"]}},
                "no_frame": True},
         ensures={}, assume=PANDAS)
contract("C05.tsv_texts_read_as_text", file="hed/schema/schema_io/df2schema.py", func="load_dataframes_from_strings",
         params={"schema_data": "Map[Str,Str]"}, returns="Opaque", enc="native", unwind="havoc",
         ghost={"init": {"csv_reads": "0"}, "no_frame": True}, ensures={}, assume=PANDAS + ["only the text form of the sheets is covered"])


# ------------------------------------------------------------------------------------------------------------------ iteration independence
# C05 "every ... node, unit, class, attribute, value and description" is written / read on its own: for the loops below no value computed for
# one entry (row, element, attribute, value) reaches a later one, the output is only extended, no entry is skipped by a break - decided by
# the def-before-use analysis of the real loop bodies (pyvc/dataflow.py).  Loops that carry state between iterations BY DESIGN are not
# claimed: Schema2Base._output_tags (depth offset of a rooted subtree), SchemaLoaderWiki._read_schema / _read_unit_classes /
# _split_lines_into_sections (current parent chain / unit class / section), SchemaLoaderDF._read_schema (parents known so far).
# C12: every value of an issue is replaced / printed on its own.
IND_W5 = {"dataflow_only": True, "no_frame": True}
S2X = "hed/schema/schema_io/schema2xml.py"
S2D = "hed/schema/schema_io/schema2df.py"
D2S = "hed/schema/schema_io/df2schema.py"
TABLE_W5 = [
    ("C05.xml_attributes_each_written", S2X, "Schema2XML._add_tag_node_attributes", {0: [], 1: []}),
    ("C05.text_attributes_each_formatted", S2B, "Schema2Base._format_tag_attributes", {0: ["final_props"], 1: ["final_props"]}),
    ("C05.tsv_attribute_axioms_each_attribute", S2D, "Schema2DF._process_attributes", {0: ["attribute_strings"]}),
    ("C05.tsv_header_axioms_each_attribute", S2D, "Schema2DF._get_header_equivalent_to", {0: ["attribute_strings"]}),
    ("C05.xml_nodes_each_read", X2S, "SchemaLoaderXML._add_tags_recursive", {0: []}),
    ("C05.xml_section_entries_each_read", X2S, "SchemaLoaderXML._populate_section", {0: []}),
    ("C05.xml_unit_classes_and_units_each_read", X2S, "SchemaLoaderXML._populate_unit_class_dictionaries", {0: [], 1: []}),
    ("C05.xml_node_attributes_each_read", X2S, "SchemaLoaderXML._parse_node", {0: []}),
    ("C05.xml_sections_each_parsed", X2S, "SchemaLoaderXML._parse_sections", {0: []}),
    ("C05.wiki_section_lines_each_read", W2S, "SchemaLoaderWiki._read_section", {0: []}),
    ("C05.wiki_sections_each_parsed", W2S, "SchemaLoaderWiki._parse_sections", {0: []}),
    ("C05.wiki_entry_attributes_each_set", W2S, "SchemaLoaderWiki._create_entry", {0: []}),
    ("C05.wiki_old_header_pairs_each_read", W2S, "SchemaLoaderWiki._get_header_attributes_internal_old", {0: ["final_attributes"]}),
    ("C05.tsv_section_rows_each_read", D2S, "SchemaLoaderDF._read_section", {0: []}),
    ("C05.tsv_unit_rows_each_read", D2S, "SchemaLoaderDF._read_units", {0: []}),
    ("C05.tsv_attribute_rows_each_read", D2S, "SchemaLoaderDF._read_attribute_section", {0: []}),
    ("C05.tsv_entry_attributes_each_set", D2S, "SchemaLoaderDF._create_entry", {0: []}),
    ("C05.tsv_sheets_each_saved", DFU, "save_dataframes", {0: []}),
    ("C05.tsv_file_names_each_suffix", DFU, "convert_filenames_to_dict", {0: ["result_filenames"], 1: ["result_filenames"], 2: ["result_filenames"]}),
    ("C12.references_each_value_replaced", ER, "replace_tag_references", {0: ["list_or_dict"], 1: ["list_or_dict"]}),
    ("C12.context_each_key_collected", ER, "_get_context_from_issue", {0: ["single_issue_context"]}),
    ("C12.printed_each_issue_and_context", ER, "_error_dict_to_string", {0: ["output"], 1: ["output"]}),
    ("C12.sort_key_each_context_kind", ER, "sort_issues._get_keys", {0: ["result"]}),
]
for _cid, _f, _fn, _loops in TABLE_W5:
    contract(_cid, file=_f, func=_fn, params={}, returns="Opaque", enc="native",
             ghost=dict(IND_W5, independent_iterations=_loops, not_at_call_sites=True), ensures={})

# ------------------------------------------------------------------------------------------------------------------ C05/C13 partnered loading
# C13 "a library schema partnered with a standard schema contains every standard tag with unchanged meaning plus its own tags" / C05 "unmerged
# ... loading the result gives a schema equal to the original": a partnered library read from its UNMERGED file is built on a COPY of the
# standard schema - the object load_schema_version hands out is the shared cached one and is never written - and the copy carries the header
# attributes, the file name, the name and the source format of the FILE being read; every other file is parsed into the loader's own schema
class_model("HeaderAttrsW5", {})
class_model("SchemaW5", {"with_standard": "Str", "merged": "Bool", "header_attributes": "HeaderAttrsW5", "source_format": "Str",
                         "filename": "Opt[Str]", "name": "Opt[Str]", "__str__": "Str"})
class_model("SchemaLoaderW5", {"_schema": "SchemaW5", "appending_to_schema": "Bool", "_loading_merged": "Bool", "filename": "Opt[Str]",
                               "name": "Opt[Str]", "library": "Str"})


def _load_schema_version_w5(interp, args, kwargs):
    """load_schema_version(v): the cached schema of that version - an object that EXISTED before the call (shared with every other user
    of the cache); may raise HedFileError"""
    import z3
    from pyvc.vals import SV, TRef
    ctx = interp.ctx
    g = ctx.ghost
    if "g_cached_loads" not in g:        # any other contract: the unmodelled call it always was
        return interp.opaque_call("load_schema_version", args, kwargs)
    from pyvc.core import BIRTH
    r = SV(TRef("SchemaW5"), z3.Int(ctx.fresh_name("cached_schema")))
    ctx.assume(BIRTH(r.t) < ctx.now)     # the cache entry exists when the call returns (possibly since before this call)
    if interp.engine.exception_expected(ctx, "HedFileError"):
        ctx.may_raise(z3.Bool(ctx.fresh_name("version_missing")), "HedFileError", "load_schema_version")
    g["g_cached"] = r
    g["g_cached_loads"] = g.get("g_cached_loads", 0) + 1
    g["g_asked_version"] = args[0]
    return r


def _count_w5(name):
    def f(interp, args, kwargs):
        g = interp.ctx.ghost
        g[name] = g.get(name, 0) + 1
        g[name + "_on"] = args[0]
        return None
    return f


if _ulist_w5 is not None:
    EXTERNS["load_schema_version"] = _load_schema_version_w5
    EXTERNS["SchemaLoaderW5._parse_data"] = _count_w5("g_parsed")
    EXTERNS["SchemaW5.finalize_dictionaries"] = _count_w5("g_finalized")
PARTNERED = "(not old(self.appending_to_schema) and len(old(self._schema.with_standard)) > 0 and not old(self._schema.merged))"
contract("C13.partnered_library_is_built_on_a_copy_of_the_standard_schema", file=B2S, func="SchemaLoader._load",
         params={"self": "SchemaLoaderW5"}, returns="SchemaW5", enc="native", self_class="SchemaLoaderW5", prop="C13", also=["C05"],
         # "obj" = an object reached through a field (self._schema after it was replaced by the copy): the write is admitted syntactically,
         # the heap frame at exit still demands that every object that existed at entry - the cached schema too - is unchanged
         modifies=["self._schema", "self._loading_merged", "obj"], raises={"HedFileError": "True"},
         ghost={"init": {"g_cached_loads": "0", "g_parsed": "0", "g_finalized": "0", "g_cached": "None", "g_asked_version": "''",
                         "g_finalized_on": "None"}, "not_at_call_sites": True},
         ensures={
             "C13.partner.result_is_a_new_object_not_the_cached_schema":
                 f"implies({PARTNERED}, g_cached_loads == 1 and fresh(result) and result is not g_cached and g_asked_version == old(self._schema.with_standard))",
             "C05.partner.copy_carries_the_header_and_names_of_the_file_read":
                 f"implies({PARTNERED}, result.header_attributes is old(self._schema.header_attributes) and result.source_format == old(self._schema.source_format)"
                 " and result.filename == self.filename and result.name == self.name)",
             "C05.load.other_files_are_parsed_into_the_loaders_own_schema": f"implies(not {PARTNERED}, result is old(self._schema) and g_cached_loads == 0)",
             "C05.load.data_parsed_once_then_finalized": "g_parsed == 1 and g_finalized == 1 and g_finalized_on is result and result is self._schema",
             "C05.partner.unmerged_file_is_read_as_unmerged": f"self._loading_merged == (not {PARTNERED})",
         },
         assume=["load_schema_version hands out an object that existed before the call (the cache entry); copy.deepcopy allocates a new object",
                 "with_standard / merged are views of the header attributes (class-model fields); _parse_data / finalize_dictionaries are counted, "
                 "their effect on the schema content is outside this contract"])

# C13 "plus its own tags" / C05 "unmerged ... inLibrary stripping": every entry read from a library file that is not merged (or has no
# partner) is marked inLibrary=<this library> unless the file already marks it; an entry of the standard part of a merged file appended to a
# schema that is itself merged is skipped (it is there already), everything else is added exactly once, under its own name, to the section asked
class_model("EntryW5", {"name": "Str", "attributes": "Map[Str,Str]"})


def _set_attribute_w5(interp, args, kwargs):
    """HedSchemaEntry._set_attribute_value(name, value): attributes[name] = value unless the value is empty (the unknown-attribute
    bookkeeping is outside the model)"""
    entry, key, val = args[0], args[1], args[2]
    ctx = interp.ctx
    attrs = interp.field_read(entry, "attributes")
    t = ctx.truth(val)
    take = t if isinstance(t, bool) else ctx.decide(t, "attribute-value-nonempty")
    if take:
        interp.dict_set(attrs, key, val)
    return None


def _add_tag_to_dict_w5(interp, args, kwargs):
    g = interp.ctx.ghost
    g["g_added"] = g.get("g_added", 0) + 1
    g["g_added_name"], g["g_added_entry"], g["g_added_key"] = args[1], args[2], args[3]
    return args[2]


if _ulist_w5 is not None:
    EXTERNS["EntryW5.has_attribute"] = _eha_w5
    EXTERNS["EntryW5._set_attribute_value"] = _set_attribute_w5
    EXTERNS["SchemaW5._add_tag_to_dict"] = _add_tag_to_dict_w5
SKIPPED = "('inLibrary' not in old(entry.attributes) and self.appending_to_schema and self._schema.merged)"
MARKS = "(len(self.library) > 0 and (len(self._schema.with_standard) == 0 or not self._schema.merged))"
contract("C13.library_entries_are_marked_and_added_once", file=B2S, func="SchemaLoader._add_to_dict_base",
         params={"self": "SchemaLoaderW5", "entry": "EntryW5", "key_class": "Str"}, returns="Opt[EntryW5]", enc="native",
         self_class="SchemaLoaderW5", prop="C13", also=["C05"], modifies=["entry.attributes"],
         ghost={"init": {"g_added": "0", "g_added_name": "''", "g_added_entry": "None", "g_added_key": "''"}, "not_at_call_sites": True},
         ensures={
             "C13.add.standard_entry_of_a_merged_file_is_not_added_twice":
                 f"implies({SKIPPED}, result is None and g_added == 0 and 'inLibrary' not in entry.attributes)",
             "C13.add.entry_of_an_unmerged_library_file_is_marked_with_the_library":
                 f"implies(not {SKIPPED} and {MARKS} and 'inLibrary' not in old(entry.attributes),"
                 " 'inLibrary' in entry.attributes and entry.attributes['inLibrary'] == self.library)",
             "C13.add.a_mark_already_in_the_file_is_kept":
                 "implies('inLibrary' in old(entry.attributes), entry.attributes['inLibrary'] == old(entry.attributes['inLibrary']))",
             "C13.add.no_mark_for_standard_or_merged_files": f"implies(not {MARKS} and 'inLibrary' not in old(entry.attributes), 'inLibrary' not in entry.attributes)",
             "C13.add.no_other_attribute_touched":
                 "forall_str(lambda k: implies(k != 'inLibrary', (k in entry.attributes) == (k in old(entry.attributes))"
                 " and implies(k in entry.attributes, entry.attributes[k] == old(entry.attributes)[k])))",
             "C13.add.added_exactly_once_under_its_own_name":
                 f"implies(not {SKIPPED}, g_added == 1 and g_added_name == entry.name and g_added_entry is entry and g_added_key == key_class and result is entry)",
         },
         assume=["has_attribute(k) of an entry being loaded is `k in attributes` (HedTagEntry reads inherited_attributes, which IS the attribute "
                 "dictionary until the schema is finalized); _set_attribute_value stores a non-empty value under the name; "
                 "_add_tag_to_dict hands back the entry it was given (C13.added_entry_drops_finished_attribute_lists)"])

# C05 "rooted library nodes ... rooted-tag re-parenting" / C13 "a library schema partnered with a standard schema ... plus its own tags": a
# library tag that names a root of the standard schema is re-parented under EXACTLY the standard-schema entry of that name when an unmerged
# file is read (in a merged file it already sits there: nothing to re-parent); a rooted tag in a schema without partner, on the wrong level,
# or naming a tag that is missing from the standard schema or is itself a library tag, is refused
class_model("TagEntryW5", {"name": "Str", "short_tag_name": "Str", "parent_name": "Opt[Str]", "attributes": "Map[Str,Str]"})
class_model("TagSectionW5", {})
class_model("SchemaRootW5", {"with_standard": "Str", "name": "Opaque", "tags": "TagSectionW5"})


def _has_attribute_value_w5(interp, args, kwargs):
    """HedSchemaEntry.has_attribute(key, return_value=...): attributes.get(key) / key in attributes"""
    import z3
    from pyvc.vals import SV, BOOL, STR, TOpt, sort_of
    ctx = interp.ctx
    attrs = interp.field_read(args[0], "attributes")
    rv = kwargs.get("return_value", args[2] if len(args) > 2 else False)
    present = ctx.zbool(interp.contains(attrs, args[1]))
    if rv is not True:
        return SV(BOOL, present)
    if not ctx.decide(present, "attribute-present"):
        return None
    return interp.subscript(attrs, args[1]) if hasattr(interp, "subscript") else interp.getitem(attrs, args[1])


def _tags_get_w5(interp, args, kwargs):
    import z3
    from pyvc.vals import SV, TOpt, TRef, sort_of
    ty = TOpt(TRef("TagEntryW5"))
    f = z3.Function("section_entry_named", z3.IntSort(), z3.StringSort(), sort_of(ty))
    return SV(ty, f(args[0].t, interp.ctx.strs.to_native(args[1])))


if _ulist_w5 is not None:
    EXTERNS["TagEntryW5.has_attribute"] = _has_attribute_value_w5
    EXTERNS["TagSectionW5.get"] = _tags_get_w5
    EXTERNS["section_entry_named"] = _tags_get_w5
ROOTED = "'rooted' in tag_entry.attributes"
TARGET = "section_entry_named(schema.tags, tag_entry.attributes['rooted'])"
HAS_PARENT = "(tag_entry.parent_name is not None and tag_entry.parent_name != '')"
contract("C05.rooted_tag_is_reparented_under_the_standard_entry_it_names", file=B2S, func="SchemaLoader.find_rooted_entry",
         params={"tag_entry": "TagEntryW5", "schema": "SchemaRootW5", "loading_merged": "Bool"}, returns="Opt[TagEntryW5]", enc="native",
         also=["C13"],
         raises={"HedFileError": f"{ROOTED} and (len(schema.with_standard) == 0 or ({HAS_PARENT} and not loading_merged)"
                                 f" or (not {HAS_PARENT} and loading_merged) or {TARGET} is None or 'inLibrary' in {TARGET}.attributes)"},
         ensures={
             "C05.rooted.unmerged_file_reparents_under_the_named_standard_entry": f"implies({ROOTED} and not loading_merged, result == {TARGET} and result is not None)",
             "C05.rooted.merged_file_needs_no_reparenting": f"implies(loading_merged, result is None)",
             "C05.rooted.other_tags_are_left_where_they_are": f"implies(not {ROOTED}, result is None)",
         },
         assume=["has_attribute(k, return_value=True) is attributes.get(k); schema.tags.get(name) is a deterministic lookup (section_entry_named); "
                 "only text values of the rooted attribute are covered (a bare `rooted` flag is refused by the isinstance test)"])

# ------------------------------------------------------------------------------------------------------------------ C12 issue construction
# ErrorHandler.format_error called with arguments the encoding cannot enumerate (*args handed through, or a kind that is a parameter): for the
# contracts below - marked by the ghost variable g_any_issue - it hands back ONE issue of arbitrary code / severity / indices that is
# well-formed (what the wrappers under C12.sub_tag_wrapper / C12.whole_tag_wrapper and the call-site obligations of format_error establish).
# Every other contract keeps the model of contracts/common.py unchanged.
_format_error_common_w5 = EXTERNS.get("ErrorHandler.format_error")


def _format_error_w5(interp, args, kwargs):
    from pyvc.vals import Opaque, SV, Cell
    g = interp.ctx.ghost
    kind = args[0] if args else None
    if "g_any_issue" not in g or isinstance(kind, str):
        return _format_error_common_w5(interp, args, kwargs)
    obj = interp.new_object("Issue")
    interp.ctx.fresh_refs.discard(obj.t.sexpr())          # its fields are arbitrary, not defaults: read them from the heap
    saved = interp.ctx.spec
    interp.ctx.spec = True
    try:
        wf = interp.call(interp.engine.spec_funcs["issue_wf"], [obj], {})
    finally:
        interp.ctx.spec = saved
    interp.ctx.assume(interp.ctx.zbool(interp.ctx.truth(wf)))
    g["g_any_issue"] = obj
    g["g_format_calls"] = g.get("g_format_calls", 0) + 1
    g["g_format_actual"] = kwargs.get("actual_error")
    res = Cell("list", conc=[obj], fresh=True)
    res.elem = obj.ty
    g["g_issue_list"] = res
    return res


if _format_error_common_w5 is not None:
    EXTERNS["ErrorHandler.format_error"] = _format_error_w5
ANY_ISSUE = ["ErrorHandler.format_error hands back a list holding ONE well-formed issue (issue_wf: C12.sub_tag_wrapper / C12.whole_tag_wrapper and "
             "the call-site obligations of format_error); its code, severity and indices are arbitrary here"]
ISSUE_FIELDS = ["heap:Issue.char_index", "heap:Issue.char_index_end", "heap:Issue.has_char_index", "heap:Issue.has_char_index_end",
                "heap:Issue.message"]
# C12 "asking for errors only returns exactly the error-severity subset" + "when it carries character offsets they lie inside the ... span of
# the tag": the issue made for a handler is returned unless it is a warning and the handler reports errors only; a returned issue got the
# handler's context and its character offsets exactly once; without handler the bare issue is returned
contract("C12.issue_for_a_handler_is_filtered_and_decorated_once", file=ER, func="ErrorHandler.format_error_with_context",
         params={"self": "Opt[ErrorHandler]", "args": "Opaque", "kwargs": "Opaque"}, returns="List[Issue]", enc="native",
         modifies=ISSUE_FIELDS,
         ghost={"init": {"g_any_issue": "None", "g_format_calls": "0", "g_ctx": "0", "g_pos": "0"}, "not_at_call_sites": True,
                "update": [("self._add_context_to_errors(actual_error, self.error_context)", "g_ctx = g_ctx + 1"),
                           ("self._update_error_with_char_pos(actual_error)", "g_pos = g_pos + 1")]},
         lets={"dropped": "self is not None and not self._check_for_warnings and g_any_issue.severity >= 10"},
         ensures={
             "C12.with_context.one_issue_made": "g_format_calls == 1",
             "C12.with_context.warning_dropped_when_errors_only": "implies(dropped, len(result) == 0)",
             "C12.with_context.issue_returned_otherwise": "implies(not dropped, len(result) == 1 and result[0] is g_any_issue)",
             "C12.with_context.returned_issue_decorated_exactly_once": "implies(not dropped and self is not None, g_ctx == 1 and g_pos == 1)",
             "C12.with_context.no_handler_no_decoration": "implies(self is None, g_ctx == 0 and g_pos == 0)",
             "C12.with_context.located_issue_carries_offsets_inside_its_tag_span":
                 "implies(not dropped and self is not None and g_any_issue.span_start is not None, result[0].has_char_index and result[0].has_char_index_end"
                 " and result[0].span_start <= result[0].char_index and result[0].char_index <= result[0].char_index_end"
                 " and result[0].char_index_end <= result[0].span_end)",
             "C12.with_context.code_and_severity_untouched": "implies(not dropped, result[0].severity == g_any_issue.severity)",
         },
         assume=ANY_ISSUE)

# C12 "each issue ... has a code, a message and a severity; when it carries character offsets they lie ... inside the span of the tag": the
# issue made from a STORED context gets exactly that context (not the handler's current one) and its character offsets, once, and the list
# handed back is the one-issue list of format_error - the caller's actual_error is passed on
contract("C12.issue_from_a_stored_context_is_decorated_once", file=ER, func="ErrorHandler.format_error_from_context",
         params={"error_type": "Str", "error_context": "Opaque", "args": "Opaque", "actual_error": "Opt[Str]", "kwargs": "Opaque"},
         returns="List[Issue]", enc="native", modifies=ISSUE_FIELDS,
         ghost={"init": {"g_any_issue": "None", "g_format_calls": "0", "g_ctx": "0", "g_pos": "0", "g_format_actual": "None"},
                "not_at_call_sites": True,
                "update": [("ErrorHandler._add_context_to_errors(error_list[0], error_context)", "g_ctx = g_ctx + 1"),
                           ("ErrorHandler._update_error_with_char_pos(error_list[0])", "g_pos = g_pos + 1")]},
         ensures={
             "C12.from_context.one_issue_made_and_returned": "g_format_calls == 1 and len(result) == 1 and result[0] is g_any_issue",
             "C12.from_context.decorated_exactly_once_with_the_stored_context": "g_ctx == 1 and g_pos == 1",
             "C12.from_context.reported_code_override_is_passed_on": "g_format_actual == actual_error",
             "C12.from_context.located_issue_carries_offsets_inside_its_tag_span":
                 "implies(g_any_issue.span_start is not None, result[0].has_char_index and result[0].has_char_index_end"
                 " and result[0].span_start <= result[0].char_index and result[0].char_index <= result[0].char_index_end"
                 " and result[0].char_index_end <= result[0].span_end)",
         },
         assume=ANY_ISSUE)

# C12 "sorting is stable and orders by file, then sidecar column and key, then row ... nothing dropped": sort_issues hands back a NEW list
# that is a rearrangement of the issues it was given (python's sorted(): stable, same members, same length), ordered by the documented key
# function _get_keys in the direction the caller asked for, and leaves the caller's list as it is
def _sorted_w5(interp, args, kwargs):
    """sorted(L, key=f, reverse=r) for a symbolic list in a contract that records the sort (ghost g_sorts): a new list with the same length
    and the same members (the model the engine uses for list.sort); the key function and the direction are recorded.  Every other use of
    sorted() is answered by the engine's own rule."""
    import z3
    from pyvc.vals import Cell, SV, Opaque
    from pyvc.core import mem_fn
    from pyvc.vals import sort_of
    ctx = interp.ctx
    g = ctx.ghost
    a = args[0] if args else None
    sym = isinstance(a, Cell) and a.kind == "list" and a.sym is not None
    if "g_sorts" not in g or not sym:
        del EXTERNS["sorted"]
        try:
            return interp.call_builtin("sorted", args, kwargs, None)
        finally:
            EXTERNS["sorted"] = _sorted_w5
    ty = a.sym.ty
    so = sort_of(ty)
    r = z3.Const(ctx.fresh_name("sorted"), so)
    ctx.assume(so.len(r) == so.len(a.sym.t))
    e = z3.Const(ctx.fresh_name("e"), sort_of(ty.args[0]))
    ctx.assume(z3.ForAll([e], mem_fn(ty)(r, e) == mem_fn(ty)(a.sym.t, e)))
    res = Cell("list", sym=SV(ty, r), fresh=True)
    ctx.assume_type_inv(res, ty)
    key = kwargs.get("key")
    g["g_sorts"] = g["g_sorts"] + 1 if isinstance(g["g_sorts"], int) else SV(g["g_sorts"].ty, g["g_sorts"].t + 1)
    g["g_sort_key"] = getattr(key, "name", None) or getattr(getattr(key, "node", None), "name", None) or ""
    g["g_sort_reverse"] = kwargs.get("reverse", False)
    return res


if _ulist_w5 is not None:
    EXTERNS["sorted"] = _sorted_w5
contract("C12.sorting_rearranges_by_the_documented_key", file=ER, func="sort_issues",
         params={"issues": "List[Issue]", "reverse": "Bool"}, returns="List[Issue]", enc="native",
         ghost={"not_at_call_sites": True, "init": {"g_sorts": "0", "g_sort_key": "''", "g_sort_reverse": "False"}},
         ensures={
             "C12.sort.nothing_dropped": "all_in(issues, lambda x: x in result)",
             "C12.sort.nothing_invented": "all_in(result, lambda x: x in issues)",
             "C12.sort.same_number_of_issues": "len(result) == len(issues)",
             "C12.sort.callers_list_untouched": "len(issues) == len(old(issues)) and all(issues[k] is old(issues)[k] for k in range(len(issues)))",
             "C12.sort.one_stable_sort_by_the_context_key_in_the_direction_asked": "g_sorts == 1 and g_sort_key == '_get_keys' and g_sort_reverse == reverse",
         },
         assume=["python: sorted() is a stable sort that returns a new list with exactly the elements of its argument; the key function itself "
                 "is covered by C12.sort_key_each_context_kind (dataflow) and the bounded workload"])

# C12 "each issue ... has a code, a message and a severity" as PRINTED: the line of an issue starts with its published code; everything that
# is not of error severity is marked as a warning, an error never is
contract("C12.printed_issue_names_its_code_and_marks_warnings", file=ER, func="_get_error_prefix",
         params={"single_issue": "Issue"}, returns="Str", enc="native", ghost={"not_at_call_sites": True},
         ensures={
             "C12.print.error_prefix_is_the_code": "implies(single_issue.severity == 1, result == single_issue.code + ': ')",
             "C12.print.non_error_is_marked_warning": "implies(single_issue.severity != 1, result == single_issue.code + ': (Warning) ')",
         },
         assume=["every issue dictionary carries a severity (C12.sub_tag_wrapper / whole_tag_wrapper); the default of .get is not reachable"])

# C12 "asking for errors only returns exactly the error-severity subset" for the PRINTED report: the text is the rendering of the context tree
# of exactly the issues at or below the severity asked for (all of them when none is asked), with the caller's file-name and link choices,
# and a title - when given - is the first line
class_model("CtxTreeW5", {})


def _view_w5(name, rty):
    def f(interp, args, kwargs):
        import z3
        from pyvc.vals import SV, STR, TRef, sort_of
        ctx = interp.ctx
        ts = []
        for a in args:
            t = ctx.type_of(a)
            ts.append(ctx.term(a, t))
        ty = STR if rty == "Str" else TRef(rty)
        fn = z3.Function(name, *[x.sort() for x in ts], sort_of(ty))
        return SV(ty, fn(*ts))
    return f


if _ulist_w5 is not None:
    EXTERNS["context_tree_of"] = _view_w5("context_tree_of", "CtxTreeW5")
    EXTERNS["printed_tree"] = _view_w5("printed_tree", "Str")
contract("C12.w5.build_error_context_dict", file=ER, func="_build_error_context_dict",
         params={"issues": "List[Issue]", "skip_filename": "Bool"}, returns="CtxTreeW5", enc="native", trusted=True, fresh_result=False,
         ensures={"named": "result == context_tree_of(issues, skip_filename)"},
         assume=["_build_error_context_dict is a deterministic function of the issue list and the file-name choice (context_tree_of)"])
contract("C12.w5.error_dict_to_string", file=ER, func="_error_dict_to_string",
         params={"print_dict": "CtxTreeW5", "add_link": "Bool", "level": "Int"}, returns="Str", enc="native", trusted=True,
         ensures={"named": "implies(level == 0, result == printed_tree(print_dict, add_link))"},
         assume=["_error_dict_to_string is a deterministic function of the context tree and the link choice (printed_tree)"])
BODY = "printed_tree(context_tree_of({L}, skip_filename), add_link)"
contract("C12.printed_report_shows_exactly_the_issues_of_the_severity_asked", file=ER, func="get_printable_issue_string",
         params={"issues": "List[Issue]", "title": "Opt[Str]", "severity": "Opt[Int]", "skip_filename": "Bool", "add_link": "Bool"},
         returns="Str", enc="native",
         ghost={"not_at_call_sites": True, "init": {"g_printed": "issues"},
                "update": [("issues = ErrorHandler.filter_issues_by_severity(issues, severity)", "g_printed = issues")]},
         lets={"titled": "title is not None and len(title) > 0", "body": BODY.format(L="g_printed")},
         ensures={
             "C12.print.report_is_the_rendering_of_the_selected_issues_after_the_title":
                 "result == ((title + '\\n' + body) if titled else body)",
             "C12.print.no_severity_asked_selects_every_issue": "implies(severity is None, g_printed == old(issues))",
             "C12.print.severity_asked_selects_exactly_the_issues_at_or_below_it":
                 "implies(severity is not None, all_in(g_printed, lambda x: x.severity <= severity and x in old(issues))"
                 " and all_in(old(issues), lambda x: implies(x.severity <= severity, x in g_printed)))",
         })

# ------------------------------------------------------------------------------------------------------------------ C01 / C04 group level
# C01 "missing required ... duplicated unique tag" are rules over ALL tags of the annotation: the all-tags phase hands the required-tag rule
# and the unique-tag rule every tag of the annotation at any depth of grouping, reports everything both rules report and nothing else
class_model("GroupValidatorW5", {"_hed_schema": "Opt[SchemaAny]"})
if _ulist_w5 is not None:
    EXTERNS["required_issues_of"] = _ulist_w5("required_issues_of", 2)
    EXTERNS["unique_issues_of"] = _ulist_w5("unique_issues_of", 2)
RULES = ["the rule functions are deterministic functions of the validator and the tag list (required_issues_of / unique_issues_of); their own "
         "bodies are covered by C01.required_tags_each_checked / C01.unique_tags_each_checked and the bounded workload"]
contract("C01.w5.required_rule", file=GU, func="GroupValidator.check_for_required_tags", params={"self": "GroupValidatorW5", "tags": "List[HedTag]"},
         returns="List[Issue]", enc="native", trusted=True, self_class="GroupValidatorW5",
         ensures={"named": "result == required_issues_of(self, tags)"}, assume=RULES)
contract("C01.w5.unique_rule", file=GU, func="GroupValidator.check_multiple_unique_tags_exist", params={"self": "GroupValidatorW5", "tags": "List[HedTag]"},
         returns="List[Issue]", enc="native", trusted=True, self_class="GroupValidatorW5",
         ensures={"named": "result == unique_issues_of(self, tags)"}, assume=RULES)
BOTH = ("all_in(required_issues_of(self, {T}), lambda x: x in result) and all_in(unique_issues_of(self, {T}), lambda x: x in result)",
        "all_in(result, lambda x: x in required_issues_of(self, {T}) or x in unique_issues_of(self, {T}))")
contract("C01.multi_tag_rules_both_run", file=GU, func="GroupValidator._validate_tags_in_hed_string",
         params={"self": "GroupValidatorW5", "tags": "List[HedTag]"}, returns="List[Issue]", enc="native", self_class="GroupValidatorW5",
         ensures={"C01.all_tags.required_and_unique_issues_all_reported": BOTH[0].format(T="tags"),
                  "C01.all_tags.nothing_invented": BOTH[1].format(T="tags")})
contract("C01.multi_tag_rules_see_every_tag_at_any_depth", file=GU, func="GroupValidator.run_all_tags_validators",
         params={"self": "GroupValidatorW5", "hed_string_obj": "HedString"}, returns="List[Issue]", enc="native", self_class="GroupValidatorW5",
         also=["C04"], ghost={"update": [("assign:tags", "g_judged = tags")]},
         ensures={"C01.all_tags.judged_list_is_every_tag_of_the_annotation_at_any_depth":
                      "len(g_judged) == len(all_tags_of(hed_string_obj)) and all(g_judged[k] is all_tags_of(hed_string_obj)[k] for k in range(len(g_judged)))",
                  "C01.all_tags.rules_judge_that_list": BOTH[0].format(T="g_judged"),
                  "C01.all_tags.nothing_else_reported": BOTH[1].format(T="g_judged")})
# C01 "for any annotation ... of a loaded schema": the group rules ask THE schema the validator was built for; no schema is refused
contract("C01.group_validator_is_built_for_the_given_schema", file=GU, func="GroupValidator.__init__",
         params={"self": "GroupValidatorW5", "hed_schema": "Opt[SchemaAny]"}, returns=None, enc="native", self_class="GroupValidatorW5",
         modifies=["self._hed_schema"], raises={"ValueError": "hed_schema is None"},
         ensures={"C01.group_validator.keeps_the_schema_it_was_given": "self._hed_schema is hed_schema"})

# C01 "for any annotation built ... of a loaded schema ... with and without placeholders": the string validator is assembled for THE schema it
# is given - the definition rules and the group rules are built with that schema (and the definitions handed in), the unit and the character
# rules get the character-rule generation OF THAT SCHEMA (8.3 rules or older) - and a missing schema is refused before anything is built
class_model("SchemaPropsW5", {"schema_83_props": "Bool"})
class_model("DefDictsW5", {})
for _c in ("GroupValidator", "UnitValueValidator", "CharRexValidator", "StringValidator"):
    if _c not in CLASSES:
        class_model(_c, {})
class_model("HedValidatorInitW5", {"_hed_schema": "Opt[SchemaPropsW5]", "_def_validator": "DefValidator", "_definitions_allowed": "Bool",
                                   "_validate_characters": "Bool", "_unit_validator": "UnitValueValidator", "_char_validator": "CharRexValidator",
                                   "_string_validator": "StringValidator", "_tag_validator": "TagValidator", "_group_validator": "GroupValidator"})


def _built_view_w5(name, rty):
    def f(interp, args, kwargs):
        import z3
        from pyvc.vals import SV, INT, BOOL
        fn = z3.Function(name, z3.IntSort(), z3.BoolSort() if rty == "Bool" else z3.IntSort())
        return SV(BOOL if rty == "Bool" else INT, fn(args[0].t))
    return f


if _ulist_w5 is not None:
    EXTERNS["built_with_schema"] = _built_view_w5("built_with_schema", "Int")      # id() of the schema a rule object was constructed with
    EXTERNS["built_with_defs"] = _built_view_w5("built_with_defs", "Int")
    EXTERNS["built_with_modern_rules"] = _built_view_w5("built_with_modern_rules", "Bool")
CTOR = ["the constructor arguments of a rule object are remembered as views of the object (built_with_schema / built_with_defs / "
        "built_with_modern_rules); what each class does with them is that class's own contract (C01.group_validator_is_built_for_the_given_schema ...)"]
contract("C01.w5.def_validator_init", file="hed/validator/def_validator.py", func="DefValidator.__init__",
         params={"self": "DefValidator", "def_dicts": "Opt[DefDictsW5]", "hed_schema": "SchemaPropsW5"}, returns=None, enc="native", trusted=True,
         ensures={"schema": "built_with_schema(self) == id(hed_schema)",
                  "defs": "(built_with_defs(self) == -1) if def_dicts is None else (built_with_defs(self) == id(def_dicts))"}, assume=CTOR)
contract("C01.w5.group_validator_init", file=GU, func="GroupValidator.__init__",
         params={"self": "GroupValidator", "hed_schema": "SchemaPropsW5"}, returns=None, enc="native", trusted=True,
         ensures={"schema": "built_with_schema(self) == id(hed_schema)"}, assume=CTOR)
for _c, _f in (("UnitValueValidator", "hed/validator/util/class_util.py"), ("CharRexValidator", "hed/validator/util/char_util.py")):
    contract(f"C01.w5.{_c}_init", file=_f, func=f"{_c}.__init__",
             params={"self": _c, "modern_allowed_char_rules": "Bool"}, returns=None, enc="native", trusted=True,
             ensures={"flag": "built_with_modern_rules(self) == modern_allowed_char_rules"}, assume=CTOR)
contract("C01.string_validator_is_assembled_for_the_given_schema", file=HV, func="HedValidator.__init__",
         params={"self": "HedValidatorInitW5", "hed_schema": "Opt[SchemaPropsW5]", "def_dicts": "Opt[DefDictsW5]", "definitions_allowed": "Bool"},
         returns=None, enc="native", self_class="HedValidatorInitW5", also=["C13"],
         modifies=["self._hed_schema", "self._def_validator", "self._definitions_allowed", "self._validate_characters", "self._unit_validator",
                   "self._char_validator", "self._string_validator", "self._tag_validator", "self._group_validator"],
         raises={"ValueError": "hed_schema is None"},
         ghost={"not_at_call_sites": True},
         ensures={
             "C01.assemble.schema_kept": "self._hed_schema is hed_schema and self._definitions_allowed == definitions_allowed",
             "C01.assemble.definition_rules_built_with_the_definitions_and_this_schema":
                 "fresh(self._def_validator) and built_with_schema(self._def_validator) == id(hed_schema)"
                 " and built_with_defs(self._def_validator) == (-1 if def_dicts is None else id(def_dicts))",
             "C01.assemble.group_rules_built_with_this_schema":
                 "fresh(self._group_validator) and built_with_schema(self._group_validator) == id(hed_schema)",
             "C01.assemble.character_rule_generation_is_that_of_this_schema":
                 "self._validate_characters == hed_schema.schema_83_props and fresh(self._unit_validator) and fresh(self._char_validator)"
                 " and built_with_modern_rules(self._unit_validator) == hed_schema.schema_83_props"
                 " and built_with_modern_rules(self._char_validator) == hed_schema.schema_83_props",
             "C01.assemble.string_and_tag_rules_built": "fresh(self._string_validator) and fresh(self._tag_validator)",
         },
         assume=CTOR + ["schema_83_props is a pure view of the schema"])

# C04 "a repeated tag or group is reported no matter where the two copies sit or how their own members are ordered": the repetition scan
# compares neighbours only, so it must run on the CANONICAL (recursively sorted) view of the annotation - never on the members as written -
# and everything it finds is handed back
class_model("SortedViewW5", {})
class_model("HedGroupSortW5", {})
if _ulist_w5 is not None:
    EXTERNS["repetitions_in"] = _ulist_w5("repetitions_in", 1)
    EXTERNS["canonical_view_of"] = _view_w5("canonical_view_of", "SortedViewW5")
    EXTERNS["HedGroupSortW5._sorted"] = lambda interp, args, kwargs: _view_w5("canonical_view_of", "SortedViewW5")(interp, [args[0]], {})
contract("C04.w5.neighbour_scan", file=GU, func="GroupValidator._check_for_duplicate_groups_recursive",
         params={"self": "GroupValidatorW5", "sorted_group": "SortedViewW5", "validation_issues": "List[Issue]"}, returns=None, enc="native",
         trusted=True, self_class="GroupValidatorW5", modifies=["validation_issues"],
         ensures={"kept": "all_in(old(validation_issues), lambda x: x in validation_issues)",
                  "found": "all_in(repetitions_in(sorted_group), lambda x: x in validation_issues)",
                  "only": "all_in(validation_issues, lambda x: x in old(validation_issues) or x in repetitions_in(sorted_group))"},
         assume=["the neighbour scan appends exactly the repetitions of the view it is given (repetitions_in); its body mixes tags and lists in "
                 "one list and is outside the encoding (bounded workload rt/c04)",
                 "HedGroup._sorted() is a deterministic view of the group (canonical_view_of)"])
contract("C04.repetition_scan_runs_on_the_canonical_order", file=GU, func="GroupValidator._check_for_duplicate_groups",
         params={"self": "GroupValidatorW5", "original_group": "HedGroupSortW5"}, returns="List[Issue]", enc="native",
         self_class="GroupValidatorW5", prop="C04", also=["C01"], ghost={"not_at_call_sites": True},
         ensures={
             "C04.duplicates.every_repetition_of_the_canonical_view_is_returned":
                 "all_in(repetitions_in(canonical_view_of(original_group)), lambda x: x in result)",
             "C04.duplicates.nothing_else_is_returned": "all_in(result, lambda x: x in repetitions_in(canonical_view_of(original_group)))",
         })

# ------------------------------------------------------------------------------------------------------------------ C05 mediawiki writer
# C05 "saving to ... MediaWiki ... and loading the result gives a schema equal to the original": a MediaWiki schema is a list of lines.
# Flushing writes the pending entry text as ONE new line - the entry part verbatim, the attribute/description part wrapped in one
# <nowiki>..</nowiki> pair after one blank - clears the pending text, and touches no line written before; with nothing pending no line appears
S2W = "hed/schema/schema_io/schema2wiki.py"
class_model("Schema2WikiW5", {"current_tag_string": "Str", "current_tag_extra": "Str", "output": "List[Str]", "_strip_out_in_library": "Bool"})
KEPT = "all(self.output[k] == old(self.output)[k] for k in range(len(old(self.output))))"
contract("C05.wiki_flush_writes_the_pending_entry_as_one_line", file=S2W, func="Schema2Wiki._flush_current_tag",
         params={"self": "Schema2WikiW5"}, returns=None, enc="native", self_class="Schema2WikiW5",
         modifies=["self.current_tag_string", "self.current_tag_extra", "self.output"],
         lets={"s": "old(self.current_tag_string)", "e": "old(self.current_tag_extra)"},
         ensures={
             "C05.wiki.pending_entry_becomes_exactly_one_line": "implies(len(s) > 0 or len(e) > 0, len(self.output) == len(old(self.output)) + 1"
                 " and self.output[len(self.output) - 1] == (s + ' <nowiki>' + e + '</nowiki>' if len(e) > 0 else s))",
             "C05.wiki.nothing_pending_writes_no_line": "implies(len(s) == 0 and len(e) == 0, len(self.output) == len(old(self.output)))",
             "C05.wiki.pending_text_is_cleared": "self.current_tag_string == '' and self.current_tag_extra == ''",
             "C05.wiki.earlier_lines_untouched": KEPT,
         })

# C05 "nodes with 0-3 attributes incl. multi-valued ones ... descriptions": the part of a line after the name is `{attributes}` then one blank
# then `[description]`; an entry without attributes has no braces, one without description no brackets (the reader takes the text between
# the delimiters: C05.wiki_line_block_is_the_text_between_its_delimiters)
class_model("WikiEntryW5", {"name": "Str", "description": "Str", "attributes": "Map[Str,Str]", "section_key": "Str", "short_tag_name": "Str"})


def _attr_text_w5(interp, args, kwargs):
    """Schema2Base._format_tag_attributes(attributes): the attribute text of an entry - a deterministic function of the writer's selection
    flags and the attribute dictionary"""
    import z3
    from pyvc.vals import SV, STR, sort_of, TMap
    ctx = interp.ctx
    m = args[1]
    t = ctx.term(m, TMap(STR, STR))
    fn = z3.Function("attribute_text_of", z3.IntSort(), t.sort(), z3.StringSort())
    return SV(STR, fn(args[0].t, t))


if _ulist_w5 is not None:
    EXTERNS["Schema2WikiW5._format_tag_attributes"] = _attr_text_w5
    EXTERNS["attribute_text_of"] = _attr_text_w5
ATTR_TEXT = ["Schema2Base._format_tag_attributes is a deterministic function of the writer and the attribute dictionary (attribute_text_of); its "
             "loop is covered by C05.text_attributes_each_formatted"]
contract("C05.wiki_attributes_in_braces_then_description_in_brackets", file=S2W, func="Schema2Wiki._format_props_and_desc",
         params={"self": "Schema2WikiW5", "schema_entry": "WikiEntryW5"}, returns="Str", enc="native", self_class="Schema2WikiW5",
         lets={"A": "attribute_text_of(self, schema_entry.attributes)",
               "D": "schema_entry.description"},
         ensures={
             "C05.wiki.extras_are_braced_attributes_blank_bracketed_description":
                 "result == ('{' + A + '}' if len(A) > 0 else '') + (' ' if len(A) > 0 and len(D) > 0 else '') + ('[' + D + ']' if len(D) > 0 else '')",
         }, assume=ATTR_TEXT + ["a missing description (None) is modelled as the empty text: both are falsy and the code only tests truthiness"])

# ------------------------------------------------------------------------------------------------------------------ C05 mediawiki sections
# C05 "loading the result gives a schema equal to the original": the MediaWiki reader files every line under the section whose start line
# came last.  A line is a section start exactly when it begins with one of the section marks; it opens that section only if the section was
# not seen before and comes later in the fixed order than the current one - otherwise the file is refused; any other line opens nothing
_WIKI_CLASSES = dict(_HSC_CLASSES)
_WIKI_CLASSES.update(_module_consts_w5("hed/schema/schema_io/wiki_constants.py")[1])
WIKIC = _register_module_w5("wiki_constants", "hed/schema/schema_io/wiki_constants.py", _WIKI_CLASSES)
if _ulist_w5 is not None and WIKIC:
    EXTERNS["SectionStarts"] = _const_cell_w5(WIKIC["SectionStarts"])
    EXTERNS["SectionNames"] = _const_cell_w5(WIKIC["SectionNames"])
_STARTS = WIKIC.get("SectionStarts", {}) if WIKIC else {}
STARTS = {k: f"line.startswith({v!r})" for k, v in _STARTS.items()}
ANY_START = " or ".join(STARTS.values()) or "False"
_NAMED = WIKIC.get("SectionNames", {}) if WIKIC else {}
REFUSED = " or ".join(f"({c} and ({k} in strings_for_section or current_section >= {k}))" for k, c in STARTS.items() if k in _NAMED) or "False"
UNNAMED = " or ".join(f"({c} and ({k} in strings_for_section or current_section >= {k}))" for k, c in STARTS.items() if k not in _NAMED) or "False"
contract("C05.wiki_section_starts_open_sections_in_the_fixed_order", file=W2S, func="SchemaLoaderWiki._check_for_new_section",
         params={"self": "Opaque", "line": "Str", "strings_for_section": "Set[Int]", "current_section": "Int"}, returns="Opt[Int]", enc="native",
         # FINDING (outside the property: malformed file): SectionNames has no entry for the Epilogue section, so a repeated / misplaced
         # Epilogue mark escapes as KeyError(11) instead of HedFileError (confirmed: from_string of a text with two Epilogue marks)
         raises={"HedFileError": REFUSED, "KeyError": UNNAMED}, ghost={"not_at_call_sites": True, "no_frame": True},
         ensures=dict({"C05.wiki.ordinary_line_opens_nothing": f"implies(not ({ANY_START}), result is None)"},
                      **{f"C05.wiki.section_{k}_opened_by_its_mark": f"implies({c}, result == {k})" for k, c in STARTS.items()}),
         assume=["the dictionary of lines per section is modelled by the set of its keys (only membership is asked)"])

# ------------------------------------------------------------------------------------------------------------------ C05/C13 loader set-up
# C05 "loading the result gives a schema equal to the original" (header) / C13 "loading the same library twice, or two schemas under one
# prefix with clashing names, is refused": the loader's schema carries the header attributes READ FROM THE FILE; a file merged into an
# existing schema is refused unless that schema is a partnered one with the SAME withStandard value, and then version and library of the
# header become `<existing>,<file's>`; text and file name together are refused; the schema is named and filed as asked
# (the existing model of HedSchema - C03 / C13 - gains the header views this contract speaks about; nothing it had is changed)
CLASSES["HedSchema"]["fields"].update({"with_standard": "Str", "version_number": "Str", "library": "Str", "name": "Opt[Str]",
                                       "filename": "Opt[Str]", "header_attributes": "Map[Str,Str]"})
class_model("SchemaLoaderInitW5", {"file_format": "Opaque", "filename": "Opt[Str]", "name": "Opt[Str]", "schema_as_string": "Opt[Str]",
                                   "appending_to_schema": "Bool", "input_data": "Opaque", "library": "Str", "_schema": "HedSchema",
                                   "_loading_merged": "Bool", "fatal_errors": "Opaque"})


def _open_file_w5(interp, args, kwargs):
    import z3
    from pyvc.vals import Opaque
    ctx = interp.ctx
    for exc in ("OSError", "TypeError", "ValueError"):
        if interp.engine.exception_expected(ctx, exc):
            ctx.may_raise(z3.Bool(ctx.fresh_name("open_fails_" + exc)), exc, "_open_file")
    return Opaque("input_data", fresh=True)


def _file_header_w5(interp, args, kwargs):
    """_get_header_attributes(input_data): the header attributes found in the file - a new dictionary of texts"""
    import z3
    from pyvc.vals import SV, STR, TMap, Cell, sort_of
    ctx = interp.ctx
    ty = TMap(STR, STR)
    m = z3.Const(ctx.fresh_name("file_header"), sort_of(ty))
    cell = Cell("dict", sym=SV(ty, m), fresh=True)
    ctx.ghost["g_file_header"] = SV(ty, m)
    return cell


if _ulist_w5 is not None:
    EXTERNS["SchemaLoaderInitW5._open_file"] = _open_file_w5
    EXTERNS["SchemaLoaderInitW5._get_header_attributes"] = _file_header_w5
contract("C05.w5.validate_header_attributes", file="hed/schema/schema_header_util.py", func="validate_attributes",
         params={"attrib_dict": "Map[Str,Str]", "name": "Opt[Str]"}, returns="Opaque", enc="native", trusted=True,
         raises={"HedFileError": "True"}, ensures={},
         assume=["schema_header_util.validate_attributes only reads the header dictionary (it accepts it or raises HedFileError)"])
WS, LIB, VER = (repr(HSC.get(k)) for k in ("WITH_STANDARD_ATTRIBUTE", "LIBRARY_ATTRIBUTE", "VERSION_ATTRIBUTE")) if HSC else ("''",) * 3
GET = "(g_file_header[{k}] if {k} in g_file_header else '')"
MODS = ["self.file_format", "self.filename", "self.name", "self.schema_as_string", "self.appending_to_schema", "self.input_data", "self.library",
        "self._schema", "self._loading_merged", "self.fatal_errors", "obj",
        # the schema merged into is an optional parameter: the frame can only be opened per field, not per (object, field)
        "heap:HedSchema.name", "heap:HedSchema.filename", "heap:HedSchema.header_attributes"]
BOTH_GIVEN = "(schema_as_string is not None and len(schema_as_string) > 0 and filename is not None and len(filename) > 0)"
contract("C05.loader_schema_carries_the_header_read_from_the_file", file=B2S, func="SchemaLoader.__init__",
         params={"self": "SchemaLoaderInitW5", "filename": "Opt[Str]", "schema_as_string": "Opt[Str]", "schema": "Opt[HedSchema]",
                 "file_format": "Opaque", "name": "Opt[Str]"},
         returns=None, enc="native", self_class="SchemaLoaderInitW5", also=["C13"], modifies=MODS,
         raises={"HedFileError": "True"},
         ghost={"init": {"g_file_header": "None"}, "not_at_call_sites": True},
         lets={"named": "name is not None and len(name) > 0"},
         ensures={
             "C05.loader.text_and_file_together_never_accepted": f"not {BOTH_GIVEN}",
             "C05.loader.new_schema_when_none_is_given": "implies(schema is None, fresh(self._schema) and not self.appending_to_schema)",
             "C13.loader.merge_goes_into_the_given_schema_only_with_the_same_partner":
                 "implies(schema is not None, self._schema is schema and self.appending_to_schema and len(old(schema.with_standard)) > 0"
                 f" and old(schema.with_standard) == {GET.format(k=WS)})",
             "C05.loader.header_is_the_one_read_from_the_file":
                 f"forall_str(lambda k: implies(schema is None or (k != {VER} and k != {LIB}), (k in self._schema.header_attributes) == (k in g_file_header)"
                 " and implies(k in g_file_header, self._schema.header_attributes[k] == g_file_header[k])))",
             "C13.loader.merged_header_lists_both_versions_and_libraries":
                 f"implies(schema is not None, self._schema.header_attributes[{VER}] == old(schema.version_number) + ',' + {GET.format(k=VER)}"
                 f" and self._schema.header_attributes[{LIB}] == old(schema.library) + ',' + {GET.format(k=LIB)})",
             "C05.loader.library_name_is_the_files": f"self.library == {GET.format(k=LIB)}",
             "C05.loader.schema_is_named_and_filed_as_asked":
                 "self._schema.filename == filename and implies(named, self._schema.name == name) and self.filename == filename"
                 " and self.name == (name if named else filename)",
             "C05.loader.starts_unmerged_without_errors": "not self._loading_merged",
         },
         assume=["_open_file / _get_header_attributes of the format readers: the latter hands back a new dictionary of texts (g_file_header); "
                 "with_standard / version_number / library of a schema are views of its header attributes (class-model fields)"])


# ------------------------------------------------------------------------------------------------------------------ C05 XML writer
# C05 "the saved XML, read by an independent XML reader, lists exactly the original nodes, attributes, values and descriptions": a tag is written
# as ONE <node> under the parent handed in, holding a <name> whose text is the LAST path segment of the tag name, a <description> with the
# description text verbatim exactly when the tag has one, and its attributes (handed on to the attribute writer, as <attribute> elements)
# exactly when it has any; nothing else is created
class_model("XmlNodeW5", {"tag": "Str", "text": "Str", "parent": "Opt[XmlNodeW5]"})       # text '' = no text yet
class_model("Schema2XMLW5", {"_strip_out_in_library": "Bool"})


def _sub_element_w5(interp, args, kwargs):
    """xml.etree.ElementTree.SubElement(parent, tag): a new element of that tag appended to the parent, without text"""
    from pyvc.vals import SV, INT
    ctx = interp.ctx
    g = ctx.ghost
    obj = interp.new_object("XmlNodeW5")
    interp.field_write(obj, "tag", args[1])
    interp.field_write(obj, "text", "")
    interp.field_write(obj, "parent", args[0])
    if "g_subs" in g:
        g["g_subs"] = g["g_subs"] + 1 if isinstance(g["g_subs"], int) else SV(INT, ctx.term(g["g_subs"], INT) + 1)
        if isinstance(args[1], str):
            g["g_sub_" + args[1]] = obj
    return obj


def _add_attributes_w5(interp, args, kwargs):
    g = interp.ctx.ghost
    g["g_attr_calls"] = g.get("g_attr_calls", 0) + 1
    g["g_attr_node"], g["g_attr_map"] = args[1], args[2]
    g["g_attr_name"] = kwargs.get("attribute_node_name", args[3] if len(args) > 3 else "attribute")
    return None


if _ulist_w5 is not None:
    EXTERNS["SubElement"] = _sub_element_w5
    EXTERNS["Schema2XMLW5._add_tag_node_attributes"] = _add_attributes_w5
XMLW = ["ElementTree.SubElement(parent, tag) creates one new element of that tag under the parent; the attribute writer is covered by "
        "C05.xml_attributes_each_written", "a missing description (None) is modelled as the empty text: both are falsy and only truthiness is tested"]
LAST = "nm == tag_entry.name.split('/')[len(tag_entry.name.split('/')) - 1]"
contract("C05.xml_tag_is_one_node_with_name_description_attributes", file="hed/schema/schema_io/schema2xml.py", func="Schema2XML._write_tag_entry",
         params={"self": "Schema2XMLW5", "tag_entry": "WikiEntryW5", "parent_node": "XmlNodeW5", "level": "Int"}, returns="XmlNodeW5",
         enc="native", self_class="Schema2XMLW5",
         ghost={"init": {"g_subs": "0", "g_sub_node": "None", "g_sub_name": "None", "g_sub_description": "None", "g_attr_calls": "0",
                         "g_attr_node": "None", "g_attr_map": "None", "g_attr_name": "''"}, "not_at_call_sites": True},
         lets={"nm": "g_sub_name.text"},
         ensures={
             "C05.xml.one_new_node_under_the_parent_given": "fresh(result) and result is g_sub_node and result.tag == 'node' and result.parent is parent_node",
             "C05.xml.name_is_the_last_path_segment": "g_sub_name is not None and g_sub_name.parent is result and g_sub_name.tag == 'name' and " + LAST,
             "C05.xml.description_written_verbatim_iff_present":
                 "implies(len(tag_entry.description) > 0, g_subs == 3 and g_sub_description is not None and g_sub_description.parent is result and g_sub_description.text == tag_entry.description)"
                 " and implies(len(tag_entry.description) == 0, g_subs == 2)",
             "C05.xml.attributes_handed_to_the_attribute_writer_iff_any":
                 "implies(not no_keys(tag_entry.attributes), g_attr_calls == 1 and g_attr_node is result and g_attr_map == tag_entry.attributes"
                 " and g_attr_name == 'attribute') and implies(no_keys(tag_entry.attributes), g_attr_calls == 0)",
         }, assume=XMLW)
# C05: a unit class / unit / modifier / value class / attribute / property is ONE element of the kind of its section under the parent handed
# in, holding a <name> with the entry name verbatim; description and attributes (as <attribute>, for schema attributes and properties as
# <property>) are written exactly when the entry has them AND the caller asks for them (a standard unit class listed only to hold library
# units is written bare)
_EL = XMLC.get("ELEMENT_NAMES", {}) if XMLC else {}
_AP = XMLC.get("ATTRIBUTE_PROPERTY_ELEMENTS", {}) if XMLC else {}
SECTION_OK = " or ".join(f"entry.section_key == {k!r}" for k in _EL if k != "tags") or "False"
KIND = " and ".join(f"implies(entry.section_key == {k!r}, result.tag == {v!r})" for k, v in _EL.items() if k != "tags") or "True"
ATTR_KIND = " and ".join(f"implies(entry.section_key == {k!r}, g_attr_name == {v!r})" for k, v in _AP.items() if k != "tags") or "True"
contract("C05.xml_entry_is_one_element_of_its_section_kind", file="hed/schema/schema_io/schema2xml.py", func="Schema2XML._write_entry",
         params={"self": "Schema2XMLW5", "entry": "WikiEntryW5", "parent_node": "XmlNodeW5", "include_props": "Bool"}, returns="XmlNodeW5",
         enc="native", self_class="Schema2XMLW5", requires=[SECTION_OK],
         ghost={"init": {"g_subs": "0", "g_sub_name": "None", "g_sub_description": "None", "g_attr_calls": "0",
                         "g_attr_node": "None", "g_attr_map": "None", "g_attr_name": "''"}, "not_at_call_sites": True},
         ensures={
             "C05.xml.one_new_element_of_the_section_kind_under_the_parent": "fresh(result) and result.parent is parent_node and " + KIND,
             "C05.xml.entry_name_verbatim": "g_sub_name is not None and g_sub_name.parent is result and g_sub_name.tag == 'name' and g_sub_name.text == entry.name",
             "C05.xml.entry_description_verbatim_iff_present_and_asked":
                 "implies(include_props and len(entry.description) > 0, g_subs == 3 and g_sub_description is not None and g_sub_description.parent is result"
                 " and g_sub_description.text == entry.description) and implies(not include_props or len(entry.description) == 0, g_subs == 2)",
             "C05.xml.entry_attributes_written_iff_any_and_asked":
                 "implies(include_props and not no_keys(entry.attributes), g_attr_calls == 1 and g_attr_node is result and g_attr_map == entry.attributes and "
                 + ATTR_KIND + ") and implies(not include_props or no_keys(entry.attributes), g_attr_calls == 0)",
         }, assume=XMLW + ["(precondition) the entry belongs to one of the six non-tag sections (the callers: _output_units / _output_section)"])
# C05 round trip of prologue and epilogue through XML: the writer puts the text VERBATIM into one <prologue> / <epilogue> element directly
# under the root - the element the reader looks for (C05.xml_prologue_is_the_text_of_its_own_element) - and writes no element for an empty text
class_model("Schema2XMLOutW5", {"hed_node": "XmlNodeW5"})
contract("C05.xml_epilogue_written_verbatim_under_the_root", file="hed/schema/schema_io/schema2xml.py", func="Schema2XML._output_footer",
         params={"self": "Schema2XMLOutW5", "epilogue": "Str"}, returns=None, enc="native", self_class="Schema2XMLOutW5",
         ghost={"init": {"g_subs": "0", "g_sub_epilogue": "None"}, "not_at_call_sites": True},
         ensures={
             "C05.xml.epilogue_element_holds_the_text_verbatim": "implies(len(epilogue) > 0, g_subs == 1 and g_sub_epilogue is not None and g_sub_epilogue.tag == 'epilogue' and g_sub_epilogue.parent is self.hed_node"
                                                                 " and g_sub_epilogue.text == epilogue)",
             "C05.xml.empty_epilogue_writes_no_element": "implies(len(epilogue) == 0, g_subs == 0)",
         }, assume=XMLW[:1])


def _hed_node_set_w5(interp, args, kwargs):
    g = interp.ctx.ghost
    g["g_sets"] = g.get("g_sets", 0) + 1
    return None


if _ulist_w5 is not None:
    EXTERNS["XmlNodeW5.set"] = _hed_node_set_w5
contract("C05.xml_prologue_written_verbatim_under_the_root", file="hed/schema/schema_io/schema2xml.py", func="Schema2XML._output_header",
         params={"self": "Schema2XMLOutW5", "attributes": "Map[Str,Str]", "prologue": "Str"}, returns=None, enc="native",
         self_class="Schema2XMLOutW5", unwind="havoc",
         ghost={"init": {"g_subs": "0", "g_sub_prologue": "None"}, "not_at_call_sites": True},
         ensures={
             "C05.xml.prologue_element_holds_the_text_verbatim": "implies(len(prologue) > 0, g_subs == 1 and g_sub_prologue is not None and g_sub_prologue.tag == 'prologue' and g_sub_prologue.parent is self.hed_node"
                                                                 " and g_sub_prologue.text == prologue)",
             "C05.xml.empty_prologue_writes_no_element": "implies(len(prologue) == 0, g_subs == 0)",
         }, assume=XMLW[:1] + ["the loop setting the header attributes on the root is explored as one arbitrary iteration (it creates no element)"])
