from pyvc.contract import contract, class_model

class_model("OnsetValidator", {"_onsets": "Map[Str,Str]"})

# C10: open-scope dictionary against the abstract view  open(self) = keys(self._onsets)
contract("C10.handle_onset_or_offset",
         file="hed/validator/onset_validator.py", func="OnsetValidator._handle_onset_or_offset",
         params={"self": "OnsetValidator", "def_tag": "HedTag", "onset_offset_tag": "HedTag"},
         returns="List[Issue]", enc="native",
         requires=["onset_offset_tag.short_base_tag == 'Onset' or onset_offset_tag.short_base_tag == 'Offset'"
                   " or onset_offset_tag.short_base_tag == 'Inset'"],
         modifies=["self._onsets"],
         lets={"n": "def_tag.extension.casefold()", "kind": "onset_offset_tag.short_base_tag",
               "was_open": "def_tag.extension.casefold() in old(self._onsets)"},
         ensures={
             # whole-view postconditions: every key, not only the touched one
             "C10.onset.opens": "implies(kind == 'Onset', len(result) == 0 and map_eq_except_add(self._onsets, old(self._onsets), n))",
             "C10.offset.closes": "implies(kind == 'Offset' and was_open, len(result) == 0 and map_eq_except_del(self._onsets, old(self._onsets), n))",
             "C10.offset.unmatched": "implies(kind == 'Offset' and not was_open, len(result) == 1 and result[0].code == 'TEMPORAL_TAG_ERROR'"
                                     " and result[0].severity == 1 and same_keys(self._onsets, old(self._onsets)))",
             "C10.inset": "implies(kind == 'Inset', same_keys(self._onsets, old(self._onsets)) and (len(result) == 0) == was_open"
                          " and implies(not was_open, result[0].code == 'TEMPORAL_TAG_ERROR' and result[0].severity == 1))",
         })
