from pyvc.contract import contract, class_model

class_model("OnsetValidator", {"_onsets": "Map[Str,Str]"})

# C10: open-scope dictionary against the abstract view  open(self) = keys(self._onsets)
contract("C10.handle_onset_or_offset",
         file="hed/validator/onset_validator.py", func="OnsetValidator._handle_onset_or_offset",
         params={"self": "OnsetValidator", "def_tag": "HedTag", "onset_offset_tag": "HedTag"},
         returns="List[Issue]", enc="native",
         requires=["onset_offset_tag.short_base_tag == 'Onset' or onset_offset_tag.short_base_tag == 'Offset'"
                   " or onset_offset_tag.short_base_tag == 'Inset'"],
         modifies=["self._onsets"],
         lets={"n": "def_tag.extension.casefold()", "kind": "onset_offset_tag.short_base_tag",
               "was_open": "def_tag.extension.casefold() in old(self._onsets)"},
         ensures={
             # whole-view postconditions: every key, not only the touched one
             "C10.onset.opens": "implies(kind == 'Onset', len(result) == 0 and map_eq_except_add(self._onsets, old(self._onsets), n))",
             "C10.offset.closes": "implies(kind == 'Offset' and was_open, len(result) == 0 and map_eq_except_del(self._onsets, old(self._onsets), n))",
             "C10.offset.unmatched": "implies(kind == 'Offset' and not was_open, len(result) == 1 and result[0].code == 'TEMPORAL_TAG_ERROR'"
                                     " and result[0].severity == 1 and same_keys(self._onsets, old(self._onsets)))",
             "C10.inset": "implies(kind == 'Inset', same_keys(self._onsets, old(self._onsets)) and (len(result) == 0) == was_open"
                          " and implies(not was_open, result[0].code == 'TEMPORAL_TAG_ERROR' and result[0].severity == 1))",
             "C10.handler.only_unmatched_kinds": "all_in(result, lambda x: x.kind == 'OFFSET_BEFORE_ONSET' or x.kind == 'INSET_BEFORE_ONSET')",
         })

# ---- markers of one time point: "using the same name twice among the markers of one time point is reported once per extra use"
class_model("MarkerString", {})
try:
    import z3
    from pyvc.contract import EXTERNS
    from pyvc.vals import SV, TList, TTuple, TRef, sort_of

    def _markers_of(interp, args, kwargs):
        ty = TList(TTuple(TRef("HedTag"), TRef("HedGroup")))
        f = z3.Function("temporal_markers_of", z3.IntSort(), sort_of(ty))
        return interp.ctx.wrap(f(args[0].t), ty).sym
    EXTERNS["temporal_markers_of"] = _markers_of
except ImportError:
    pass

contract("C10.find_top_level_tags", file="hed/models/hed_string.py", func="HedString.find_top_level_tags",
         params={"self": "HedString", "anchor_tags": "Opaque", "include_groups": "Int"}, returns="List[Tuple[HedTag,HedGroup]]",
         enc="native", trusted=True, ensures={"named": "result == temporal_markers_of(self)"})
contract("C10.find_def_tags", file="hed/models/hed_group.py", func="HedGroup.find_def_tags",
         params={"self": "HedGroup", "recursive": "Bool", "include_groups": "Int"}, returns="List[HedTag]", enc="native", trusted=True,
         ensures={"named": "result == def_tags_of(self)"})

NAME = "def_tags_of(M[{k}][1])[0].extension.casefold()"
contract("C10.validate_temporal_relations",
         file="hed/validator/onset_validator.py", func="OnsetValidator.validate_temporal_relations",
         params={"self": "OnsetValidator", "hed_string_obj": "HedString"}, returns="List[Issue]", enc="native",
         requires=["all(temporal_markers_of(hed_string_obj)[k][0].short_base_tag == 'Onset' or temporal_markers_of(hed_string_obj)[k][0].short_base_tag == 'Offset'"
                   " or temporal_markers_of(hed_string_obj)[k][0].short_base_tag == 'Inset' for k in range(len(temporal_markers_of(hed_string_obj))))"],
         modifies=["heap:OnsetValidator._onsets"],
         locals={"onset_issues": "List[Issue]", "used_def_names": "Set[Str]"},
         lets={"M": "temporal_markers_of(hed_string_obj)"},
         ensures={
             # a marker whose (case-insensitive) name was already used by an earlier marker of this time point is reported, at its own tag
             "C10.same_name.every_extra_use_reported": "all(implies(len(def_tags_of(M[k][1])) > 0 and any(len(def_tags_of(M[j][1])) > 0 and "
                 + NAME.format(k="j") + " == " + NAME.format(k="k") + " for j in range(k)),"
                 " any_in(result, lambda x: x.kind == 'ONSET_SAME_DEFS_ONE_ROW' and x.code == 'TEMPORAL_TAG_ERROR' and x.source_tag == M[k][0]))"
                 " for k in range(len(M)))",
             "C10.same_name.first_use_not_reported": "all_in(result, lambda x: implies(x.kind == 'ONSET_SAME_DEFS_ONE_ROW', x.has_source_tag and any("
                 "x.source_tag == M[k][0] and len(def_tags_of(M[k][1])) > 0 and any(len(def_tags_of(M[j][1])) > 0 and "
                 + NAME.format(k="j") + " == " + NAME.format(k="k") + " for j in range(k)) for k in range(len(M)))))",
         },
         loops={0: {"havoc_fields": [["OnsetValidator", "_onsets"]], "invariant": [
             "forall_str(lambda s: (s in used_def_names) == any(len(def_tags_of(temporal_markers_of(hed_string_obj)[j][1])) > 0 and "
             "def_tags_of(temporal_markers_of(hed_string_obj)[j][1])[0].extension.casefold() == s for j in range(_n)))",
             "all(implies(len(def_tags_of(temporal_markers_of(hed_string_obj)[k][1])) > 0 and any(len(def_tags_of(temporal_markers_of(hed_string_obj)[j][1])) > 0 and "
             "def_tags_of(temporal_markers_of(hed_string_obj)[j][1])[0].extension.casefold() == def_tags_of(temporal_markers_of(hed_string_obj)[k][1])[0].extension.casefold() for j in range(k)),"
             " any_in(onset_issues, lambda x: x.kind == 'ONSET_SAME_DEFS_ONE_ROW' and x.code == 'TEMPORAL_TAG_ERROR' and x.source_tag == temporal_markers_of(hed_string_obj)[k][0]))"
             " for k in range(_n))",
             "all_in(onset_issues, lambda x: implies(x.kind == 'ONSET_SAME_DEFS_ONE_ROW', x.has_source_tag and any("
             "x.source_tag == temporal_markers_of(hed_string_obj)[k][0] and len(def_tags_of(temporal_markers_of(hed_string_obj)[k][1])) > 0 and any(len(def_tags_of(temporal_markers_of(hed_string_obj)[j][1])) > 0 and "
             "def_tags_of(temporal_markers_of(hed_string_obj)[j][1])[0].extension.casefold() == def_tags_of(temporal_markers_of(hed_string_obj)[k][1])[0].extension.casefold() for j in range(k)) for k in range(_n))))",
         ]}},
         assume=["HedString.find_top_level_tags / HedGroup.find_def_tags are deterministic views (temporal_markers_of, def_tags_of)"])

# C10/C07/C20 "rows that share an onset take effect in file order": the onset sort is a STABLE sort (pandas' default quicksort is not) and
# works on a copy of the caller's table
contract("C10.onset_sort_is_stable", file="hed/models/df_util.py", func="sort_dataframe_by_onsets",
         params={"df": "Opaque"}, returns="Opaque", enc="native", also=["C07", "C20"], unwind="havoc",
         ghost={"call_requires": {"sort_values": {"kind": ["mergesort", "stable"]}}, "init": {"seen_sort_values": "False"}},
         ensures={},
         assume=["pandas: sort_values(kind='mergesort'|'stable') keeps equal keys in their given order; other kinds need not"])

# C10 "definition names compare case-insensitively, the same way everywhere": the definition dictionary is keyed by the case-FOLDED name
# (DefinitionDict.add), so the onset/offset check of a Def must ask with the case-folded name too - str.lower() answers differently for
# names such as 'Straße'; the value part after the first '/' only decides the placeholder question
class_model("DefEntryTV", {"takes_value": "Bool"})
class_model("DefValidatorM", {"defs": "Map[Str,DefEntryTV]"})
contract("C10.def_of_a_marker_looked_up_case_folded", file="hed/validator/def_validator.py", func="DefValidator._handle_onset_or_offset",
         params={"self": "DefValidatorM", "def_tag": "HedTag"}, returns="List[Issue]", enc="native", self_class="DefValidatorM",
         lets={"nm": "def_tag.extension.partition('/')[0]", "ph": "def_tag.extension.partition('/')[2]"},
         ensures={
             "C10.marker_def.known_name_with_matching_value_use_is_accepted":
                 "implies(nm.casefold() in self.defs and self.defs[nm.casefold()].takes_value == (len(ph) > 0), len(result) == 0)",
             "C10.marker_def.unknown_name_is_reported":
                 "implies(nm.casefold() not in self.defs, len(result) == 1 and result[0].kind == 'ONSET_DEF_UNMATCHED'"
                 " and result[0].code == 'TEMPORAL_TAG_ERROR' and result[0].severity == 1)",
             "C10.marker_def.wrong_value_use_is_reported":
                 "implies(nm.casefold() in self.defs and self.defs[nm.casefold()].takes_value != (len(ph) > 0),"
                 " len(result) == 1 and result[0].kind == 'ONSET_PLACEHOLDER_WRONG' and result[0].code == 'TEMPORAL_TAG_ERROR'"
                 " and result[0].severity == 1)",
         })
