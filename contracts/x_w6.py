"""Contracts of writer w6 (second pass over the area of x_w1): HedTag schema views / hash / copy, HedGroup traversals, query nodes and tokens
(C02, C04, C09, C11, C15)."""
from pyvc.contract import contract, class_model, CLASSES, EXTERNS

T = "hed/models/hed_tag.py"
G = "hed/models/hed_group.py"
S = "hed/models/hed_string.py"
QE = "hed/models/query_expressions.py"
QH = "hed/models/query_handler.py"
QU = "hed/models/query_util.py"
TRUTHY_ENTRY = "a schema entry is truthy (HedSchemaEntry defines neither __bool__ nor __len__)"

# ------------------------------------------------------------------------------------------------ HedTag: what the tag's node declares
# C11 "For every value-taking tag with unit classes ... a unit of one of THOSE classes": the unit classes / value classes / attributes a tag
# answers with are the tables of its OWN resolved node (same keys, same entries), and an unidentified tag has none
class_model("UnitEntryW6", {"name": "Str"})
class_model("UnitClassEntryW6", {"units": "Map[Str,UnitEntryW6]", "attributes": "Map[Str,Str]"})
class_model("ValueClassEntryW6", {})
class_model("TagEntryW6", {"unit_classes": "Map[Str,UnitClassEntryW6]", "value_classes": "Map[Str,ValueClassEntryW6]", "attributes": "Map[Str,Str]",
                           "short_tag_name": "Str", "long_tag_name": "Str"})
class_model("HedTagW6", {"_schema_entry": "Opt[TagEntryW6]", "_namespace": "Str", "_extension_value": "Str", "__str__": "Str"})
SAME_TABLE = ("(lambda r, t: same_keys(r, t) and forall_str(lambda k: implies(k in t, r[k] == t[k])))")
for _f, _vt in (("unit_classes", "UnitClassEntryW6"), ("value_classes", "ValueClassEntryW6"), ("attributes", "Str")):
    contract("C11.tag_" + _f + "_are_the_nodes_own", file=T, func="HedTag." + _f, params={"self": "HedTagW6"}, returns="Map[Str," + _vt + "]",
             enc="native", self_class="HedTagW6", assume=[TRUTHY_ENTRY], also=["C04"],
             ensures={"C11." + _f + ".table_of_the_resolved_node": "implies(self._schema_entry is not None, " + SAME_TABLE + "(result, self._schema_entry." + _f + "))",
                      "C11." + _f + ".unidentified_tag_has_none": "implies(self._schema_entry is None, forall_str(lambda k: k not in result))"})

# C11 "For every value-taking tag with unit classes": a tag is a unit-class (value-class) tag exactly when its own resolved node declares at
# least one unit class (value class); an unidentified tag is neither
for _f in ("unit_classes", "value_classes"):
    contract("C11.tag_is_" + _f[:-2] + "_tag", file=T, func="HedTag.is_" + _f[:-2] + "_tag", params={"self": "HedTagW6"}, returns="Bool", enc="native",
             self_class="HedTagW6", assume=[TRUTHY_ENTRY], also=["C04"],
             ensures={"C11.is_" + _f[:-2] + ".iff_the_resolved_node_declares_one":
                      "result == (self._schema_entry is not None and not forall_str(lambda k: k not in self._schema_entry." + _f + "))"})

# (HedTag.default_unit - C11 "the value in default units" - was attempted: `len(self.unit_classes.values())` has no rule in the engine
#  (len of a dict view of a symbolic map); left to the bounded workload rt/c11.)

# C04 "tag equality and hashing on canonical short form, case-folded": the hash of an identified tag is the hash of ITS prefix + the case-folded
# short name of its node + its case-folded value / extension suffix (so any spelling and letter case of the same tag hashes alike); the hash of
# an unidentified tag is the hash of its case-folded text
try:
    import z3 as _z3w6
    from pyvc.vals import SV as _SVw6, INT as _INTw6, BOOL as _BOOLw6

    def _hash_text_w6(interp, args, kwargs):
        """hash(text): within one run a function of the text alone"""
        f = _z3w6.Function("hash_text_w6", _z3w6.StringSort(), _z3w6.IntSort())
        return _SVw6(_INTw6, f(interp.ctx.strs.to_native(args[0])))
    EXTERNS["hash"] = EXTERNS["hash_text_w6"] = _hash_text_w6
except ImportError:
    pass
contract("C04.tag_hash_on_canonical_short_form", file=T, func="HedTag.__hash__", params={"self": "HedTagW6"}, returns="Int", enc="native",
         self_class="HedTagW6", assume=[TRUTHY_ENTRY, "hash(text) of a str is a function of the text (the only argument kind covered)"],
         ensures={
             "C04.hash.identified_prefix_folded_name_folded_suffix": "implies(self._schema_entry is not None, result == hash_text_w6("
                 "self._namespace + self._schema_entry.short_tag_name.casefold() + self._extension_value.casefold()))",
             "C04.hash.unidentified_folded_text": "implies(self._schema_entry is None, result == hash_text_w6(self.__str__.casefold()))",
         })

# C09 "under arbitrary interleavings of expand, shrink, copy and validate": a copy of a tag is a NEW object and taking it leaves the tag where it
# sits in its group (the parent pointer is only set aside while copying, so that the copy does not drag the whole tree along)
class_model("HedTagCW6", {"_parent": "Opt[HedGroupRaw]"})
contract("C09.tag_copy", file=T, func="HedTag.copy", params={"self": "HedTagCW6"}, returns="HedTagCW6", enc="native", self_class="HedTagCW6",
         modifies=["self._parent"],
         ensures={"C09.copy.tag_copy_is_new": "fresh(result) and result is not self",
                  "C09.copy.tag_keeps_its_parent": "self._parent == old(self._parent)"},
         assume=["copy.deepcopy modelled as an allocation (the copied content: C09.tag_deepcopy and the bounded workload)"])

# C15 "any query text either compiles or is rejected": every piece of query text is classified as exactly the documented operator kind; anything
# else is a search term

KIND_OF = ("(lambda t: 0 if t == ',' or t == '&&' else 6 if t == '||' else 4 if t == '[' else 5 if t == ']' else 7 if t == '(' else 8 if t == ')'"
           " else 9 if t == '~' else 10 if t == '?' or t == '??' or t == '???' else 11 if t == '{' else 12 if t == '}' else 14 if t == ':'"
           " else 13 if t == '@' else 1)")
contract("C15.token_kind", file=QU, func="Token.__init__", params={"self": "TokenW1", "text": "Str"}, returns=None, enc="native", self_class="TokenW1",
         modifies=["self.kind", "self.text"],
         ensures={"C15.token.kind_of_the_documented_operator_else_term": "self.kind == " + KIND_OF + "(text)",
                  "C15.token.text_kept": "self.text == text"})

# (HedGroup.get_all_groups / get_all_tags / check_if_in_original - the worklist traversals - were attempted with a node model carrying the view
#  __is_HedGroup (which needs CLASSES["HedGroup"]["bases"] extended, as contracts/c20_context.py does): `pop(0)` and `list(children) + node_list` are
#  executed, "starts with the group itself" and "only groups" are proved, but the closure invariants - every group member of a listed group is
#  listed or still queued; every entry is a member of an earlier entry - time out in z3 and cvc5 (60 s) on the path that takes a group up, in the
#  membership form and in the index form alike.  Not claimed; the order and completeness of the traversals stay with the bounded workloads.)

# ------------------------------------------------------------------------------------------------ query nodes
# C15 "[ ] / { } group-scoped operators": the containing groups of a list of matches are, for every match whose group is a real (parenthesised)
# group sitting inside a parent, ONE result naming that parent with the matched group as its only child matched - in order, nothing else
class_model("NodeXW6", {})
class_model("GroupPW6", {"_parent": "Opt[GroupPW6]", "is_group": "Bool", "__bool__": "Bool", "children": "List[NodeXW6]"}, bases=["HedGroup"])
class_model("ResultPW6", {"group": "GroupPW6"}, bases=["SearchResult"])
RPW = "List[ResultPW6]"
SINGLE_NODE = ("SearchResult(group, node) with a single node (not a list) holds exactly that node: `tags == [node]` (query_util.py: `if not isinstance(tag, list): "
               "new_tags = [tag]`); the registered constructor contract C15.search_result_init covers the list form, to which every list argument is "
               "still handed; the node is recorded in the model's tags list whatever its class (a matched child is a tag or a group)")
try:
    from pyvc.vals import Cell as _Cellw6, ClassRef as _ClassRefw6, SV as _SVw6b

    def _search_result_w6(interp, args, kwargs):
        """SearchResult(group, tag): the list form goes to the registered constructor contract; the single-node form is tags == [node]"""
        names = ["group", "tag"]
        bound = dict(zip(names, args))
        bound.update(kwargs)
        tag = bound["tag"]
        if isinstance(tag, _Cellw6) or (isinstance(tag, _SVw6b) and tag.ty.name == "List"):
            return interp.construct(_ClassRefw6("SearchResult"), [bound["group"], tag], {}, None)
        obj = interp.new_object("SearchResult")
        interp.field_write(obj, "group", bound["group"])
        lst = _Cellw6("list", conc=[tag], fresh=True)
        interp.field_write(obj, "tags", lst)
        return obj
    EXTERNS["SearchResult"] = _search_result_w6
except ImportError:
    pass
HAS_PARENT = "(lambda r: r.group.is_group and r.group._parent is not None and r.group._parent.__bool__)"
PARENT_OF = "(lambda p, r: p.group is r.group._parent and len(p.tags) == 1 and p.tags[0] is r.group)"
contract("C15.parent_groups", file=QE, func="Expression._get_parent_groups", params={"search_results": RPW}, returns="List[SearchResult]", enc="native",
         locals={"found_parent_groups": "List[SearchResult]"},
         lets={"S": "search_results"},
         ensures={
             "C15.parents.each_names_the_parent_of_a_matched_real_group_with_that_group_as_its_only_child":
                 "all(any(" + HAS_PARENT + "(S[i]) and " + PARENT_OF + "(result[m], S[i]) for i in range(len(S))) for m in range(len(result)))",
             "C15.parents.every_matched_real_group_inside_a_parent_yields_one":
                 "all(implies(" + HAS_PARENT + "(S[i]), any(" + PARENT_OF + "(result[m], S[i]) for m in range(len(result)))) for i in range(len(S)))",
             "C15.parents.none_invented": "len(result) <= len(S)",
             "C15.parents.results_are_new_objects": "all(fresh(result[m]) for m in range(len(result)))",
         },
         loops={0: {"invariant": [
             "len(wi) == len(found_parent_groups) and all(0 <= wi[m] and wi[m] < _n and " + HAS_PARENT + "(_iter0[wi[m]]) and "
             + PARENT_OF + "(found_parent_groups[m], _iter0[wi[m]]) for m in range(len(found_parent_groups)))",
             "all(implies(" + HAS_PARENT + "(_iter0[i]), any(" + PARENT_OF + "(found_parent_groups[m], _iter0[i]) for m in range(len(found_parent_groups)))) for i in range(_n))",
             "len(found_parent_groups) <= _n",
             "all(fresh(found_parent_groups[m]) for m in range(len(found_parent_groups)))"], "ghost": {"wi": "List[Int]"}}},
         # ghost witness: wi[m] = the position in search_results of the match that result m was made from (recorded where it is appended)
         ghost={"init": {"wi": "[]"}, "update": [("found_parent_groups.append(SearchResult(group.group._parent, group.group))", "wi = snoc_int_w1(wi, _n)")]}, assume=[SINGLE_NODE])

# C15 "searching ... : bool(QueryHandler(q).search(HedString(s)))": the answer of a compiled query is the answer of its expression tree for THIS
# annotation, asked in the plain (not exact) mode
class_model("QueryHandlerSW6", {"tree": "ExprW1"})
contract("C15.search_asks_the_tree", file=QH, func="QueryHandler.search", params={"self": "QueryHandlerSW6", "hed_string_obj": "HedGroup"},
         returns="List[SearchResult]", enc="native", self_class="QueryHandlerSW6",
         ensures={"C15.search.answer_of_the_tree_in_plain_mode": "len(result) == len(R) and all(result[k] is R[k] for k in range(len(R)))"},
         lets={"R": "results_w1(self.tree, hed_string_obj, False)"},
         assume=["an expression's handle_expr is the deterministic function results_w1(expression, annotation, exact flag) (x_w1 OPERAND)",
                 "the body has a local variable named `result`: in the engine a clause's `result` then reads that LOCAL (names of the function's "
                 "environment win over the return value), so the clause is about the value computed for return - an alteration of the return "
                 "statement itself (`return result[:1]`) is not noticed by this contract"])

# the operand of a group-scoped operator: any expression; what it answers for (annotation, exact flag) is named results_w6(expr, group, exact)
class_model("ExprW6", {})
OPERAND_W6 = ("an operand's handle_expr is a deterministic function results_w6(expression, annotation, exact flag) that alters neither the annotation nor "
              "any earlier result (as x_w1 OPERAND; bounded workload rt/c15 'search laws'); exact defaults to False")
try:
    from contracts.extern_fs import _ulist as _ulist_w6

    def _results_w6(interp, args, kwargs):
        sv = _ulist_w6("results_w6", 3, "ResultPW6")(interp, args, kwargs)
        interp.ctx.assume_type_inv(sv, sv.ty)
        return sv
    EXTERNS["results_w6"] = _results_w6

    def _operand_handle_expr_w6(interp, args, kwargs):
        exact = kwargs.get("exact", args[2] if len(args) > 2 else False)
        interp.ctx.now = interp.ctx.now + 1       # whatever the operand allocated was allocated no later than now (as for any callee)
        sv = EXTERNS["results_w6"](interp, [args[0], args[1], exact], {})
        return interp.ctx.wrap(sv.t, sv.ty)
    EXTERNS["ExprW6.handle_expr"] = _operand_handle_expr_w6
except ImportError:
    pass
PARENTS_OF_ALL = ("(lambda R, S: all(any(" + HAS_PARENT + "(S[i]) and " + PARENT_OF + "(R[m], S[i]) for i in range(len(S))) for m in range(len(R)))"
                  " and all(implies(" + HAS_PARENT + "(S[i]), any(" + PARENT_OF + "(R[m], S[i]) for m in range(len(R)))) for i in range(len(S))))")
# C15 "[A]": a group that contains a match of A at any level - the operand is asked in the PLAIN mode whatever mode the node itself is asked
# in, and the answer is exactly the containing groups of the operand's matches
class_model("ExprDescW6", {"right": "ExprW6"}, bases=["Expression"])
contract("C15.descendant_group_node", file=QE, func="ExpressionDescendantGroup.handle_expr",
         params={"self": "ExprDescW6", "hed_group": "HedGroup", "exact": "Bool"}, returns="List[SearchResult]", enc="native", self_class="ExprDescW6",
         lets={"F": "results_w6(self.right, hed_group, False)"}, assume=[OPERAND_W6, SINGLE_NODE],
         ensures={"C15.descendant.containing_groups_of_the_operands_plain_matches": PARENTS_OF_ALL + "(result, F)"})

# C15 "`{X}` / `{X:}` / `{X: Y}` exact groups": the operand is asked in EXACT mode; `{X}` answers with the containing groups of its matches; with
# a ':' only matches whose group is matched COMPLETELY (as many children matched as the group has) count - if some of them are real groups inside
# a parent, exactly those end the search
class_model("ExprExactW6", {"right": "ExprW6", "left": "Opt[ExprW6]", "optional": "Str"}, bases=["Expression"])
EXACT_W6 = "(lambda r: len(r.group.children) == len(r.tags))"
contract("C15.filter_exact_view_w6", file=QE, func="ExpressionExactMatch._filter_exact_matches", params={"search_results": RPW}, returns=RPW,
         enc="native", trusted=True, self_class="ExprExactW6",
         ensures={"only": "all(is_in(result[k], search_results) and " + EXACT_W6 + "(result[k]) for k in range(len(result)))",
                  "every": "all(implies(" + EXACT_W6 + "(search_results[k]), any(result[j] is search_results[k] for j in range(len(result)))) for k in range(len(search_results)))",
                  "order": "len(result) <= len(search_results)"},
         assume=["_filter_exact_matches keeps exactly the completely matched candidates (proved: C15.filter_exact_matches; restated here over the result "
                 "model of this file, whose groups also carry is_group / _parent)"])
ENDS = "(lambda r: " + EXACT_W6 + "(r) and " + HAS_PARENT + "(r))"
contract("C15.exact_match_node", file=QE, func="ExpressionExactMatch.handle_expr",
         params={"self": "ExprExactW6", "hed_group": "HedGroup", "exact": "Bool"}, returns="List[SearchResult]", enc="native", self_class="ExprExactW6",
         lets={"F": "results_w6(self.right, hed_group, True)"}, requires=["self.left is None"], ghost={"not_at_call_sites": True},
         assume=[OPERAND_W6, SINGLE_NODE, "only `{X}` and `{X:}` are covered (no optional part: self.left is None); the merge with the optional part of "
                 "`{X: Y}` (ExpressionAnd.merge_and_groups over another result model) and 'no complete match, no optional part: no match' "
                 "(solver time-out) are left to the bounded workload rt/c15"],
         ensures={
             "C15.exact.braces_alone_containing_groups_of_the_exact_mode_matches": "implies(self.optional == 'any', " + PARENTS_OF_ALL + "(result, F))",
             "C15.exact.completely_matched_real_groups_end_the_search":
                 "implies(self.optional != 'any' and any(" + ENDS + "(F[i]) for i in range(len(F))), len(result) > 0 and"
                 " all(any(" + ENDS + "(F[i]) and " + PARENT_OF + "(result[m], F[i]) for i in range(len(F))) for m in range(len(result))))",
         })

# C09 "in-place tree surgery: remove_definitions": exactly the top-level groups anchored by a Definition tag are looked up (as groups) and exactly
# that list is handed to remove - once, and not at all when there is none
class_model("HedStringRW6", {})
class_model("GroupRW6", {})
try:
    def _definition_groups_w6(interp, args, kwargs):
        sv = _ulist_w6("definition_groups_w6", 1, "GroupRW6")(interp, args, kwargs)
        interp.ctx.assume_type_inv(sv, sv.ty)
        return sv
    EXTERNS["definition_groups_w6"] = _definition_groups_w6
except NameError:
    pass
contract("C09.top_level_definition_groups_w6", file=S, func="HedString.find_top_level_tags",
         params={"self": "HedStringRW6", "anchor_tags": "Set[Str]", "include_groups": "Int"}, returns="List[GroupRW6]", enc="native", trusted=True,
         self_class="HedStringRW6",
         ghost={"sets": {"asked_for_definition_groups": "forall_str(lambda k: (k in anchor_tags) == (k == 'Definition')) and include_groups == 1"}},
         ensures={"named": "result == definition_groups_w6(self)"},
         assume=["find_top_level_tags(names, include_groups=1) is some list definition_groups_w6(annotation) of groups (which groups: C10 / bounded rt/c09)"])
contract("C09.remove_items_w6", file=G, func="HedGroup.remove", params={"self": "HedStringRW6", "items_to_remove": "List[GroupRW6]"}, returns=None,
         enc="native", trusted=True, self_class="HedStringRW6",
         ghost={"sets": {"removed_w6": "items_to_remove", "n_removals": "n_removals + 1"}}, ensures={},
         assume=["HedGroup.remove edits children lists that are not part of this model (list.remove has no rule in the engine)"])
contract("C09.remove_definitions", file=S, func="HedString.remove_definitions", params={"self": "HedStringRW6"}, returns=None, enc="native",
         self_class="HedStringRW6", lets={"D": "definition_groups_w6(self)"},
         ghost={"init": {"asked_for_definition_groups": "False", "n_removals": "0", "removed_w6": "[]"}},
         ensures={
             "C09.undefine.looks_for_top_level_definition_groups": "asked_for_definition_groups",
             "C09.undefine.removes_exactly_the_definition_groups_once": "implies(len(D) > 0, n_removals == 1 and removed_w6 == D)",
             "C09.undefine.nothing_removed_when_there_is_none": "implies(len(D) == 0, n_removals == 0)",
         })
