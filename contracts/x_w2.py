"""Contracts of writer w2 (C06, C07, C08, C16): functions that had none."""
from pyvc.contract import contract, class_model, EXTERNS, CLASSES

IO = "hed/tools/util/io_util.py"

# C16 "whose filename entities all occur with the same values in the events filename": one '_'-separated piece of a file name is a
# suffix (no '-'), an entity key-value (exactly one '-', both sides trimmed) or unusable (empty, or more than one '-')
contract("C16.split_entity", file=IO, func="_split_entity",
         params={"piece": "Str"}, returns="Map[Str,Str]", enc="native",
         lets={"p": "piece.strip()", "F": "piece.strip().split('-')"},
         ensures={
             "C16.piece.blank_is_bad": "implies(len(p) == 0, 'bad' in result and 'key' not in result and 'suffix' not in result)",
             "C16.piece.no_dash_is_the_suffix": "implies(len(p) > 0 and len(F) == 1, 'suffix' in result and result['suffix'] == p"
                                                " and 'key' not in result and 'bad' not in result)",
             "C16.piece.one_dash_is_key_and_value": "implies(len(p) > 0 and len(F) == 2, 'key' in result and 'value' in result"
                 " and result['key'] == F[0].strip() and result['value'] == F[1].strip() and 'bad' not in result and 'suffix' not in result)",
             "C16.piece.more_dashes_are_bad": "implies(len(p) > 0 and len(F) > 2, 'bad' in result and result['bad'] == p"
                                              " and 'key' not in result and 'suffix' not in result)",
         })

try:
    import z3
    from pyvc.vals import SV, Cell, Opaque, Unsupported, INT, BOOL, STR
except ImportError:
    z3 = None

BI = "hed/models/base_input.py"

# ---- C07 "Shuffling the rows of a file with distinct onsets changes nothing except ... one added out-of-order warning" / "never raises for
# readable input": the table needs sorting exactly when the NUMERIC reading of its onset column is not non-decreasing; the numeric reading is
# taken tolerantly (errors='coerce': an 'n/a' onset is not a reason to raise) from the onset column of the caller-visible table
class_model("OnsetColW2", {})
class_model("NumColW2", {"is_monotonic_increasing": "Bool", "is_monotonic_decreasing": "Bool", "is_unique": "Bool"})
class_model("TableW2", {"onset": "OnsetColW2", "duration": "OnsetColW2"})
class_model("BaseInputW2", {"onsets": "Opt[OnsetColW2]", "dataframe": "TableW2", "_dataframe": "TableW2", "columns": "List[Str]"})
if z3 is not None:
    def _nondecreasing(interp, args, kwargs):
        """numeric_nondecreasing(col): the numbers read from the column (NaN for unreadable cells) never go down - pandas' own answer"""
        f = z3.Function("numeric_nondecreasing", z3.IntSort(), z3.BoolSort())
        return SV(BOOL, f(args[0].t))

    def _to_numeric_w2(interp, args, kwargs):
        """pd.to_numeric(col, errors=...) on a modelled column: a new numeric column whose monotonicity flag is pandas' answer for that column;
        anything but errors='coerce' raises ValueError on an unreadable cell (obligation)"""
        ctx = interp.ctx
        col = args[0]
        if not (isinstance(col, SV) and col.ty.name == "Ref" and col.ty.args[0].name == "OnsetColW2"):
            return interp.opaque_call("pd.to_numeric", args, kwargs)
        got = kwargs.get("errors", "<absent>")
        ctx.oblige("call-pre", "to_numeric.errors == 'coerce'", z3.BoolVal(got == "coerce"), top=True,
                   info={"callee": "pd.to_numeric", "clause": f"errors must be 'coerce' (n/a onsets are legal); found {got!r}"})
        r = interp.new_object("NumColW2")
        interp.field_write(r, "is_monotonic_increasing", _nondecreasing(interp, [col], {}))
        interp.field_write(r, "is_monotonic_decreasing", SV(BOOL, z3.Bool(ctx.fresh_name("mono_dec"))))
        interp.field_write(r, "is_unique", SV(BOOL, z3.Bool(ctx.fresh_name("uniq"))))
        g = ctx.ghost
        if "numeric_readings" in g:
            g["numeric_readings"] = SV(INT, ctx.term(g["numeric_readings"], INT) + 1)
        return r
    EXTERNS["pd.to_numeric"] = _to_numeric_w2
    EXTERNS["numeric_nondecreasing"] = _nondecreasing

contract("C07.needs_sorting_iff_numeric_onsets_go_down", file=BI, func="BaseInput.needs_sorting",
         params={"self": "BaseInputW2"}, returns="Bool", enc="native", self_class="BaseInputW2",
         ensures={
             "C07.order.unordered_iff_numeric_onsets_not_nondecreasing":
                 "implies(self.onsets is not None, result == (not numeric_nondecreasing(self.dataframe.onset)))",
             "C07.order.no_onset_column_never_needs_sorting": "implies(self.onsets is None, result == False)",
         },
         assume=["pd.to_numeric(col, errors='coerce').is_monotonic_increasing is pandas' answer to 'the numbers of col never go down' "
                 "(uninterpreted numeric_nondecreasing); with any other errors= value an unreadable onset raises"])

# C07/C10 "temporal issues ... when there is an onset column": the onset column handed out is the column NAMED 'onset' of the table itself, and
# there is one exactly when the table has a column of that name
contract("C07.onsets_is_the_onset_column_of_the_table", file=BI, func="BaseInput.onsets",
         params={"self": "BaseInputW2"}, returns="Opt[OnsetColW2]", enc="native", self_class="BaseInputW2",
         ensures={
             "C07.onsets.present_iff_a_column_is_named_onset": "(result is not None) == ('onset' in self.columns)",
             "C07.onsets.is_the_tables_own_onset_column": "implies(result is not None, result is self._dataframe.onset)",
         })

# C06 "changes neither the table nor the sidecar": applying the column transformers (with the categorical dtype round trip) never writes the
# caller-visible table in place - every item assignment goes to a copy made by this call
contract("C06.transforms_work_on_a_copy", file=BI, func="BaseInput._handle_transforms",
         params={"self": "BaseInputState", "mapper": "Opaque"}, returns="Opaque", enc="native", self_class="BaseInputState",
         unwind="havoc", ghost={"pure": True}, ensures={},
         assume=["table values are pandas objects (opaque): .copy()/.transform()/.astype() return new objects, item assignment writes its receiver"])

# ---- C07 "plus the column-structure and temporal issues" (a row without a usable onset may carry no temporal tag at all): every tag of
# the row whose canonical SHORT name (any spelling: long form, namespace prefix, value part) is Onset/Offset/Inset/Duration/Delay is reported
# with the temporal code at error severity, at that tag - and nothing else is
TIMEKEY = ("(lambda t: t.short_base_tag == 'Onset' or t.short_base_tag == 'Offset' or t.short_base_tag == 'Inset'"
           " or t.short_base_tag == 'Duration' or t.short_base_tag == 'Delay')")
contract("C07.banned_temporal_tags_each_reported", file="hed/validator/onset_validator.py", func="OnsetValidator.check_for_banned_tags",
         params={"hed_string": "HedString"}, returns="List[Issue]", enc="native",
         locals={"issues": "List[Issue]"},
         lets={"T": "all_tags_of(hed_string)", "timekey": TIMEKEY},
         ensures={
             "C07.untimed.every_temporal_tag_reported_at_its_tag":
                 "all(implies(timekey(T[k]), any_in(result, lambda x: x.kind == 'TEMPORAL_TAG_NO_TIME' and x.code == 'TEMPORAL_TAG_ERROR'"
                 " and x.severity == 1 and x.has_source_tag and x.source_tag == T[k])) for k in range(len(T)))",
             "C07.untimed.nothing_else_reported":
                 "all_in(result, lambda x: x.kind == 'TEMPORAL_TAG_NO_TIME' and x.has_source_tag"
                 " and any(x.source_tag == T[k] and timekey(T[k]) for k in range(len(T))))",
         },
         loops={0: {"invariant": [
             "all(implies(" + TIMEKEY + "(all_tags_of(hed_string)[k]), any_in(issues, lambda x: x.kind == 'TEMPORAL_TAG_NO_TIME'"
             " and x.code == 'TEMPORAL_TAG_ERROR' and x.severity == 1 and x.has_source_tag and x.source_tag == all_tags_of(hed_string)[k]))"
             " for k in range(_n))",
             "all_in(issues, lambda x: x.kind == 'TEMPORAL_TAG_NO_TIME' and x.has_source_tag"
             " and any(x.source_tag == all_tags_of(hed_string)[k] and " + TIMEKEY + "(all_tags_of(hed_string)[k]) for k in range(_n)))",
         ]}},
         assume=["HedGroup.get_all_tags is the deterministic view all_tags_of (trusted contract C01.get_all_tags)"])

# ---- C08 "breaking any one of these rules yields an error-severity issue with that rule's code": the structural screening of ONE sidecar
# column - 'HED' as a column name, an entry whose HED value is neither a text nor a map (no kind), a HED key buried in an un-annotated
# entry - each gives exactly one error with its own code; a value column gives nothing here; a categorical column gets the per-key screening.
# The kind is read LENIENTLY (basic_validation=False): a template without '#' is a value column for this screening, the '#' rule reports it
SCV = "hed/validator/sidecar_validator.py"
class_model("JsonEntryW2", {})
class_model("SidecarValidatorW2", {"_schema": "Opaque", "reserved_column_names": "List[Str]"})
class_model("ErrorHandlerW2", {})
if z3 is not None:
    from contracts.extern_fs import _ulist as _ulist_w2, _format_error_with_context as _fewc_w2
    from pyvc.vals import TOpt, sort_of

    def _column_kind_of(interp, args, kwargs):
        ty = TOpt(STR)
        f = z3.Function("column_kind_of", z3.IntSort(), z3.BoolSort(), sort_of(ty))
        return SV(ty, f(args[0].t, interp.ctx.term(args[1], BOOL)))

    def _has_key_anywhere(interp, args, kwargs):
        f = z3.Function("has_key_anywhere", z3.StringSort(), z3.IntSort(), z3.BoolSort())
        return SV(BOOL, f(interp.ctx.strs.to_native(args[0]), args[1].t))
    EXTERNS["column_kind_of"] = _column_kind_of
    EXTERNS["has_key_anywhere"] = _has_key_anywhere
    EXTERNS["categorical_issues_of"] = _ulist_w2("categorical_issues_of", 2)
    EXTERNS["SidecarValidatorW2._validate_categorical_column"] = \
        lambda interp, args, kwargs: _ulist_w2("categorical_issues_of", 2)(interp, [args[0], args[2]], {})
    EXTERNS["ErrorHandlerW2.format_error_with_context"] = _fewc_w2
    EXTERNS["SidecarValidatorW2._check_for_key"] = lambda interp, args, kwargs: _has_key_anywhere(interp, [args[1], args[2]], {})
contract("C08.detect_column_type_view", file="hed/models/column_metadata.py", func="ColumnMetadata._detect_column_type",
         params={"dict_for_entry": "JsonEntryW2", "basic_validation": "Bool"}, returns="Opt[Str]", enc="native", trusted=True,
         ensures={"named": "result == column_kind_of(dict_for_entry, basic_validation)",
                  "a_kind": "result is None or result == 'ignore' or result == 'categorical' or result == 'value'"},
         assume=["ColumnMetadata._detect_column_type is a deterministic function of the JSON entry and the strictness flag (view column_kind_of) "
                 "answering None / ignore / categorical / value; its body inspects dynamic JSON types and is outside the subset"])
ONE = "len(result) == 1 and result[0].severity == 1 and result[0].kind == '{k}' and result[0].code == '{c}'"
contract("C08.column_structure_faults_each_have_their_code", file=SCV, func="SidecarValidator._validate_column_structure",
         params={"self": "SidecarValidatorW2", "column_name": "Str", "dict_for_entry": "JsonEntryW2", "error_handler": "ErrorHandlerW2"},
         returns="List[Issue]", enc="native", self_class="SidecarValidatorW2",
         requires=["len(self.reserved_column_names) == 1 and self.reserved_column_names[0] == 'HED'"],
         lets={"kind": "column_kind_of(dict_for_entry, False)"},
         ensures={
             "C08.structure.hed_as_column_name": "implies(column_name == 'HED', " + ONE.format(k="SIDECAR_HED_USED_COLUMN", c="SIDECAR_INVALID") + ")",
             "C08.structure.entry_without_kind": "implies(column_name != 'HED' and kind is None, "
                                                 + ONE.format(k="sidecarUnknownColumn", c="sidecarUnknownColumn") + ")",
             "C08.structure.buried_hed_key": "implies(column_name != 'HED' and kind == 'ignore' and has_key_anywhere('HED', dict_for_entry), "
                                             + ONE.format(k="SIDECAR_HED_USED", c="SIDECAR_INVALID") + ")",
             "C08.structure.unannotated_entry_is_silent":
                 "implies(column_name != 'HED' and kind == 'ignore' and not has_key_anywhere('HED', dict_for_entry), len(result) == 0)",
             "C08.structure.value_column_is_silent_here": "implies(column_name != 'HED' and kind == 'value', len(result) == 0)",
             "C08.structure.categorical_column_gets_the_per_key_screening":
                 "implies(column_name != 'HED' and kind == 'categorical', len(result) == len(categorical_issues_of(self, dict_for_entry))"
                 " and all_in(categorical_issues_of(self, dict_for_entry), lambda x: x in result))",
         },
         assume=["error_handler.format_error_with_context yields the single issue of format_error for error-severity kinds",
                 "the class constant SidecarValidator.reserved_column_names is ['HED'] (precondition; the model class cannot read class constants)",
                 "SidecarValidator._check_for_key (recursive search through dynamic JSON types, outside the subset) is the deterministic view has_key_anywhere",
                 "_validate_categorical_column is the deterministic view categorical_issues_of (its own contracts: C08.context.*, C08.categorical_each_key)"])

# ---- C06 "the categorical entry selected by each categorical cell, and each value template with '#' replaced by the cell text ...; an ignored
# column contributes nothing": for every column of the final map, the transformer registered for it is the handler OF ITS KIND bound to ITS
# OWN annotation (value column -> '#'-substitution with its template, categorical column -> look-up in its own category map, HED column ->
# the cell itself), and an ignored column gets no transformer at all (it would otherwise be assembled verbatim)
CMP = "hed/models/column_mapper.py"
class_model("ColumnMetaW2", {"column_name": "Str", "column_type": "Opt[Str]", "hed_dict": "HedDictM"})
class_model("ColumnMapperW2", {"_final_column_map": "Map[Str,ColumnMetaW2]", "_column_map": "Map[Int,Str]", "_sidecar": "Opt[SidecarM]",
                               "_tag_columns": "List[Str]", "_optional_tag_columns": "List[Str]"})
if z3 is not None:
    from pyvc.vals import BoundMethod as _BM_w2

    def _partial_w2(interp, args, kwargs):
        """functools.partial(handler, bound): in a contract that states partial_rules, the handler must be the one of the kind of the column
        being processed and the bound argument must be that column's own annotation"""
        ctx = interp.ctx
        fn = args[0] if args else None
        if not ctx.contract.ghost.get("partial_rules") or not isinstance(fn, _BM_w2):
            return interp.opaque_call("partial", args, kwargs)
        want = {"_value_handler": "value", "_category_handler": "categorical"}.get(fn.name)
        kind = interp.eval_in_spec("column.column_type")
        own = interp.eval_in_spec("column.hed_dict")
        ok_kind = ctx.zbool(ctx.equal(kind, want)) if want is not None else z3.BoolVal(False)
        ctx.oblige("call-pre", "partial.C06.transformer.handler_is_the_one_of_the_columns_kind", ok_kind, top=True,
                   info={"callee": "functools.partial", "clause": f"{fn.name} is registered only for a column of kind {want!r}"})
        bound = args[1] if len(args) > 1 else None
        same = z3.BoolVal(False)
        if isinstance(bound, SV) and bound.ty.name == "Ref" and isinstance(own, SV) and own.ty == bound.ty:
            same = bound.t == own.t
        ctx.oblige("call-pre", "partial.C06.transformer.bound_to_the_columns_own_annotation", same, top=True,
                   info={"callee": "functools.partial", "clause": "the bound argument is column.hed_dict of the column being processed"})
        return Opaque("partial()", fresh=True)

    def _must_w2(interp, args, kwargs):
        """must_w2(label, cond): an obligation raised from a ghost update (anchored at a statement of the verified function)"""
        ctx = interp.ctx
        ctx.oblige("call-pre", args[0], ctx.zbool(ctx.truth(args[1])), top=True, info={"callee": "ghost-anchor", "clause": args[0]})
        return True
    EXTERNS["partial"] = _partial_w2
    EXTERNS["must_w2"] = _must_w2
contract("C06.each_column_gets_the_transformer_of_its_kind", file=CMP, func="ColumnMapper.get_transformers",
         params={"self": "ColumnMapperW2"}, returns="Opaque", enc="native", self_class="ColumnMapperW2", unwind="havoc",
         locals={"column": "ColumnMetaW2"},
         ghost={"partial_rules": True, "no_frame": True,
                "update": [("final_transformers[assign_to_column] = lambda x: x",
                            "g_identity = must_w2('C06.transformer.verbatim_only_for_hed_columns_never_for_ignored', "
                            "column.column_type != 'ignore' and column.column_type != 'value' and column.column_type != 'categorical')")]},
         ensures={},
         assume=["the loop over the final column map is explored as one arbitrary iteration (every column is an arbitrary ColumnMetadata); "
                 "that no column is skipped or stops the loop is C06.transformers_each_column_independently"])
contract("C06.transformers_each_column_independently", file=CMP, func="ColumnMapper.get_transformers", params={}, returns="Opaque",
         enc="native", ghost={"dataflow_only": True, "no_frame": True,
                              "independent_iterations": {0: ["final_transformers", "need_categorical"]}}, ensures={})

# ---- C16 "Dataset validation returns exactly the issues of validating ... each events file with its merged sidecar": the table object a data
# file is validated through is built from THAT file together with the CONTENTS of the merged sidecar attached to it (nothing when no sidecar
# applies); contents that are already loaded are kept unless overwriting is asked for
class_model("TabularInput", {"built_file": "Str", "built_sidecar": "Opt[SidecarM]", "columns": "List[Str]"})
class_model("BidsSidecarW2", {"_contents": "Opt[SidecarM]", "has_hed": "Bool", "file_path": "Str"})
class_model("BidsTabularFileW2", {"file_path": "Str", "sidecar": "Opt[BidsSidecarW2]", "_contents": "Opt[TabularInput]", "has_hed": "Bool"})
contract("C16.tabular_input_init_view", file="hed/models/tabular_input.py", func="TabularInput.__init__",
         params={"self": "TabularInput", "file": "Str", "sidecar": "Opt[SidecarM]", "name": "Opaque"}, returns=None, enc="native", trusted=True,
         modifies=["self.built_file", "self.built_sidecar", "self.columns"],
         ensures={"file": "self.built_file == file",
                  "sidecar": "(sidecar is None and self.built_sidecar is None) or (sidecar is not None and self.built_sidecar is sidecar)"},
         assume=["TabularInput(file, sidecar, name) reads the table from `file` and assembles / validates with `sidecar` (views built_file, "
                 "built_sidecar); its body (pandas) is not verified here"])
LOADS = "(old(self._contents) is None or overwrite)"
contract("C16.data_file_is_loaded_with_its_merged_sidecar", file="hed/tools/bids/bids_tabular_file.py", func="BidsTabularFile.set_contents",
         params={"self": "BidsTabularFileW2", "content_info": "Opaque", "overwrite": "Bool"}, returns=None, enc="native",
         self_class="BidsTabularFileW2", modifies=["self._contents", "self.has_hed"],
         ensures={
             "C16.load.loaded_contents_are_kept": "implies(not " + LOADS + ", self._contents is old(self._contents) and self.has_hed == old(self.has_hed))",
             "C16.load.table_is_read_from_this_file": "implies(" + LOADS + ", self._contents is not None and fresh(self._contents)"
                                                      " and self._contents.built_file == self.file_path)",
             "C16.load.validated_with_the_contents_of_the_merged_sidecar":
                 "implies(" + LOADS + " and self.sidecar is not None, (self.sidecar._contents is None and self._contents.built_sidecar is None)"
                 " or (self.sidecar._contents is not None and self._contents.built_sidecar is self.sidecar._contents))",
             "C16.load.no_applicable_sidecar_means_none": "implies(" + LOADS + " and self.sidecar is None, self._contents.built_sidecar is None)",
             "C16.load.has_hed_from_sidecar_or_hed_column":
                 "implies(" + LOADS + ", self.has_hed == (old(self.has_hed) or (self.sidecar is not None and self.sidecar.has_hed)"
                 " or 'HED' in self._contents.columns or 'HED_assembled' in self._contents.columns))",
         },
         assume=["TabularInput.__init__ is summarised by the views built_file / built_sidecar (trusted contract C16.tabular_input_init_view)"])

# ---- C16 "the sidecar applied to an events file is the top-down merge ... of every same-suffix JSON file ... on the path": when a chain of
# files is handed to a sidecar file object (BidsFileGroup does that with the root-to-leaf list), the Sidecar is built from exactly that
# chain, in that order; only without a chain is it built from the object's own file.  Its report name is the file's base name.
class_model("BidsSidecarSelfW2", {"file_path": "Str", "_contents": "Opaque", "has_hed": "Opaque"})
if z3 is not None:
    def _sidecar_ctor_w2(interp, args, kwargs):
        """Sidecar(files=..., name=...) in a contract that asks for it (ghost sidecar_ctor_w2): records what the sidecar is built from"""
        from pyvc.vals import ClassRef as _CR
        ctx = interp.ctx
        if not ctx.contract.ghost.get("sidecar_ctor_w2"):
            return interp.construct(_CR("Sidecar"), args, kwargs, None)
        g = ctx.ghost
        files = kwargs.get("files", args[0] if args else None)
        name = kwargs.get("name", args[1] if len(args) > 1 else None)
        g["sc_built"] = SV(INT, ctx.term(g["sc_built"], INT) + 1)
        if isinstance(files, Cell) or (isinstance(files, SV) and (files.ty.name == "List" or (files.ty.name == "Opt" and files.ty.args[0].name == "List"))):
            g["sc_is_chain"] = True
            g["sc_chain"] = files
        else:
            g["sc_is_chain"] = False
            g["sc_file"] = files
        g["sc_name"] = name
        return Opaque("Sidecar()", fresh=True)
    EXTERNS["Sidecar"] = _sidecar_ctor_w2
    EXTERNS["BidsSidecarSelfW2.is_hed"] = lambda interp, args, kwargs: Opaque("is_hed()", fresh=True)
GIVEN = "(content_info is not None and len(content_info) > 0)"
contract("C16.sidecar_object_is_built_from_the_chain_it_is_given", file="hed/tools/bids/bids_sidecar_file.py", func="BidsSidecarFile.set_contents",
         params={"self": "BidsSidecarSelfW2", "content_info": "Opt[List[Str]]", "overwrite": "Bool"}, returns=None, enc="native",
         self_class="BidsSidecarSelfW2", modifies=["self._contents", "self.has_hed"],
         ghost={"sidecar_ctor_w2": True, "init": {"sc_built": "0", "sc_is_chain": "False", "sc_file": "''", "sc_name": "''"}},
         ensures={
             "C16.merge.at_most_one_sidecar_built": "sc_built <= 1",
             "C16.merge.a_given_chain_is_what_is_merged": "implies(sc_built == 1 and " + GIVEN + ", sc_is_chain and sc_chain == content_info)",
             "C16.merge.without_a_chain_the_own_file_is_read": "implies(sc_built == 1 and not " + GIVEN + ", not sc_is_chain and sc_file == self.file_path)",
             "C16.merge.reported_under_the_files_base_name": "implies(sc_built == 1, sc_name == basename_of(self.file_path))",
         },
         assume=["self.contents (a property, == self._contents) is outside the model: whether loaded contents are kept is explored both ways, whatever "
                 "`overwrite` says (so nothing is stated about WHEN the sidecar is rebuilt, only from what); "
                 "Sidecar(files=L) merges the files of L in list order (Sidecar.load_sidecar_files: dict.update per file); is_hed not modelled"])

# ---- C16 "Dataset validation returns exactly the issues ... and the command-line validator exits non-zero iff that list is non-empty":
# validate_dataset builds the dataset from the path on the command line, validates it with the warnings flag of the command line and hands
# back THAT list whatever the output format; main's exit status is 1 exactly when the list is non-empty
HVS = "hed/scripts/hed_validator.py"
class_model("BidsDataset", {"built_root": "Str"})
class_model("CliArgsW2", {"dataset_path": "Str", "check_for_warnings": "Bool", "format": "Str", "output_file": "Opt[Str]"})
if z3 is not None:
    EXTERNS["dataset_issues_of"] = _ulist_w2("dataset_issues_of", 2)
contract("C16.bids_dataset_init_view", file="hed/tools/bids/bids_dataset.py", func="BidsDataset.__init__",
         params={"self": "BidsDataset", "root_path": "Str", "schema": "Opaque", "tabular_types": "Opaque", "exclude_dirs": "Opaque"},
         returns=None, enc="native", trusted=True, modifies=["self.built_root"], ensures={"root": "self.built_root == root_path"},
         assume=["BidsDataset(root) collects the files under root (view built_root); its body (file system) is not verified here"])
contract("C16.bids_dataset_validate_view", file="hed/tools/bids/bids_dataset.py", func="BidsDataset.validate",
         params={"self": "BidsDataset", "types": "Opaque", "check_for_warnings": "Bool"}, returns="List[Issue]", enc="native", trusted=True,
         ensures={"named": "result == dataset_issues_of(self, check_for_warnings)"},
         assume=["BidsDataset.validate is a deterministic function of the dataset and the warnings flag (view dataset_issues_of); "
                 "its loop is covered by C16.groups_each_validated"])
contract("C16.cli_hands_back_the_issues_of_the_dataset_on_the_command_line", file=HVS, func="validate_dataset",
         params={"args": "CliArgsW2"}, returns="List[Issue]", enc="native",
         raises={"ValueError": "args.format != 'json' and args.format != 'json_pp' and args.format != 'text'"},
         ghost={"update": [("assign:bids", "g_bids = bids")], "not_at_call_sites": True},
         ensures={
             "C16.cli.dataset_is_the_one_on_the_command_line": "g_bids.built_root == args.dataset_path",
             "C16.cli.issues_are_those_of_validating_it_with_the_warnings_flag": "result == dataset_issues_of(g_bids, args.check_for_warnings)",
         },
         assume=["printing / json.dumps / writing the output file do not alter the issue list (library calls: arguments are not mutated)"])
contract("C16.cli_validate_dataset_view", file=HVS, func="validate_dataset", params={"args": "Opaque"}, returns="List[Issue]", enc="native",
         trusted=True, ghost={"sets": {"cli_issues": "result"}},
         assume=["summary of validate_dataset for main(): the list it hands back is remembered (ghost cli_issues); proved of its body: "
                 "C16.cli_hands_back_the_issues_of_the_dataset_on_the_command_line"])
contract("C16.cli_exit_status_is_nonzero_iff_issues", file=HVS, func="main", params={}, returns="Int", enc="native",
         ghost={"init": {"cli_issues": "None"}},
         ensures={"C16.cli.exit_one_iff_the_issue_list_is_not_empty": "cli_issues is not None and result == (1 if len(cli_issues) > 0 else 0)"},
         assume=["argparse hands validate_dataset the parsed command line (opaque)"])

# ---- C07 "plus the column-structure ... issues" (missing / duplicate / BLANK columns): when blank names are not allowed, a blank-column
# issue is reported exactly when some column name is missing, empty or a pandas placeholder ('Unnamed: k'); nothing else is reported
BLANK = "(lambda n: n is None or len(n) == 0 or n.startswith('Unnamed: '))"
contract("C07.blank_column_names_reported", file=CMP, func="ColumnMapper.check_for_blank_names",
         params={"column_map": "List[Opt[Str]]", "allow_blank_names": "Bool"}, returns="List[Issue]", enc="native",
         locals={"issues": "List[Issue]"},
         lets={"blank": BLANK},
         ensures={
             "C07.blank.allowed_means_silent": "implies(allow_blank_names, len(result) == 0)",
             "C07.blank.reported_iff_some_name_is_blank": "implies(not allow_blank_names,"
                                                          " (len(result) > 0) == any(blank(column_map[k]) for k in range(len(column_map))))",
             "C07.blank.only_blank_column_issues": "all_in(result, lambda x: x.kind == 'HED_BLANK_COLUMN' and x.code == 'HED_BLANK_COLUMN')",
         },
         loops={0: {"invariant": [
             "(len(issues) > 0) == any(" + BLANK + "(column_map[k]) for k in range(_n))",
             "all_in(issues, lambda x: x.kind == 'HED_BLANK_COLUMN' and x.code == 'HED_BLANK_COLUMN')",
         ]}})

# ---- C07 "plus the column-structure ... issues" (missing / duplicate / blank columns, sidecar AND tag-column lists, unknown columns): the
# mapping check hands back the issues of EVERY sub-check (required + duplicates inside a list, duplicates between the lists, blank names),
# reports the sidecar-and-other-columns conflict whenever a sidecar meets tag/prefix columns other than just 'HED', and - when asked to warn -
# an unknown-column issue as soon as some file column is neither a sidecar column, a tag/prefix column nor onset/duration
class_model("MapperIssuesW2", {"tag_columns": "List[Str]", "column_prefix_dictionary": "List[Str]", "_sidecar": "Opt[SidecarM]",
                               "_warn_on_missing_column": "Bool", "sidecar_column_data": "List[Str]", "_column_map": "Map[Int,Str]"})
if z3 is not None:
    EXTERNS["required_and_duplicate_issues_of"] = _ulist_w2("required_and_duplicate_issues_of", 1)
    EXTERNS["between_lists_issues_of"] = _ulist_w2("between_lists_issues_of", 1)
    EXTERNS["blank_name_issues_of"] = _ulist_w2("blank_name_issues_of", 2)
    EXTERNS["MapperIssuesW2._get_column_lists"] = lambda interp, args, kwargs: (Opaque("column_lists"), Opaque("list_names"))

    def _issues_view_w2(name, pick):
        """a method summarised by an uninterpreted issue list: the value handed to the CODE is a list cell of that view"""
        def f(interp, args, kwargs):
            from pyvc.vals import TList, TRef
            sv = _ulist_w2(name, len(pick(args, kwargs)))(interp, pick(args, kwargs), {})
            cell = interp.ctx.wrap(sv.t, TList(TRef("Issue")))
            cell.fresh = True          # the summarised methods build and return a new list
            return cell
        return f
    EXTERNS["MapperIssuesW2._check_for_duplicates_and_required"] = _issues_view_w2("required_and_duplicate_issues_of", lambda a, k: [a[0]])
    EXTERNS["MapperIssuesW2._check_for_duplicates_between_lists"] = _issues_view_w2("between_lists_issues_of", lambda a, k: [a[0]])
    EXTERNS["MapperIssuesW2.check_for_blank_names"] = _issues_view_w2(
        "blank_name_issues_of", lambda a, k: [a[0], k.get("allow_blank_names", a[2] if len(a) > 2 else False)])
KNOWN = "(lambda c: c in self.sidecar_column_data or c in self.tag_columns or c in self.column_prefix_dictionary or c == 'onset' or c == 'duration')"
NCOMB = "(len(self.tag_columns) + len(self.column_prefix_dictionary))"
ONLYHED = ("((len(self.tag_columns) == 1 and len(self.column_prefix_dictionary) == 0 and self.tag_columns[0] == 'HED')"
           " or (len(self.tag_columns) == 0 and len(self.column_prefix_dictionary) == 1 and self.column_prefix_dictionary[0] == 'HED'))")
CONFLICT = "(self._sidecar is not None and " + NCOMB + " > 0 and not " + ONLYHED + ")"
BASELEN = "(len(required_and_duplicate_issues_of(self)) + len(between_lists_issues_of(self)) + g_conflicts)"
ISCONFLICT = "(lambda x: x.kind == 'SIDECAR_AND_OTHER_COLUMNS' and x.code == 'SIDECAR_AND_OTHER_COLUMNS' and x.severity == 1)"
ISUNKNOWN = "(lambda x: x.kind == 'HED_UNKNOWN_COLUMN' and x.code == 'HED_UNKNOWN_COLUMN')"
contract("C07.mapping_check_runs_every_sub_check", file=CMP, func="ColumnMapper.check_for_mapping_issues",
         params={"self": "MapperIssuesW2", "allow_blank_names": "Bool"}, returns="List[Issue]", enc="native", self_class="MapperIssuesW2",
         locals={"issues": "List[Issue]"},
         ghost={"init": {"g_conflicts": "0"},
                "update": [("issues += ErrorHandler.format_error(ValidationErrors.SIDECAR_AND_OTHER_COLUMNS, column_names=combined_list)",
                            "g_conflicts = g_conflicts + 1")]},
         ensures={
             "C07.mapping.required_and_duplicate_issues_kept": "all_in(required_and_duplicate_issues_of(self), lambda x: x in result)",
             "C07.mapping.between_lists_issues_kept": "all_in(between_lists_issues_of(self), lambda x: x in result)",
             "C07.mapping.blank_name_issues_kept": "all_in(blank_name_issues_of(self, allow_blank_names), lambda x: x in result)",
             "C07.mapping.sidecar_and_other_columns_conflict_reported":
                 "implies(" + CONFLICT + ", any_in(result, " + ISCONFLICT + "))",
             "C07.mapping.unknown_column_warned": "implies(self._warn_on_missing_column and any(not " + KNOWN + "(c) for c in self._column_map.values()),"
                                                  " any_in(result, " + ISUNKNOWN + "))",
             "C07.mapping.nothing_invented_when_every_column_is_known":
                 "implies(not self._warn_on_missing_column or all(" + KNOWN + "(c) for c in self._column_map.values()),"
                 " len(result) == " + BASELEN + " + len(blank_name_issues_of(self, allow_blank_names)))",
             "C07.mapping.conflict_only_with_a_sidecar_and_other_columns":
                 "g_conflicts <= 1 and implies(g_conflicts == 1, self._sidecar is not None and " + NCOMB + " > 0)",
         },
         loops={0: {"invariant": [
             "implies(all(" + KNOWN + "(self._column_map.items()[k][1]) for k in range(_n)), len(issues) == " + BASELEN + ")",
             "all_in(required_and_duplicate_issues_of(self), lambda x: x in issues)",
             "all_in(between_lists_issues_of(self), lambda x: x in issues)",
             "implies(" + CONFLICT + ", any_in(issues, " + ISCONFLICT + "))",
             "g_conflicts <= 1 and implies(g_conflicts == 1, self._sidecar is not None and " + NCOMB + " > 0)",
             "implies(any(not " + KNOWN + "(self._column_map.items()[k][1]) for k in range(_n)), any_in(issues, " + ISUNKNOWN + "))",
         ]}},
         assume=["_get_column_lists / _check_for_duplicates_and_required / _check_for_duplicates_between_lists / check_for_blank_names are the "
                 "deterministic views required_and_duplicate_issues_of / between_lists_issues_of / blank_name_issues_of (their loops: "
                 "C07.*_each independence contracts; check_for_blank_names: C07.blank_column_names_reported)",
                 "tag_columns / column_prefix_dictionary / sidecar_column_data (properties) are read as fields of the model; the two dictionaries "
                 "are seen through the list of their keys (all this function does with them is list(...))"])

# ---- iteration independence (def-before-use analysis of the real loop bodies): every column / list / reference / file is judged or collected
# on its own - nothing computed for one element reaches a later one, the accumulator is only extended, no element is skipped by a break
BFG = "hed/tools/bids/bids_file_group.py"
TABLE_W2 = [
    # C07 "plus the column-structure ... issues": one issue per blank column / per missing or duplicated column, whatever stands before it
    ("C07.blank_names_each_column", "C07", CMP, "ColumnMapper.check_for_blank_names", {0: ["issues"]}),
    ("C07.required_and_duplicates_each_list", "C07", CMP, "ColumnMapper._check_for_duplicates_and_required", {0: ["issues"], 1: ["issues"]}),
    ("C07.duplicates_each_reported", "C07", CMP, "ColumnMapper._check_for_duplicates_between_lists", {0: ["issues"]}),
    ("C07.unknown_columns_each_checked", "C07", CMP, "ColumnMapper.check_for_mapping_issues", {0: ["issues"]}),
    # C08 "curly-brace references are balanced, name existing HED-bearing columns (or HED), and are neither self-referencing nor nested"
    ("C08.references_screened_each_column_and_entry", "C08", SCV, "SidecarValidator._validate_refs",
     {0: ["issues", "found_column_references"], 1: ["issues", "matches"], 2: ["new_issues"], 3: ["new_issues"], 4: ["issues"], 5: ["issues"]}),
    # C16 "every same-suffix JSON file that lies in a directory on the path" / "files in excluded directories take no part": discovery
    ("C16.file_list_each_directory_and_file", "C16", IO, "get_file_list", {0: ["file_list"], 1: ["file_list"]}),
    ("C16.dir_dictionary_each_directory_and_file", "C16", IO, "get_dir_dictionary", {0: ["dir_dict"], 1: ["file_list"]}),
    ("C16.sidecar_objects_each_file", "C16", BFG, "BidsFileGroup._make_sidecar_dict", {0: ["file_dict"]}),
    ("C16.datafile_objects_each_file", "C16", BFG, "BidsFileGroup._make_datafile_dict", {0: ["file_dict"]}),
    ("C16.sidecars_by_directory_each_directory_and_file", "C16", BFG, "BidsFileGroup._make_sidecar_dir_dict",
     {0: ["sidecar_dir_dict"], 1: ["new_dir_list"]}),
]
for _cid, _prop, _f, _fn, _loops in TABLE_W2:
    contract(_cid, file=_f, func=_fn, params={}, returns="Opaque", enc="native", prop=_prop,
             ghost={"dataflow_only": True, "no_frame": True, "independent_iterations": _loops}, ensures={})

# ---- C06 "a column referenced in curly braces is spliced in place of the reference and not listed separately" / "changes neither the table
# nor the sidecar": the references that are spliced are exactly those naming a column of the assembled table (a reference to anything else is
# left alone, not a KeyError), the columns that stay listed are exactly the others, and the splice writes a copy, never the table it is given
contract("C06.spliced_and_remaining_columns", file="hed/models/df_util.py", func="_handle_curly_braces_refs",
         params={"df": "Opaque", "refs": "List[Str]", "column_names": "List[Str]"}, returns="Opaque", enc="native", unwind="havoc",
         locals={"refs": "List[Str]", "remaining_columns": "List[Str]"},
         ghost={"update": [("assign:refs", "g_refs = refs"), ("assign:remaining_columns", "g_rest = remaining_columns")]},
         ensures={
             "C06.splice.spliced_are_the_references_that_name_a_column":
                 "forall_str(lambda p: (p in g_refs) == (p in old(refs) and p in column_names))",
             "C06.splice.listed_are_the_columns_not_referenced":
                 "forall_str(lambda p: (p in g_rest) == (p in column_names and not (p in old(refs))))",
         },
         assume=["table values are pandas objects (opaque); the two loops are explored as one arbitrary iteration (frame: every item assignment "
                 "goes to the copy made by this call)"])

# ---- C06 "a column referenced in curly braces is spliced in place of the reference": the references used when a table is assembled are
# those of the sidecar the table is attached to NOW (the one reset_column_mapper stored), none without a sidecar
if z3 is not None:
    def _column_refs_of(interp, args, kwargs):
        from pyvc.vals import TList
        ty = TList(STR)
        f = z3.Function("column_refs_of", z3.IntSort(), sort_of(ty))
        a = args[0]
        t = sort_of(a.ty).val(a.t) if a.ty.name == "Opt" else a.t      # an optional argument denotes its value (the clause guards None)
        return interp.ctx.wrap(f(t), ty)
    EXTERNS["column_refs_of"] = lambda interp, args, kwargs: _column_refs_of(interp, args, kwargs).sym
    EXTERNS["SidecarM.get_column_refs"] = _column_refs_of
contract("C06.table_references_are_those_of_its_sidecar", file="hed/models/tabular_input.py", func="TabularInput.get_column_refs",
         params={"self": "TabularInputM"}, returns="List[Str]", enc="native", self_class="TabularInputM",
         ensures={
             "C06.refs.of_the_attached_sidecar": "implies(self._sidecar is not None, result == column_refs_of(self._sidecar))",
             "C06.refs.none_without_a_sidecar": "implies(self._sidecar is None, len(result) == 0)",
         },
         assume=["Sidecar.get_column_refs (pandas str.findall over the annotation texts) is the deterministic view column_refs_of"])


# ---- C08 "flags each structural fault ... labelled" (C12 labels): gathering the definitions of a sidecar leaves the error-context stack as it
# found it on every path - the column / key / string contexts pushed for one annotation are popped before the next one, so the issues of
# later columns (and of the validation that follows) are not labelled with an earlier column or key
if z3 is not None:
    def _check_for_definitions_w2(interp, args, kwargs):
        """DefinitionDict.check_for_definitions: in the context-balance contract of Sidecar.extract_definitions it is an opaque call (it pushes
        and pops nothing: it only reads error_handler.error_context); everywhere else the body is inlined exactly as without this entry"""
        if interp.ctx.contract.cid == "C08.context.extract_definitions":
            return interp.opaque_call("DefinitionDict.check_for_definitions", args[1:], kwargs)
        inl = interp.auto_inline(args[0], "DefinitionDict", "check_for_definitions", list(args[1:]), kwargs)
        if inl is None:
            raise Unsupported("no contract for method DefinitionDict.check_for_definitions")
        return inl[0]
    EXTERNS["DefinitionDict.check_for_definitions"] = _check_for_definitions_w2
G_W2 = {"vars": {"ctx_depth0": "Int"}, "init": {"ctx_depth": "ctx_depth0"}, "no_frame": True}
contract("C08.context.extract_definitions", file="hed/models/sidecar.py", func="Sidecar.extract_definitions",
         params={"self": "Opaque", "hed_schema": "Opaque", "error_handler": "ErrorHandlerCtx"}, returns="Opaque", enc="native", prop="C08",
         ghost=dict(G_W2), ensures={"C08.context.stack_balanced": "ctx_depth == ctx_depth0"}, unwind="havoc",
         modifies=["param:self._extract_definition_issues"],
         assume=["loops explored as one arbitrary iteration from a havocked state (sound for the ghost balance); values opaque; the "
                 "error_handler=None default (a new ErrorHandler) is not explored",
                 "DefinitionDict.check_for_definitions neither pushes nor pops an error context (summarised as an opaque call)"])

# ---- C06 "the annotation assembled for a row is the union of ... skipping cells that are n/a or empty" / "one annotation per row": the
# columns of the assembled table are combined ROW-wise (axis=1), and the text of a row is the ', '-join of exactly those of its cells that
# are neither empty nor 'n/a'
class_model("RowFrameW2", {})
if z3 is not None:
    import ast as _ast_w2

    def _w2_on(interp):
        return bool(interp.ctx.contract.ghost.get("row_lambda_w2"))

    def _map_w2(interp, args, kwargs):
        """map(str, L) for a list of texts is L itself (only in the contract that asks for it)"""
        from pyvc.vals import Builtin as _B
        if _w2_on(interp) and len(args) == 2 and isinstance(args[0], _B) and args[0].name == "str" and isinstance(args[1], Cell) \
                and args[1].kind == "list" and args[1].sym is not None and args[1].sym.ty.args[0] == STR:
            return args[1]
        return interp.opaque_call("map", args, kwargs)

    def _filter_w2(interp, args, kwargs):
        """filter(f, L) == [e for e in L if f(e)] (the engine's own comprehension model); the kept list is remembered (ghost kept_cells)"""
        if not (_w2_on(interp) and len(args) == 2 and isinstance(args[1], Cell) and args[1].kind == "list"):
            return interp.opaque_call("filter", args, kwargs)
        interp.env["__w2_f"], interp.env["__w2_L"] = args[0], args[1]
        node = _ast_w2.parse("[__w2_e for __w2_e in __w2_L if __w2_f(__w2_e)]", mode="eval").body
        r = interp.eval(node)
        interp.ctx.ghost["kept_cells"] = r
        return r

    def _apply_w2(interp, args, kwargs):
        """frame.apply(f, axis=...): f is run on ONE arbitrary row (a list of cell texts); the row and its text are remembered"""
        from pyvc.vals import TList
        ctx = interp.ctx
        axis = kwargs.get("axis", args[2] if len(args) > 2 else 0)
        ctx.oblige("call-pre", "apply.C06.combine.rows_not_columns(axis == 1)", z3.BoolVal(axis == 1), top=True,
                   info={"callee": "DataFrame.apply", "clause": f"axis must be 1 (one text per ROW); found {axis!r}"})
        row = ctx.fresh(TList(STR), "row")
        ctx.ghost["row_cells"] = row
        ctx.ghost["row_text"] = interp.call(args[1], [row], {})
        ctx.ghost["rows_combined"] = True
        return Opaque("apply()", fresh=True)
    EXTERNS["map"] = _map_w2
    EXTERNS["filter"] = _filter_w2
    EXTERNS["RowFrameW2.apply"] = _apply_w2
contract("C06.row_text_joins_the_cells_that_are_not_empty_or_na", file=BI, func="BaseInput.combine_dataframe",
         params={"dataframe": "RowFrameW2"}, returns="Opaque", enc="native",
         ghost={"row_lambda_w2": True, "init": {"rows_combined": "False"}},
         ensures={
             "C06.combine.applied_to_the_rows": "rows_combined",
             "C06.combine.kept_cells_are_those_not_empty_and_not_na":
                 "forall_str(lambda p: (p in kept_cells) == (p in row_cells and len(p) > 0 and p != 'n/a'))",
             "C06.combine.row_text_is_the_comma_space_join_of_the_kept_cells": "row_text == ', '.join(kept_cells)",
         },
         assume=["DataFrame.apply(f, axis=1) calls f once per row with the row's cells and collects the answers in row order; "
                 "cells are texts (the tables are read with dtype=str), so map(str, row) is the row; filter(f, L) keeps, in order, the e of L with f(e)"])

# ---- C16 "the sidecar applied to an events file is the top-down merge ... of every same-suffix JSON file that lies in a directory on the path
# from the dataset root to the file and whose filename entities all occur ... (at most one such file per directory)": the chain collected for
# a file visits the directories from the root down (each the real path of the previous one joined with the next component), asks the
# per-directory search (C16.get_sidecar_for_obj: the first applicable sidecar of that directory, None iff there is none) for EVERY one of
# them, and lists the file of every answer that is not None - in root-to-leaf order, each a sidecar of its own directory, at most one each
if z3 is not None:
    from pyvc.vals import TList as _TL_w2
    _LS = sort_of(_TL_w2(STR))
    _dir_at = z3.Function("dir_at", _LS, z3.IntSort(), z3.StringSort())

    def _dir_at_w2(interp, args, kwargs):
        """dir_at(P, k): the directory reached after k components of P, defined by dir_at(P, 0) = '' and
        dir_at(P, k+1) = realpath(join(dir_at(P, k), P[k])) (a recursive DEFINITION, asserted for the list it is used with)"""
        from contracts.extern_fs import _join, _realpath
        ctx = interp.ctx
        lst = args[0]
        t = lst.sym.t if isinstance(lst, Cell) else lst.t
        k = z3.Int(ctx.fresh_name("k"))
        key = ("dir_at_axiom", str(t))
        if key not in ctx.ghost:
            ctx.ghost[key] = True
            ctx.assume(_dir_at(t, 0) == z3.StringVal(""))
            ctx.assume(z3.ForAll([k], z3.Implies(k >= 0, _dir_at(t, k + 1) == _realpath(_join(_dir_at(t, k), z3.Select(_LS.data(t), k)))),
                                 patterns=[_dir_at(t, k + 1)]))
        return SV(STR, _dir_at(t, ctx.term(args[1], INT)))

    def _components_below(interp, args, kwargs):
        f = z3.Function("components_below", z3.StringSort(), z3.StringSort(), _LS)
        r = f(interp.ctx.strs.to_native(args[0]), interp.ctx.strs.to_native(args[1]))
        cell = interp.ctx.wrap(r, _TL_w2(STR))
        return cell
    def _appended_w2(interp, args, kwargs):
        """appended_w2(L, x): the list L followed by x (specification only: a new list value, nothing is mutated)"""
        ctx = interp.ctx
        lst = args[0]
        if isinstance(lst, Cell) and lst.sym is None:
            # (an empty concrete list has no element type of its own: the optional third argument names it)
            interp.symbolise(lst, interp.ptype(args[2]) if len(args) > 2 else _TL_w2(INT)) if not lst.conc else interp.symbolise(lst)
        sv = lst.sym if isinstance(lst, Cell) else lst
        so = sort_of(sv.ty)
        r = z3.Const(ctx.fresh_name("appended"), so)
        k = z3.Int(ctx.fresh_name("k"))
        ctx.assume(so.len(r) == so.len(sv.t) + 1)
        ctx.assume(z3.ForAll([k], z3.Implies(z3.And(0 <= k, k < so.len(sv.t)), z3.Select(so.data(r), k) == z3.Select(so.data(sv.t), k)),
                             patterns=[z3.Select(so.data(r), k)]))
        ctx.assume(z3.Select(so.data(r), so.len(sv.t)) == ctx.term(args[1], sv.ty.args[0]))
        return ctx.wrap(r, sv.ty)
    EXTERNS["appended_w2"] = _appended_w2
    EXTERNS["dir_at"] = _dir_at_w2
    EXTERNS["components_below"] = lambda interp, args, kwargs: _components_below(interp, args, kwargs).sym
contract("C16.path_components_view", file=IO, func="get_path_components", params={"root_path": "Str", "this_path": "Str"},
         returns="List[Str]", enc="native", trusted=True, ensures={"named": "result == components_below(root_path, this_path)"},
         assume=["io_util.get_path_components (os.path.relpath / normpath / split) is the deterministic view components_below: the directory "
                 "names between the root and the file, outermost first"])
from contracts.c16_bids import APPLIES
DIRK = "dir_at(g_P, g_idx[i] + 1)"
FOUND = ("all(0 <= g_idx[i] and g_idx[i] < {n} and " + DIRK + " in self.sidecar_dir_dict and any(self.sidecar_dir_dict[" + DIRK + "][j].file_path == {lst}[i]"
         " for j in range(len(self.sidecar_dir_dict[" + DIRK + "]))) for i in range(len({lst})))")
ORDER = "all(g_idx[i] < g_idx[i + 1] for i in range(len(g_idx) - 1))"
DIRQ = "dir_at(g_P, k + 1)"
ANSWERS = ("len(g_ans) == {n} and all(implies(g_ans[k] is not None, any(g_idx[i] == k and {lst}[i] == g_ans[k].file_path for i in range(len(g_idx))))"
           " for k in range({n}))")
contract("C16.chain_is_collected_root_down_one_answer_per_directory", file=BFG, func="BidsFileGroup.get_sidecars_from_path",
         params={"self": "BidsFileGroup", "obj": "BidsFile"}, returns="List[Str]", enc="native",
         locals={"sidecar_list": "List[Str]", "path_components": "List[Str]"},
         ghost={"init": {"g_idx": "[]", "g_ans": "[]"},
                "update": [("assign:path_components", "g_P = path_components"),
                           ("assign:next_sidecar", "g_ans = appended_w2(g_ans, next_sidecar, 'List[Opt[BidsSidecarFile]]')"),
                           ("sidecar_list.append(next_sidecar.file_path)", "g_idx = appended_w2(g_idx, _n)")]},
         ensures={
             "C16.chain.starts_at_the_root_then_the_components_below_it":
                 "len(g_P) == 1 + len(components_below(self.root_path, obj.file_path)) and g_P[0] == self.root_path"
                 " and all(g_P[k + 1] == components_below(self.root_path, obj.file_path)[k] for k in range(len(g_P) - 1))",
             # g_idx[i]: the position on the path (0 = root) of the directory in which the i-th listed file was found
             "C16.chain.every_listed_file_is_a_sidecar_of_its_directory_on_the_path": "len(g_idx) == len(result) and " + FOUND.format(n="len(g_P)", lst="result"),
             "C16.chain.listed_from_the_root_down_at_most_one_per_directory": ORDER,
             # g_ans[k]: what the per-directory search (C16.get_sidecar_for_obj) answered for the k-th directory on the path
             "C16.chain.the_answer_for_every_directory_on_the_path_is_used": ANSWERS.format(n="len(g_P)", lst="result"),
         },
         loops={0: {"ghost": {"g_idx": "List[Int]", "g_ans": "List[Opt[BidsSidecarFile]]"}, "invariant": [
             "current_path == dir_at(g_P, _n)",
             "len(g_idx) == len(sidecar_list)",
             FOUND.format(n="_n", lst="sidecar_list"),
             ORDER,
             ANSWERS.format(n="_n", lst="sidecar_list"),
         ]}},
         assume=["the directory reached after k components is dir_at (recursive definition over os.path.realpath / os.path.join, both uninterpreted)"])
