"""Contracts written by w4 (C03, C11, C13, C14, C19): functions of the schema package that had no contract."""
from pyvc.contract import contract, class_model, EXTERNS, CLASSES
try:
    import z3
    from pyvc.vals import SV, Cell, Opaque, Unsupported, INT, BOOL, REAL, STR, TRef, TOpt, TList, sort_of
except ImportError:
    z3 = None

HC = "hed/schema/hed_cache.py"

# C19 "loading a bundled schema version by number ... returns the bundled schema": the file name asked from a folder for (version, library,
# prerelease) is exactly HED<version>.xml / HED_<library>_<version>.xml, under prerelease/ when asked, inside the folder handed in
contract("C19.xml_filename_is_the_served_name", file=HC, func="_create_xml_filename",
         params={"hed_xml_version": "Str", "library_name": "Str", "hed_directory": "Opt[Str]", "prerelease": "Bool"},
         returns="Str", enc="native", ghost={"not_at_call_sites": True},     # callers pass library_name=None: they use the view below
         lets={"base": "('prerelease/' if prerelease else '') + ('HED_' + library_name + '_' if len(library_name) > 0 else 'HED')"
                       " + hed_xml_version + '.xml'"},
         ensures={
             "C19.name.basename_is_prefix_library_version_extension": "implies(hed_directory is None or len(hed_directory) == 0, result == base)",
             "C19.name.inside_the_folder_handed_in": "implies(hed_directory is not None and len(hed_directory) > 0, result == os.path.join(hed_directory, base))",
         })


def _uf_w4(name, argtys, retty):
    """uninterpreted function of typed arguments (specification views of trusted callees); an opaque argument denotes some value"""
    def f(interp, args, kwargs):
        ctx = interp.ctx
        ts = []
        for a, tn in zip(args, argtys):
            ty = interp.ptype(tn)
            if isinstance(a, Opaque):
                a = ctx.fresh(ty, "opq_" + name)
            ts.append(ctx.term(a, ty))
        rty = interp.ptype(retty)
        fn = z3.Function(name, *[t.sort() for t in ts], sort_of(rty))
        return ctx.wrap(fn(*ts), rty)
    return f


if z3 is not None:
    # the two module-level folders of hed_cache.py as fixed (unknown) texts: every read of the global denotes the same folder
    EXTERNS["HED_CACHE_DIRECTORY"] = SV(STR, z3.String("HED_CACHE_DIRECTORY"))
    EXTERNS["INSTALLED_CACHE_LOCATION"] = SV(STR, z3.String("INSTALLED_CACHE_LOCATION"))
    EXTERNS["cached_versions_of"] = _uf_w4("cached_versions_of", ["Opt[Str]", "Opt[Str]", "Bool"], "List[Str]")
    EXTERNS["is_file_w4"] = _uf_w4("is_file_w4", ["Str"], "Bool")
    EXTERNS["xml_name_of"] = _uf_w4("xml_name_of", ["Str", "Opt[Str]", "Opt[Str]", "Bool"], "Str")

    def _folder_asked(interp, args, kwargs):
        """folder_asked(d): the folder text d, or the cache folder when d is None or empty (specification only)"""
        ctx = interp.ctx
        ty = TOpt(STR)
        so = sort_of(ty)
        t = ctx.term(args[0], ty)
        return SV(STR, z3.If(z3.Or(so.is_none(t), z3.Length(so.val(t)) == 0), EXTERNS["HED_CACHE_DIRECTORY"].t, so.val(t)))
    EXTERNS["folder_asked"] = _folder_asked
    _isfile0 = EXTERNS["os.path.isfile"]
    EXTERNS["os.path.isfile"] = lambda interp, args, kwargs: (EXTERNS["is_file_w4"](interp, args, kwargs)
                                                              if "fs_isfile_is_a_function_of_the_path" in interp.ctx.ghost
                                                              else _isfile0(interp, args, kwargs))

# trusted summaries of the two callees of get_hed_version_path (their own rules: C19.xml_filename_is_the_served_name; get_hed_versions
# reads the folder with os.listdir and matches names with a compiled pattern - outside the subset, exercised by rt/c19)
contract("C19.get_hed_versions_view", file=HC, func="get_hed_versions",
         params={"local_hed_directory": "Opt[Str]", "library_name": "Opt[Str]", "check_prerelease": "Bool"}, returns="List[Str]",
         enc="native", trusted=True,
         ensures={"view": "result == cached_versions_of(local_hed_directory, library_name, check_prerelease)"},
         assume=["get_hed_versions(folder, library, prerelease) for one library is a list of version texts, a function of its arguments "
                 "at the time of the call (None stands for the default cache folder)"])
contract("C19.create_xml_filename_view", file=HC, func="_create_xml_filename",
         params={"hed_xml_version": "Str", "library_name": "Opt[Str]", "hed_directory": "Opt[Str]", "prerelease": "Bool"},
         returns="Str", enc="native", trusted=True,
         ensures={"view": "result == xml_name_of(hed_xml_version, library_name, hed_directory, prerelease)"},
         assume=["_create_xml_filename is a function of its arguments (its rule is proved as C19.xml_filename_is_the_served_name)"])

# C19 "loading a bundled schema version by number succeeds ... regardless of the state in which an earlier or concurrent process left the
# cache directory": a version the folder holds is served from the folder; a version it does not (yet) hold is served from the installed copy
# exactly when the folder asked is the cache folder (in any spelling) and no prerelease is asked; nothing else is ever handed out
FOLDER = "folder_asked(local_hed_directory)"
contract("C19.version_path_falls_back_to_the_installed_copy", file=HC, func="get_hed_version_path",
         params={"xml_version": "Str", "library_name": "Opt[Str]", "local_hed_directory": "Opt[Str]", "check_prerelease": "Bool"},
         returns="Opt[Str]", enc="native",
         ghost={"init": {"fs_isfile_is_a_function_of_the_path": "True"}, "not_at_call_sites": True},   # callers use the view (cache epochs)
         lets={"folder": FOLDER,
               "held": "len(xml_version) > 0 and xml_version in cached_versions_of(" + FOLDER + ", library_name, check_prerelease)",
               "installed": "xml_name_of(xml_version, library_name, INSTALLED_CACHE_LOCATION, False)",
               "is_cache": "os.path.realpath(" + FOLDER + ") == os.path.realpath(HED_CACHE_DIRECTORY)"},
         ensures={
             "C19.path.held_version_is_served_from_the_folder_asked": "implies(held, result == xml_name_of(xml_version, library_name, folder, check_prerelease))",
             "C19.path.missing_bundled_version_is_served_from_the_installed_copy":
                 "implies(not held and len(xml_version) > 0 and is_cache and not check_prerelease and is_file_w4(installed), result == installed)",
             "C19.path.no_fallback_for_another_folder_or_a_prerelease": "implies(not held and not (is_cache and not check_prerelease), result is None)",
             "C19.path.nothing_served_that_does_not_exist": "implies(not held and not (len(xml_version) > 0 and is_file_w4(installed)), result is None)",
         },
         assume=["os.path.isfile is a function of the path during the call; os.path.realpath is an uninterpreted function of the text"])


# ----------------------------------------------------------------------------------------------------------------------------------
# C19 "version lookup then load, with fallback to re-caching" / C13 "partnered library": _load_schema_version_sub
IO = "hed/schema/hed_schema_io.py"
if z3 is not None:
    from pyvc import contract as _C4
    EXTERNS["version_path_of"] = _uf_w4("version_path_of", ["Int", "Str", "Opt[Str]", "Opt[Str]", "Bool"], "Opt[Str]")
    EXTERNS["version_error_of"] = _uf_w4("version_error_of", ["Str"], "Str")

    def _load_schema_recording(interp, args, kwargs):
        """load_schema(path, schema=..., name=...) at a call site: the registered contract of load_schema (C13), plus - when the caller's
        contract declares the ghost variables - a record of the path and of the `schema=` argument of the calls that returned"""
        from pyvc.core import PyRaise
        from pyvc.vals import ExcValue
        ctx = interp.ctx
        g = ctx.ghost
        args = list(args)
        p0 = args[0] if args else kwargs.get("hed_path")
        if p0 is None or (isinstance(p0, SV) and p0.ty.name == "Opt"):
            # load_schema(None): the first statement of load_schema (`if not hed_path: raise HedFileError(FILE_NOT_FOUND ...)`)
            so = sort_of(TOpt(STR))
            if p0 is None or ctx.decide(so.is_none(p0.t), "load_schema(None)"):
                if "loads_tried" in g and not ctx.spec:
                    g["loads_tried"] = SV(INT, ctx.term(g["loads_tried"], INT) + 1)
                raise PyRaise(ExcValue("HedFileError"))
            p0 = ctx.wrap(so.val(p0.t), STR)
            if args:
                args[0] = p0
            else:
                kwargs = dict(kwargs, hed_path=p0)
        if "loads_tried" in g and not ctx.spec:
            g["loads_tried"] = SV(INT, ctx.term(g["loads_tried"], INT) + 1)
        res = interp.apply_contract(_C4.CONTRACTS["C13.loaded_schema_carries_the_prefix_asked_for"], None, args, kwargs)
        if "loads_done" in g and not interp.ctx.spec:
            g["loads_done"] = SV(INT, interp.ctx.term(g["loads_done"], INT) + 1)
            g["loaded_path"] = args[0] if args else kwargs.get("hed_path")
            g["loaded_into"] = kwargs.get("schema", args[2] if len(args) > 2 else None)
            g["loaded_result"] = res
        return res
    EXTERNS["load_schema"] = _load_schema_recording

contract("C19.get_hed_version_path_view", file=HC, func="get_hed_version_path",
         params={"xml_version": "Str", "library_name": "Opt[Str]", "local_hed_directory": "Opt[Str]", "check_prerelease": "Bool"},
         returns="Opt[Str]", enc="native", trusted=True,
         ensures={"view": "result == version_path_of(cache_epoch, xml_version, library_name, local_hed_directory, check_prerelease)"},
         assume=["between two refreshes of the cache get_hed_version_path is a function of its arguments (its rule is proved as "
                 "C19.version_path_falls_back_to_the_installed_copy); the ghost counter cache_epoch counts the refreshes"])
contract("C19.cache_xml_versions_view", file=HC, func="cache_xml_versions",
         params={"hed_base_urls": "Opaque", "hed_library_urls": "Opaque", "skip_folders": "Opaque", "cache_folder": "Opt[Str]"},
         returns="Int", enc="native", trusted=True, ghost={"sets": {"cache_epoch": "cache_epoch + 1", "refreshed_folder": "cache_folder"}},
         ensures={}, assume=["cache_xml_versions lets no exception escape (its own handler returns -1) and may change what the folder holds"])
contract("C19.validate_version_string_view", file="hed/schema/schema_header_util.py", func="validate_version_string",
         params={"version_string": "Str"}, returns="Str", enc="native", trusted=True,
         ensures={"view": "result == version_error_of(version_string)"},
         assume=["validate_version_string returns the parser's message for a text that is not a semantic version and False (modelled as '') otherwise"])

class_model("HedFileErrorW4", {"code": "Str"})
LIB = "(xml_version.rpartition('_')[0] if '_' in xml_version else None)"
VER = "(xml_version.rpartition('_')[2] if '_' in xml_version else xml_version)"
contract("C19.version_is_looked_up_in_the_folder_asked_then_refreshed_once", file=IO, func="_load_schema_version_sub",
         params={"xml_version": "Str", "schema_namespace": "Str", "xml_folder": "Opt[Str]", "schema": "Opt[HedSchemaNS]", "name": "Opaque"},
         returns="HedSchemaNS", enc="native", also=["C13"],
         raises={"HedFileError": True}, modifies=["heap:HedSchemaNS._namespace"],
         ghost={"init": {"cache_epoch": "0", "refreshed_folder": "None", "loads_done": "0", "loads_tried": "0", "loaded_path": "''", "loaded_into": "None",
                         "loaded_result": "None"}},
         lets={"first": "version_path_of(0, " + VER + ", " + LIB + ", xml_folder, False)",
               "second": "version_path_of(1, " + VER + ", " + LIB + ", xml_folder, False)",
               "third": "version_path_of(1, " + VER + ", " + LIB + ", xml_folder, True)"},
         ensures={
             # C19: the folder handed to the cache is the caller's folder, unchanged; a version the cache answers is loaded from that answer
             "C19.sub.loaded_from_what_the_cache_answers_for_the_folder_asked":
                 "loads_done >= 1 and (loaded_path == first if cache_epoch == 0 else"
                 " (second is not None and len(second) > 0 and loaded_path == second) or"
                 " ((second is None or len(second) == 0) and third is not None and len(third) > 0 and loaded_path == third))",
             # C19: on a miss the cache is refreshed once (for the folder asked) and asked again - never more
             "C19.sub.refreshed_at_most_once_and_for_the_folder_asked": "cache_epoch <= 1 and implies(cache_epoch == 1, refreshed_folder == xml_folder)",
             # C13 "a library schema partnered with a standard schema ...": the schema to merge into is handed on to the load that succeeds
             "C13.sub.partner_schema_handed_to_the_final_load": "(loaded_into is None) == (schema is None) and implies(schema is not None, loaded_into is schema)",
             "C13.sub.result_is_what_was_loaded": "result is loaded_result",
             # C13 "an annotation whose tags all carry prefix p": the prefix asked for is set on what is handed back
             "C13.sub.prefix_asked_for_is_set": "implies(len(schema_namespace) > 0, len(result._namespace) > 0 and result._namespace[len(result._namespace) - 1] == ':')",
             # C19 "finally check for a pre-release one": after the refresh the load is given up only when the folder asked holds the version
             # neither as a release nor as a prerelease
             "exc:C19.sub.given_up_only_when_neither_release_nor_prerelease_is_held":
                 "implies(cache_epoch == 1 and loads_tried == 1, (second is None or len(second) == 0) and (third is None or len(third) == 0))",
             # a missing or malformed version number is refused before anything is looked up, refreshed or loaded
             "exc:C19.sub.malformed_version_refused_before_any_lookup":
                 "implies(len(xml_version) == 0 or len(version_error_of(" + VER + ")) > 0, cache_epoch == 0 and loads_done == 0)",
         },
         assume=["the exception object's code is not modelled: both the FILE_NOT_FOUND branch and the re-raise are explored for every failing first attempt"])


# ----------------------------------------------------------------------------------------------------------------------------------
# C13 "an unprefixed annotation is judged as against the unprefixed schema alone, and a prefix that is not loaded ... is an error":
# a single schema answers for its own prefix and for no other
HS = "hed/schema/hed_schema.py"
contract("C13.single_schema_serves_only_its_own_prefix", file=HS, func="HedSchema.schema_for_namespace",
         params={"self": "HedSchema", "namespace": "Str"}, returns="Opt[HedSchema]", enc="native",
         ensures={"C13.single.own_prefix_is_served_by_the_schema_itself": "implies(namespace == self._namespace, result is self)",
                  "C13.single.other_prefix_is_not_served": "implies(namespace != self._namespace, result is None)"})

# C13/C03 "with the schema's namespace prefix ... identified as the same schema node": looking a tag up by name under the schema's own
# prefix gives the node of the name without the prefix; under any other prefix it gives nothing
contract("C13.tag_entry_by_name_under_own_prefix_only", file=HS, func="HedSchema.get_tag_entry",
         params={"self": "HedSchema", "name": "Str", "key_class": "Str", "schema_namespace": "Str"}, returns="Opt[TagEntry]", enc="native",
         also=["C03"],
         ensures={
             "C13.byname.other_prefix_finds_nothing": "implies(key_class == 'tags' and schema_namespace != self._namespace, result is None)",
             "C13.byname.prefix_is_stripped_once": "implies(key_class == 'tags' and schema_namespace == self._namespace and name.startswith(self._namespace),"
                                                   " result == tag_view(self, name[len(self._namespace):]))",
             "C13.byname.unprefixed_name_as_it_is": "implies(key_class == 'tags' and schema_namespace == self._namespace and not name.startswith(self._namespace),"
                                                    " result == tag_view(self, name))",
         },
         assume=["only the tag section (key_class == HedSectionKey.Tags) is covered (other sections have no prefix rule); the section lookup is the trusted view C03.get_tag_entry"])

# C13 dispatch (by name): a group hands a name lookup to the schema owning the prefix and to no other; an unloaded prefix finds nothing
HG = "hed/schema/hed_schema_group.py"
contract("C13.group_tag_entry_by_name_is_the_owners_answer", file=HG, func="HedSchemaGroup.get_tag_entry",
         params={"self": "HedSchemaGroup", "name": "Str", "key_class": "Str", "schema_namespace": "Str"}, returns="Opt[TagEntry]", enc="native",
         ensures={
             "C13.byname.unloaded_prefix_finds_nothing": "implies(schema_namespace not in self._schemas, result is None)",
             "C13.byname.resolved_by_the_owner_of_the_prefix":
                 "implies(schema_namespace in self._schemas and key_class == 'tags' and self._schemas[schema_namespace]._namespace == schema_namespace,"
                 " result == tag_view(self._schemas[schema_namespace], name[len(schema_namespace):] if name.startswith(schema_namespace) else name))",
         })

# C13/C14 "every ... partnered library schema ... passes the compliance check / a fault is reported": the compliance issues of a group are
# the issues of EVERY member - nothing dropped, nothing invented
class_model("HedSchemaCk", {})
class_model("HedSchemaGroupCk", {"_schemas": "Map[Str,HedSchemaCk]"})
if z3 is not None:
    from contracts.extern_fs import _ulist as _ul4
    EXTERNS["compliance_issues_of"] = _ul4("compliance_issues_of", 2)
contract("C14.member_check_compliance_view", file=HS, func="HedSchema.check_compliance",
         params={"self": "HedSchemaCk", "check_for_warnings": "Bool", "name": "Opaque", "error_handler": "Opaque"}, returns="List[Issue]",
         enc="native", trusted=True, self_class="HedSchemaCk",
         ensures={"view": "result == compliance_issues_of(self, check_for_warnings)"},
         assume=["the compliance issues of one schema are a function of the schema and the warnings flag (name and handler only decorate them)"])
contract("C13.group_compliance_is_every_members_compliance", file=HG, func="HedSchemaGroup.check_compliance",
         params={"self": "HedSchemaGroupCk", "check_for_warnings": "Bool", "name": "Opaque", "error_handler": "Opaque"}, returns="List[Issue]",
         enc="native", self_class="HedSchemaGroupCk", also=["C14"],
         locals={"issues_list": "List[Issue]"},
         ensures={
             "C13.compliance.no_members_issue_is_dropped":
                 "forall_str(lambda p: implies(p in self._schemas, all_in(compliance_issues_of(self._schemas[p], check_for_warnings), lambda x: is_in(x, result))))",
             "C13.compliance.nothing_invented":
                 "all_in(result, lambda x: any(is_in(x, compliance_issues_of(m, check_for_warnings)) for m in self._schemas.values()))",
         },
         loops={0: {"invariant": [
             "all(all_in(compliance_issues_of(m, check_for_warnings), lambda x: is_in(x, issues_list)) for k, m in zip(range(_n), _iter0))",
             "all_in(issues_list, lambda x: any(is_in(x, compliance_issues_of(m, check_for_warnings)) for k, m in zip(range(_n), _iter0)))",
         ]}})

# C13 "an annotation whose tags all carry prefix p is judged exactly as ... against p's schema": the names a group advertises for an attribute
# (required / unique tags ...) are the names of EVERY member, nothing dropped, nothing invented
class_model("HedSchemaGroupNm", {"_schemas": "Map[Str,HedSchemaNm]"})
class_model("HedSchemaNm", {"_namespace": "Str", "_sections": "Map[Str,SectionM]"})
if z3 is not None:
    EXTERNS["names_with_attribute_of"] = lambda interp, args, kwargs: _uf_w4("names_with_attribute_of", ["HedSchemaNm", "Str", "Str"], "Set[Str]")(interp, args, kwargs)
contract("C13.member_names_with_attribute_view", file=HS, func="HedSchema.get_tags_with_attribute",
         params={"self": "HedSchemaNm", "attribute": "Str", "key_class": "Str"}, returns="Set[Str]", enc="native", trusted=True,
         self_class="HedSchemaNm", ensures={"view": "result == names_with_attribute_of(self, attribute, key_class)"},
         assume=["the names one schema advertises for an attribute are a function of (schema, attribute, section) at the time of the call; "
                 "the list handed back is modelled by the set of its members (the group only takes the union)"])
contract("C13.group_names_with_attribute_come_from_every_member", file=HG, func="HedSchemaGroup.get_tags_with_attribute",
         params={"self": "HedSchemaGroupNm", "attribute": "Str", "key_class": "Str"}, returns="List[Str]", enc="native",
         self_class="HedSchemaGroupNm", locals={"tags": "Set[Str]"},
         modifies=["heap:SectionM._attribute_cache"],      # asking a member fills that member's finished attribute lists
         ensures={
             "C13.names.no_members_name_is_dropped":
                 "forall_str(lambda x: implies(any(x in names_with_attribute_of(m, attribute, key_class) for m in self._schemas.values()), x in result))",
             "C13.names.nothing_invented":
                 "forall_str(lambda x: implies(x in result, any(x in names_with_attribute_of(m, attribute, key_class) for m in self._schemas.values())))",
         },
         loops={0: {"invariant": [
             "forall_str(lambda x: implies(any(x in names_with_attribute_of(m, attribute, key_class) for k, m in zip(range(_n), _iter0)), x in tags))",
             "forall_str(lambda x: implies(x in tags, any(x in names_with_attribute_of(m, attribute, key_class) for k, m in zip(range(_n), _iter0))))",
         ]}})

# C13 "... tags all carry prefix p": the names ONE schema advertises for an attribute carry that schema's own prefix (it hands its own
# namespace, and nothing else, to the section - whose rule is C13.names_with_attribute_carry_the_prefix_asked_for)
contract("C13.member_names_carry_own_prefix", file=HS, func="HedSchema.get_tags_with_attribute",
         params={"self": "HedSchemaNm", "attribute": "Str", "key_class": "Str"}, returns="List[Str]", enc="native",
         self_class="HedSchemaNm", ghost={"not_at_call_sites": True}, modifies=["heap:SectionM._attribute_cache"],
         requires=["key_class in self._sections"],
         ensures={"C13.names.every_name_starts_with_the_schemas_own_prefix": "all(result[k].startswith(self._namespace) for k in range(len(result)))"},
         assume=["key_class names one of the sections every schema has (HedSchema._create_empty_sections)"])


# ----------------------------------------------------------------------------------------------------------------------------------
# C11 "optionally preceded by an SI prefix the unit permits": the prefixes offered for a unit are none unless the unit is declared an SI unit;
# for an SI unit they are the symbol prefixes when the unit is a symbol and the name prefixes otherwise - the whole list of that kind
class_model("SectionModW4", {})
class_model("HedSchemaUnitsW4", {"unit_modifiers": "SectionModW4"})
if z3 is not None:
    EXTERNS["unit_entry_of"] = _uf_w4("unit_entry_of", ["HedSchemaUnitsW4", "Str"], "Opt[UnitEntry2]")
    EXTERNS["modifiers_with_attribute_of"] = _uf_w4("modifiers_with_attribute_of", ["SectionModW4", "Str"], "List[UnitModifierM]")
contract("C11.unit_entry_view", file=HS, func="HedSchema.get_tag_entry",
         params={"self": "HedSchemaUnitsW4", "name": "Str", "key_class": "Str", "schema_namespace": "Str"}, returns="Opt[UnitEntry2]", enc="native",
         trusted=True, self_class="HedSchemaUnitsW4", ensures={"view": "implies(key_class == 'units', result == unit_entry_of(self, name))"},
         assume=["looking a unit up by name in the unit section is a function of (schema, name)"])
contract("C11.modifiers_with_attribute_view", file="hed/schema/hed_schema_section.py", func="HedSchemaSection.get_entries_with_attribute",
         params={"self": "SectionModW4", "attribute_name": "Str", "return_name_only": "Bool", "schema_namespace": "Str"},
         returns="List[UnitModifierM]", enc="native", trusted=True, self_class="SectionModW4", fresh_result=False,
         ensures={"view": "result == modifiers_with_attribute_of(self, attribute_name)"},
         assume=["the entries of the unit-modifier section that carry an attribute are a function of (section, attribute) at the time of the call"])
contract("C11.si_prefixes_only_for_si_units_symbols_and_names_apart", file=HS, func="HedSchema._get_modifiers_for_unit",
         params={"self": "HedSchemaUnitsW4", "unit": "Str"}, returns="List[UnitModifierM]", enc="native", self_class="HedSchemaUnitsW4",
         lets={"u": "unit_entry_of(self, unit)"},
         ensures={
             "C11.prefixes.unknown_unit_has_none": "implies(u is None, len(result) == 0)",
             "C11.prefixes.non_si_unit_has_none": "implies(u is not None and 'SIUnit' not in u.attributes, len(result) == 0)",
             "C11.prefixes.si_symbol_gets_the_symbol_prefixes": "implies(u is not None and 'SIUnit' in u.attributes and 'unitSymbol' in u.attributes,"
                                                               " result == modifiers_with_attribute_of(self.unit_modifiers, 'SIUnitSymbolModifier'))",
             "C11.prefixes.si_name_gets_the_name_prefixes": "implies(u is not None and 'SIUnit' in u.attributes and 'unitSymbol' not in u.attributes,"
                                                           " result == modifiers_with_attribute_of(self.unit_modifiers, 'SIUnitModifier'))",
         })

# C11 "a unit name in ... any letter case, or a unit symbol exactly as declared": looking a unit up in the unit section - as written first;
# in another letter case only a unit NAME is found, never a symbol (m is not M)
SEC = "hed/schema/hed_schema_section.py"
class_model("UnitSectionW4", {"all_names": "Map[Str,UnitEntry2]"})
contract("C11.unit_section_lookup_symbols_exact_names_in_any_case", file=SEC, func="HedSchemaUnitSection.__getitem__",
         params={"self": "UnitSectionW4", "key": "Str"}, returns="Opt[UnitEntry2]", enc="native", self_class="UnitSectionW4", fresh_result=False,
         lets={"T": "self.all_names", "f": "key.casefold()"},
         ensures={
             "C11.section.as_written": "implies(key in T, result == T[key])",
             "C11.section.name_in_another_case": "implies(key not in T and f in T and 'unitSymbol' not in T[f].attributes, result == T[f])",
             "C11.section.symbol_in_another_case_is_not_found": "implies(key not in T and f in T and 'unitSymbol' in T[f].attributes, result is None)",
             "C11.section.unknown_is_not_found": "implies(key not in T and f not in T, result is None)",
         })

# C03 "in any letter case ... identified as the same schema node" / C14 bookkeeping: a section that is not case sensitive is asked with the
# case-folded key, a case-sensitive one with the key as written; a missing key is a KeyError for [] and None for get()
contract("C03.section_item_case_folded_unless_case_sensitive", file=SEC, func="HedSchemaSection.__getitem__",
         params={"self": "SectionAdd", "key": "Str"}, returns="EntryN", enc="native", self_class="SectionAdd", fresh_result=False,
         lets={"k2": "key if self.case_sensitive else key.casefold()"},
         raises={"KeyError": "(key if self.case_sensitive else key.casefold()) not in self.all_names"},
         ensures={"C03.section.item_under_the_folded_key": "result == self.all_names[k2]"})
contract("C03.section_get_case_folded_unless_case_sensitive", file=SEC, func="HedSchemaSection.get",
         params={"self": "SectionAdd", "key": "Str"}, returns="Opt[EntryN]", enc="native", self_class="SectionAdd", fresh_result=False,
         lets={"k2": "key if self.case_sensitive else key.casefold()"}, raises={},
         ensures={"C03.section.get_under_the_folded_key": "implies(k2 in self.all_names, result == self.all_names[k2])",
                  "C03.section.get_missing_is_none_not_an_exception": "implies(k2 not in self.all_names, result is None)"})

# C03 "the short form, every partial path ... in any letter case ... are identified as the same schema node": the tag section answers a form in
# any letter case (the table is keyed by case-folded forms), and registering a node files EVERY form _get_tag_forms lists, case-folded, under
# the new node - unless the short name is taken already, in which case the tables stay as they are and the clash is recorded (C14 duplicates)
class_model("TagSectionW4", {"long_form_tags": "Map[Str,EntryN]", "all_names": "Map[Str,EntryN]", "case_sensitive": "Bool",
                             "_duplicate_names": "Map[Str,List[EntryN]]"}, bases=["HedSchemaTagSection"])
contract("C03.tag_section_get_in_any_case", file=SEC, func="HedSchemaTagSection.get",
         params={"self": "TagSectionW4", "key": "Str"}, returns="Opt[EntryN]", enc="native", self_class="TagSectionW4", fresh_result=False,
         lets={"k2": "key if self.case_sensitive else key.casefold()"},
         ensures={"C03.tagsection.form_found_under_its_folded_key": "implies(k2 in self.long_form_tags, result == self.long_form_tags[k2])",
                  "C03.tagsection.unknown_form_is_none": "implies(k2 not in self.long_form_tags, result is None)"})
contract("C03.tag_section_contains_in_any_case", file=SEC, func="HedSchemaTagSection.__contains__",
         params={"self": "TagSectionW4", "key": "Str"}, returns="Bool", enc="native", self_class="TagSectionW4",
         ensures={"C03.tagsection.contains_iff_folded_form_registered": "result == ((key if self.case_sensitive else key.casefold()) in self.long_form_tags)"})
# (HedSchemaTagSection._check_if_duplicate / HedSchemaUnitClassSection._check_if_duplicate test `name_key in self`: membership in a modelled
#  object through its __contains__ is outside the executor - not covered)

# C14 "a duplicated node name ... is reported": the load-time bookkeeping the duplicate check reads - a name that is already taken leaves the
# table as it is and is recorded with BOTH the first holder and the newcomer; a new name is entered and recorded nowhere
contract("C14.duplicate_name_recorded_with_first_holder_and_newcomer", file=SEC, func="HedSchemaSection._check_if_duplicate",
         params={"self": "SectionAdd", "name_key": "Str", "new_entry": "EntryN"}, returns="EntryN", enc="native", self_class="SectionAdd",
         ghost={"not_at_call_sites": True}, modifies=["self.all_names", "self._duplicate_names"],
         lets={"taken": "name_key in old(self.all_names)"},
         ensures={
             "C14.dup.entry_is_returned": "result is new_entry",
             "C14.dup.new_name_is_entered": "implies(not taken, name_key in self.all_names and self.all_names[name_key] is new_entry)",
             "C14.dup.new_name_is_no_duplicate": "implies(not taken, self._duplicate_names == old(self._duplicate_names))",
             "C14.dup.other_names_untouched": "forall_str(lambda p: implies(p != name_key, (p in self.all_names) == (p in old(self.all_names))"
                                              " and implies(p in self.all_names, self.all_names[p] is old(self.all_names)[p])))",
             "C14.dup.taken_name_keeps_its_first_holder": "implies(taken, self.all_names[name_key] is old(self.all_names)[name_key])",
             "C14.dup.first_clash_records_the_first_holder_too":
                 "implies(taken and name_key not in old(self._duplicate_names), len(self._duplicate_names[name_key]) == 2"
                 " and self._duplicate_names[name_key][0] is old(self.all_names)[name_key] and self._duplicate_names[name_key][1] is new_entry)",
             "C14.dup.later_clash_appends_the_newcomer_and_keeps_earlier_records":
                 "implies(taken and name_key in old(self._duplicate_names) and len(old(self._duplicate_names)[name_key]) >= 0,"
                 " name_key in self._duplicate_names and self._duplicate_names[name_key][len(old(self._duplicate_names)[name_key])] is new_entry"
                 " and len(self._duplicate_names[name_key]) == len(old(self._duplicate_names)[name_key]) + 1"
                 " and all(self._duplicate_names[name_key][k] is old(self._duplicate_names)[name_key][k] for k in range(len(old(self._duplicate_names)[name_key]))))",
             "C14.dup.records_of_other_names_untouched":
                 "forall_str(lambda p: implies(p != name_key, (p in self._duplicate_names) == (p in old(self._duplicate_names))))",
         })


# ----------------------------------------------------------------------------------------------------------------------------------
# C14 "an unknown allowedCharacter value ... is reported with the specification's code": EVERY value of the comma-separated attribute is
# judged - one that is neither the name of a character class nor a single character is reported, whatever stands before or after it
AV = "hed/schema/schema_attribute_validators.py"
if z3 is not None:
    # the table of character-class names (hed_schema_constants.character_types, built at import time): an unknown but fixed set of names
    EXTERNS["character_types"] = Cell("set", sym=SV(__import__("pyvc.vals", fromlist=["TSet"]).TSet(STR),
                                                   z3.Const("character_type_names", sort_of(__import__("pyvc.vals", fromlist=["TSet"]).TSet(STR)))), fresh=False)
CHARS = "(tag_entry.attributes[attribute_name] if attribute_name in tag_entry.attributes else '').split(',')"
BADCH = "(lambda c: c not in character_types and len(c) != 1)"
ISSUE_AC = "(lambda x: x.kind == 'SCHEMA_ALLOWED_CHARACTERS_INVALID' and x.code == 'SCHEMA_ATTRIBUTE_VALUE_INVALID')"
contract("C14.allowed_characters_every_value_judged", file=AV, func="allowed_characters_check",
         params={"hed_schema": "Opaque", "tag_entry": "SchemaEntry", "attribute_name": "Str"}, returns="List[Issue]", enc="native",
         locals={"issues": "List[Issue]"},
         ensures={
             "C14.allowed.any_unknown_value_is_reported": "implies(any_in(" + CHARS + ", " + BADCH + "), any_in(result, " + ISSUE_AC + "))",
             "C14.allowed.all_values_known_is_silent": "implies(all_in(" + CHARS + ", lambda c: not " + BADCH + "(c)), len(result) == 0)",
             "C14.allowed.code": "all_in(result, " + ISSUE_AC + ")",
         },
         loops={0: {"invariant": [
             "all(implies(" + BADCH + "(characters[k]), any_in(issues, " + ISSUE_AC + ")) for k in range(_n))",
             "implies(all(not " + BADCH + "(characters[k]) for k in range(_n)), len(issues) == 0)",
             "all_in(issues, " + ISSUE_AC + ")",
         ]}},
         assume=["character_types (a module-level table built at import time) is an unknown fixed set of class names"])

# "each seeded fault is flagged" (C14) / "every character is judged" (C11): the loops that judge items one by one carry nothing from one item
# to the next, only extend their result and skip nothing by a break - decided by the def-before-use analysis of the real loop bodies
IND4 = {"dataflow_only": True, "no_frame": True}
SVU = "hed/schema/schema_validation_util.py"
SCO = "hed/schema/schema_compliance.py"
CLU = "hed/validator/util/class_util.py"
CHU = "hed/validator/util/char_util.py"
for _cid, _prop, _f, _fn, _loops in [
    ("C14.allowed_characters_each_value", "C14", AV, "allowed_characters_check", {0: ["issues"]}),
    ("C14.deprecated_children_each_child", "C14", AV, "tag_is_deprecated_check", {0: ["issues"]}),
    ("C14.invalid_chars_each_entry", "C14", SCO, "SchemaValidator.check_invalid_chars", {0: ["issues_list"], 1: ["issues_list"]}),
    ("C14.prologue_epilogue_each_character", "C14", SCO, "SchemaValidator.check_prologue_epilogue", {0: ["issues"], 1: ["issues"]}),
    ("C14.range_validators_each_declared_range", "C14", SCO, "SchemaValidator._get_range_validators", {0: ["validators"]}),
    ("C14.prerelease_each_library", "C14", SCO, "SchemaValidator.check_if_prerelease_version", {0: ["issues"]}),
    ("C14.term_characters_each_problem", "C14", SVU, "validate_schema_term_new", {0: ["issues_list"]}),
    ("C14.description_characters_each_problem", "C14", SVU, "validate_schema_description_new", {0: ["issues_list"]}),
    ("C11.value_class_errors_each_class", "C11", CLU, "UnitValueValidator.report_value_errors", {0: ["validation_issues"]}),
    ("C11.value_char_errors_each_character", "C11", CLU, "UnitValueValidator.report_value_char_errors", {0: ["validation_issues"]}),
    ("C11.problem_chars_each_character", "C11", CHU, "CharRexValidator.get_problem_chars", {0: ["bad_indices"]}),
    ("C11.invalid_positions_each_character", "C11", CLU, "find_invalid_positions", {0: ["invalid_positions"]}),
]:
    contract(_cid, file=_f, func=_fn, params={}, returns="Opaque", enc="native", prop=_prop,
             ghost=dict(IND4, independent_iterations=_loops), ensures={})

# C14 (range rules of 8.3 schemas) "reported with the specification's code": an attribute declared numeric whose value is not a number
contract("C14.numeric_attribute_value_must_parse", file=AV, func="is_numeric_value",
         params={"hed_schema": "Opaque", "tag_entry": "SchemaEntry", "attribute_name": "Str"}, returns="List[Issue]", enc="native",
         lets={"text": "tag_entry.attributes[attribute_name] if attribute_name in tag_entry.attributes else ''"},
         ensures={
             "C14.numeric.reported_iff_not_a_number": "(len(result) > 0) == (not float_parses(text))",
             "C14.numeric.code": "all_in(result, lambda x: x.code == 'SCHEMA_ATTRIBUTE_VALUE_INVALID' and x.kind == 'SCHEMA_ATTRIBUTE_NUMERIC_INVALID')",
         })

# C14 deprecation rules: an entry that is not itself deprecated may not use an attribute whose declaration is deprecated; the declaration is
# looked up among the attributes - among the properties when the entry is itself an attribute
class_model("SchemaEntryW4", {"name": "Str", "attributes": "Map[Str,Str]", "section_key": "Str"})
class_model("SchemaDeclsW4", {"with_standard": "Str", "library": "Str", "version_number": "Str"})
if z3 is not None:
    EXTERNS["SchemaEntryW4.has_attribute"] = __import__("contracts.extern_fs", fromlist=["_entry_has_attribute"])._entry_has_attribute
    EXTERNS["declaration_of"] = _uf_w4("declaration_of", ["SchemaDeclsW4", "Str", "Str"], "Opt[SchemaEntryW4]")
contract("C14.declaration_view", file=HS, func="HedSchema.get_tag_entry",
         params={"self": "SchemaDeclsW4", "name": "Str", "key_class": "Str", "schema_namespace": "Str"}, returns="Opt[SchemaEntryW4]", enc="native",
         trusted=True, self_class="SchemaDeclsW4", fresh_result=False, ensures={"view": "result == declaration_of(self, name, key_class)"},
         assume=["looking an attribute / property declaration up by name is a function of (schema, name, section)"])
DECL = "declaration_of(hed_schema, attribute_name, 'properties' if tag_entry.section_key == 'attributes' else 'attributes')"
contract("C14.deprecated_attribute_on_a_current_entry_is_reported", file=AV, func="attribute_is_deprecated",
         params={"hed_schema": "SchemaDeclsW4", "tag_entry": "SchemaEntryW4", "attribute_name": "Str"}, returns="List[Issue]", enc="native",
         lets={"bad": DECL + " is not None and 'deprecatedFrom' in " + DECL + ".attributes and 'deprecatedFrom' not in tag_entry.attributes"},
         ensures={
             "C14.attr_deprecated.reported_iff_declaration_deprecated_and_entry_current": "(len(result) > 0) == bad",
             "C14.attr_deprecated.code": "all_in(result, lambda x: x.code == 'SCHEMA_DEPRECATION_ERROR' and x.kind == 'SCHEMA_ATTRIBUTE_VALUE_DEPRECATED')",
         })

# C14 "a deprecatedFrom version that is unknown or not older than the schema": the schema's own version FOR THE LIBRARY the entry belongs to -
# the version at the position of that library in the header lists; for the standard part of a partnered schema the withStandard version
contract("C14.version_of_the_library_an_entry_belongs_to", file=SVU, func="schema_version_for_library",
         params={"hed_schema": "SchemaDeclsW4", "library_name": "Opt[Str]"}, returns="Opt[Str]", enc="native",
         ghost={"not_at_call_sites": True},       # (its quantified clauses are of no use to tag_is_deprecated_check, which only compares versions)
         lets={"lib": "'' if library_name is None else library_name", "names": "hed_schema.library.split(',')", "versions": "hed_schema.version_number.split(',')"},
         ensures={
             "C14.libversion.first_position_of_the_library_gives_the_version":
                 "all(implies(k < len(versions) and names[k] == lib and all(names[j] != lib for j in range(k)), result == versions[k]) for k in range(len(names)))",
             "C14.libversion.standard_part_of_a_partnered_schema": "implies(all(implies(k < len(versions), names[k] != lib) for k in range(len(names))) and lib == ''"
                                                                   " and len(hed_schema.with_standard) > 0, result == hed_schema.with_standard)",
             "C14.libversion.unknown_library_has_no_version": "implies(all(implies(k < len(versions), names[k] != lib) for k in range(len(names)))"
                                                              " and not (lib == '' and len(hed_schema.with_standard) > 0), result is None)",
         },
         loops={0: {"invariant": ["all(names[j] != library_name for j in range(_n))"]}})

# C14 "a deprecatedFrom version that is unknown ... is reported with the specification's code": the version named must be one of the released
# versions of the library the entry belongs to (its own inLibrary value; else the schema's library unless the schema is partnered)
if z3 is not None:
    EXTERNS["library_version_of"] = _uf_w4("library_version_of", ["SchemaDeclsW4", "Opt[Str]"], "Opt[Str]")
    _vrank = z3.Function("version_rank", z3.StringSort(), z3.IntSort())
    EXTERNS["version_rank"] = lambda interp, args, kwargs: SV(INT, _vrank(interp.ctx.strs.to_native(args[0])))
    # semantic_version.Version(text): only the ORDER of versions is used by the code under contract - a version is modelled by its rank
    EXTERNS["semantic_version.Version"] = EXTERNS["version_rank"]
contract("C14.schema_version_for_library_view", file=SVU, func="schema_version_for_library",
         params={"hed_schema": "SchemaDeclsW4", "library_name": "Opt[Str]"}, returns="Opt[Str]", enc="native", trusted=True,
         ensures={"view": "result == library_version_of(hed_schema, library_name)"},
         assume=["schema_version_for_library is a function of (schema, library) (its rule: C14.version_of_the_library_an_entry_belongs_to)"])
class_model("TagEntryDepW4", {"name": "Str", "attributes": "Map[Str,Str]", "children": "Map[Str,SchemaEntryW4]"})
RAWLIB = "(tag_entry.attributes['inLibrary'] if 'inLibrary' in tag_entry.attributes else None)"
DEPLIB = ("(hed_schema.library if (('inLibrary' not in tag_entry.attributes or len(tag_entry.attributes['inLibrary']) == 0)"
          " and len(hed_schema.with_standard) == 0) else " + RAWLIB + ")")
LIBV = "library_version_of(hed_schema, " + DEPLIB + ")"
BADV = ("(lambda v: len(v) > 0 and (v not in cached_versions_of(None, " + DEPLIB + ", False) or (" + LIBV + " is not None and len(" + LIBV + ") > 0"
        " and version_rank(" + LIBV + ") <= version_rank(v))))")
ISSUE_DV = "(lambda x: x.kind == 'SCHEMA_DEPRECATED_INVALID' and x.code == 'SCHEMA_DEPRECATION_ERROR')"
contract("C14.unknown_or_not_older_deprecated_from_version_is_reported", file=AV, func="tag_is_deprecated_check",
         params={"hed_schema": "SchemaDeclsW4", "tag_entry": "TagEntryDepW4", "attribute_name": "Str"}, returns="List[Issue]", enc="native",
         locals={"issues": "List[Issue]"},
         lets={"dv": "tag_entry.attributes[attribute_name] if attribute_name in tag_entry.attributes else ''"},
         ensures={
             "C14.deprecated.unknown_or_not_older_version_reported": "implies(" + BADV + "(dv), any_in(result, " + ISSUE_DV + "))",
             "C14.deprecated.released_older_version_not_reported": "implies(not " + BADV + "(dv), all_in(result, lambda x: x.kind != 'SCHEMA_DEPRECATED_INVALID'))",
         },
         loops={0: {"invariant": [
             "implies(" + BADV + "(deprecated_version), any_in(issues, " + ISSUE_DV + "))",
             "implies(not " + BADV + "(deprecated_version), all_in(issues, lambda x: x.kind != 'SCHEMA_DEPRECATED_INVALID'))",
         ]}},
         assume=["semantic_version.Version(text) is modelled by an uninterpreted rank of the text (a total preorder); texts that do not parse "
                 "(ValueError) are not modelled", "hasattr(tag_entry, 'children') holds for the modelled entry (tags)"])


# ----------------------------------------------------------------------------------------------------------------------------------
# C11 / C01 "values ... of the right class": the patterns the value-class validator reads from class_regex.json (CharRexValidator) accept
# exactly the grammar the HED specification gives for the class - data obligations decided as regular-language equalities (z3-regex).
# The expected grammars are written from the specification's tables, not copied from the file.
RX = "hed/validator/util/class_regex.json"
# dateTimeClass: an ISO 8601 date and time YYYY-MM-DDThh:mm:ss, optional fraction of a second, optional zone (Z or a signed hh:mm offset)
contract("C11.date_time_class_pattern_is_the_iso8601_grammar", file=RX, func="<regex-data>", params={}, returns=None, enc="native", prop="C11",
         ghost={"json_path": ["class_words", "dateTimeClass"], "no_frame": True},
         ensures={"C11.datetime.pattern_language_is_date_T_time_fraction_zone":
                  r"^\d\d\d\d-\d\d-\d\dT\d\d:\d\d:\d\d(\.\d+)?(Z|\+\d\d:\d\d|-\d\d:\d\d)?$"})
# the named character classes that class_chars uses (nameClass: alphanumeric, underscore, hyphen, nonascii; testClass: newline, tab; the
# pattern of one class is matched against ONE character by CharRexValidator.get_problem_chars)
for _nm, _lbl, _spec in [("alphanumeric", "letters_and_digits", "[0-9a-zA-Z]"), ("underscore", "the_underscore", r"\x5f"),
                         ("hyphen", "the_hyphen_minus", r"\x2d"), ("newline", "the_line_feed", r"\x0a"), ("tab", "the_horizontal_tab", r"\x09"),
                         ("letters", "ascii_letters", "[a-zA-Z]"), ("digits", "ascii_digits", "[0123456789]"), ("blank", "the_space", r"\x20"),
                         ("period", "the_full_stop", r"\x2e"), ("comma", "the_comma", r"\x2c")]:
    contract("C11.char_class_" + _nm.replace("-", "_") + "_pattern", file=RX, func="<regex-data>", params={}, returns=None, enc="native", prop="C11",
             also=["C01"], ghost={"json_path": ["char_regex", _nm], "no_frame": True},
             ensures={"C11.charclass." + _nm.replace("-", "_") + "_is_" + _lbl: _spec})


# ----------------------------------------------------------------------------------------------------------------------------------
# C03 "switch to the '#' child when a remainder exists" / "identified as the same schema node": finalizing a node links it to the node of its
# parent path (none for a top-level node), files it among the parent's children under its short name, and records as its value child
# exactly the node registered under <name>/# (none when there is no such node)
HE = "hed/schema/hed_schema_entry.py"
class_model("HedSchemaFinW4", {})
class_model("TagEntryFinW4", {"name": "Str", "long_tag_name": "Str", "short_tag_name": "Str", "_parent_tag": "Opt[TagEntryFinW4]",
                               "takes_value_child_entry": "Opt[TagEntryFinW4]", "children": "Map[Str,TagEntryFinW4]", "tag_terms": "Opaque",
                               "inherited_attributes": "Map[Str,Str]", "attributes": "Map[Str,Str]", "unit_classes": "Opaque", "value_classes": "Opaque"})
if z3 is not None:
    def _tuple_w4(interp, args, kwargs):
        """tuple(x): for a list of symbolic length the result is an unknown value (it is only stored); every other use goes to the engine's rule"""
        a = args[0] if args else None
        if isinstance(a, Cell) and a.kind == "list" and a.sym is not None and a.conc is None:
            return Opaque("tuple(list of symbolic length)", fresh=True)
        del EXTERNS["tuple"]
        try:
            return interp.call_builtin("tuple", args, kwargs, None)
        finally:
            EXTERNS["tuple"] = _tuple_w4
    EXTERNS["tuple"] = _tuple_w4
    EXTERNS["node_view"] = _uf_w4("node_view", ["HedSchemaFinW4", "Str"], "Opt[TagEntryFinW4]")
contract("C03.node_view", file=HS, func="HedSchema._get_tag_entry",
         params={"self": "HedSchemaFinW4", "name": "Str", "key_class": "Opaque"}, returns="Opt[TagEntryFinW4]", enc="native", trusted=True,
         self_class="HedSchemaFinW4", fresh_result=False, ensures={"view": "result == node_view(self, name)"},
         assume=["the tag section as an abstract view: registered form -> node (as C03.get_tag_entry)"])
contract("C03.finalize_inherited_attributes_any", file=HE, func="HedTagEntry._finalize_inherited_attributes",
         params={"self": "TagEntryFinW4"}, returns=None, enc="native", trusted=True, self_class="TagEntryFinW4",
         modifies=["self.inherited_attributes"], ensures={}, assume=["_finalize_inherited_attributes writes only self.inherited_attributes"])
contract("C03.finalize_takes_value_tag_any", file=HE, func="HedTagEntry._finalize_takes_value_tag",
         params={"self": "TagEntryFinW4", "schema": "HedSchemaFinW4"}, returns=None, enc="native", trusted=True, self_class="TagEntryFinW4",
         modifies=["self.unit_classes", "self.value_classes"], ensures={}, assume=["_finalize_takes_value_tag writes only the unit / value class tables of the node"])
PARENT = "self.name.rpartition('/')[0]"
contract("C03.finalized_node_knows_parent_and_value_child", file=HE, func="HedTagEntry.finalize_entry",
         params={"self": "TagEntryFinW4", "schema": "HedSchemaFinW4"}, returns=None, enc="native", self_class="TagEntryFinW4",
         modifies=["self._parent_tag", "self.takes_value_child_entry", "self.tag_terms", "self.inherited_attributes", "self.unit_classes",
                   "self.value_classes", "heap:TagEntryFinW4.children"],
         ensures={
             "C03.finalize.value_child_is_the_node_registered_under_name_slash_hash": "self.takes_value_child_entry == node_view(schema, self.name + '/#')",
             "C03.finalize.parent_is_the_node_of_the_parent_path": "implies(len(" + PARENT + ") > 0, self._parent_tag == node_view(schema, " + PARENT + "))",
             "C03.finalize.top_level_node_has_no_parent": "implies(len(" + PARENT + ") == 0, self._parent_tag is None)",
             "C03.finalize.filed_among_the_parents_children_under_its_short_name":
                 "implies(self._parent_tag is not None, self.short_tag_name in self._parent_tag.children"
                 " and self._parent_tag.children[self.short_tag_name] is self)",
         })

# C03/C01 "required child / extension allowed ... are judged on the schema node": an attribute asked of the BASE tag is answered by the node
# itself, or - when the node is a value-taking '#' child - by its parent
class_model("TagEntryAttrW4", {"name": "Str", "inherited_attributes": "Map[Str,Str]", "_parent_tag": "Opt[TagEntryAttrW4]"})
if z3 is not None:
    EXTERNS["TagEntryAttrW4.has_attribute"] = lambda interp, args, kwargs: SV(BOOL, interp.ctx.zbool(
        interp.contains(interp.field_read(args[0], "inherited_attributes"), args[1])))
contract("C03.base_tag_attribute_is_the_parents_for_a_value_child", file=HE, func="HedTagEntry.base_tag_has_attribute",
         params={"self": "TagEntryAttrW4", "tag_attribute": "Str"}, returns="Bool", enc="native", self_class="TagEntryAttrW4",
         requires=["implies('takesValue' in self.inherited_attributes, self._parent_tag is not None)"],
         ensures={
             "C03.baseattr.value_child_asks_its_parent": "implies('takesValue' in self.inherited_attributes,"
                                                         " result == (tag_attribute in self._parent_tag.inherited_attributes))",
             "C03.baseattr.ordinary_node_asks_itself": "implies('takesValue' not in self.inherited_attributes, result == (tag_attribute in self.inherited_attributes))",
         },
         assume=["HedTagEntry.has_attribute(k) is `k in inherited_attributes` (values are never None); a value-taking node has a parent (finalize_entry)"])

# C03/C05: the name of the parent node - the linked parent's name, else (before linking) the path up to the last slash
contract("C03.parent_name_is_the_path_before_the_last_slash", file=HE, func="HedTagEntry.parent_name",
         params={"self": "TagEntryAttrW4"}, returns="Str", enc="native", self_class="TagEntryAttrW4",
         ensures={
             "C03.parentname.linked_parent_gives_its_name": "implies(self._parent_tag is not None, result == self._parent_tag.name)",
             "C03.parentname.unlinked_node_gives_the_path_before_the_last_slash":
                 "implies(self._parent_tag is None, (('/' not in self.name) and result == '') or (('/' in self.name) and self.name == result + '/' + self.name[len(result) + 1:]"
                 " and '/' not in self.name[len(result) + 1:]))",
         })

# C14 "an attribute that is not declared for that section ... is reported": the load-time bookkeeping the unknown-attribute check reads - a
# value that is set is always stored on the entry; it is ALSO remembered as unknown exactly when the section does not declare the attribute;
# an empty value sets nothing
class_model("SectionDeclW4", {"valid_attributes": "Map[Str,EntryN]"})
class_model("EntrySetW4", {"attributes": "Map[Str,Str]", "_unknown_attributes": "Map[Str,Str]", "_section": "SectionDeclW4"})
contract("C14.undeclared_attribute_is_remembered_as_unknown", file=HE, func="HedSchemaEntry._set_attribute_value",
         params={"self": "EntrySetW4", "attribute": "Str", "attribute_value": "Str"}, returns=None, enc="native", self_class="EntrySetW4",
         modifies=["self.attributes", "self._unknown_attributes"],
         ensures={
             "C14.set.empty_value_sets_nothing": "implies(len(attribute_value) == 0, self.attributes == old(self.attributes)"
                                                 " and self._unknown_attributes == old(self._unknown_attributes))",
             "C14.set.value_is_stored": "implies(len(attribute_value) > 0, attribute in self.attributes and self.attributes[attribute] == attribute_value)",
             "C14.set.undeclared_attribute_is_remembered": "implies(len(attribute_value) > 0 and attribute not in self._section.valid_attributes,"
                                                           " attribute in self._unknown_attributes"
                                                           " and self._unknown_attributes[attribute] == attribute_value)",
             "C14.set.declared_attribute_is_not_remembered": "implies(len(attribute_value) > 0 and attribute in self._section.valid_attributes,"
                                                             " self._unknown_attributes == old(self._unknown_attributes))",
             "C14.set.other_attributes_untouched": "forall_str(lambda p: implies(p != attribute, (p in self.attributes) == (p in old(self.attributes))"
                                                   " and implies(p in self.attributes, self.attributes[p] == old(self.attributes)[p])))",
         },
         assume=["attribute values are texts (the loaders also store True for boolean attributes - only the text case is covered)",
                 "the table of unknown attributes exists already (the `is None` first-use branch, which creates an empty table, is modelled by the empty table)"])


# ----------------------------------------------------------------------------------------------------------------------------------
# C19 download path: a downloaded file reaches the cache only through _safe_move_tmp_to_folder (atomic replace), the temporary download is
# removed afterwards, a failed download caches nothing; a cached copy whose git hash equals the published one is not downloaded again
if z3 is not None:
    EXTERNS["sha_of_file"] = _uf_w4("sha_of_file", ["Str"], "Opt[Str]")
    EXTERNS["download_of"] = _uf_w4("download_of", ["Str", "Int"], "Opt[Str]")
contract("C19.url_to_file_view", file="hed/schema/schema_io/schema_util.py", func="url_to_file",
         params={"resource_url": "Str"}, returns="Opt[Str]", enc="native", trusted=True, raises={"URLError": True},
         ensures={"temp_name_is_not_served": "implies(result is not None, not servable_in_any_folder(result))"},
         assume=["url_to_file writes the download to a tempfile.NamedTemporaryFile name - never a name the cache serves, in any folder; it may raise URLError"])
contract("C19.download_is_published_by_the_atomic_move_and_the_temp_removed", file=HC, func="_cache_specific_url",
         params={"source_url": "Str", "cache_filename": "Str"}, returns="Opt[Str]", enc="native",
         ghost={"init": {"fs_torn_servable": "False", "fs_remove_count": "0"}, "sets": {"downloads": "downloads + 1"}},
         raises={"OSError": True, "URLError": True},
         ensures={
             "C19.L2.download_never_torn_under_a_served_name": "not fs_torn_servable",
             "C19.L2.temporary_download_is_removed": "implies(result is not None, fs_remove_count >= 1)",
         })
contract("C19.calculate_sha1_view", file=HC, func="_calculate_sha1", params={"filename": "Str"}, returns="Opt[Str]", enc="native", trusted=True,
         ensures={"view": "result == sha_of_file(filename)"},
         assume=["_calculate_sha1 is the git blob hash of the file's bytes, None for a missing file: a function of the name at the time of the call"])
contract("C19.unchanged_cached_copy_is_not_downloaded_again", file=HC, func="_cache_hed_version",
         params={"version": "Str", "library_name": "Opt[Str]", "version_info": "Tuple[Opt[Str],Str,Bool]", "cache_folder": "Str"},
         returns="Opt[Str]", enc="native", ghost={"init": {"downloads": "0"}},
         raises={"OSError": True, "URLError": True},
         lets={"name": "xml_name_of(version, library_name, cache_folder, version_info[2])"},
         ensures={
             "C19.refresh.copy_with_the_published_hash_is_kept": "implies(version_info[0] == sha_of_file(name), downloads == 0 and result == name)",
             "C19.refresh.changed_or_missing_copy_is_downloaded_once": "implies(version_info[0] != sha_of_file(name), downloads == 1)",
         })


# ----------------------------------------------------------------------------------------------------------------------------------
# C13 "an annotation whose tags all carry prefix p ...": a single version text (or none) that is not JSON is loaded as it is, prefix included,
# from the folder asked.  (The LIST case - parse_version_list, then one load per prefix, then a group - is not covered: parse_version_list
# uses collections.defaultdict, _load_schema_version is wrapped by functools.lru_cache, and load_schema_version calls a function under
# contract inside a list comprehension of symbolic length, for which the executor shares ONE result constant between all elements.)
if z3 is not None:
    EXTERNS["loaded_schema_of"] = _uf_w4("loaded_schema_of", ["Opt[Str]", "Opt[Str]"], "HedSchemaMember")
contract("C13.load_one_version_text_view", file=IO, func="_load_schema_version", params={"xml_version": "Opt[Str]", "xml_folder": "Opt[Str]"},
         returns="HedSchemaMember", enc="native", trusted=True, raises={"HedFileError": True}, fresh_result=False,
         ensures={"view": "result is loaded_schema_of(xml_version, xml_folder)"},
         assume=["_load_schema_version (memoised by functools.lru_cache) is a function of (version text, folder)"])
contract("C13.single_version_text_is_handed_on_unchanged", file=IO, func="load_schema_version",
         params={"xml_version": "Opt[Str]", "xml_folder": "Opt[Str]"}, returns="HedSchemaMember", enc="native", ghost={"not_at_call_sites": True},
         raises={"HedFileError": True},
         requires=["not (xml_version is not None and len(xml_version) > 0 and ((xml_version[0] == '[' and xml_version[len(xml_version) - 1] == ']')"
                   " or (xml_version[0] == '\"' and xml_version[len(xml_version) - 1] == '\"')))"],
         lets={"jsonish": "xml_version is not None and len(xml_version) > 0 and ((xml_version[0] == '[' and xml_version[len(xml_version) - 1] == ']')"
                          " or (xml_version[0] == '\"' and xml_version[len(xml_version) - 1] == '\"'))"},
         ensures={"C13.single.text_and_folder_handed_on_unchanged": "implies(not jsonish, result is loaded_schema_of(xml_version, xml_folder))"},
         assume=["a text in [..] or \"..\" is decoded by json.loads (outside the executor): only the plain-text case is covered (precondition of this contract, which is not used at call sites)"])



# ----------------------------------------------------------------------------------------------------------------------------------
# C05 "schema equality used as the oracle" (the round-trip checks and script_util compare schemas with ==): two schemas are equal exactly
# when header attributes, duplicate state, prologue and epilogue (up to surrounding blanks), EVERY section table and the prefix agree
class_model("HedSchemaEqW4", {"prologue": "Str", "epilogue": "Str", "_sections": "Int", "_namespace": "Str"})
if z3 is not None:
    EXTERNS["header_value_of"] = _uf_w4("header_value_of", ["HedSchemaEqW4"], "Int")
    EXTERNS["duplicates_value_of"] = _uf_w4("duplicates_value_of", ["HedSchemaEqW4"], "Int")
contract("C05.save_header_attributes_value", file=HS, func="HedSchema.get_save_header_attributes", params={"self": "HedSchemaEqW4", "save_merged": "Bool"},
         returns="Int", enc="native", trusted=True, self_class="HedSchemaEqW4", ensures={"view": "result == header_value_of(self)"},
         assume=["the header attributes to save are a value whose == is dictionary equality (modelled as an abstract value per schema)"])
contract("C05.has_duplicates_value", file=HS, func="HedSchema.has_duplicates", params={"self": "HedSchemaEqW4"},
         returns="Int", enc="native", trusted=True, self_class="HedSchemaEqW4", ensures={"view": "result == duplicates_value_of(self)"},
         assume=["has_duplicates answers a value (False or a name) that depends on the schema only (C13.has_duplicates_keeps_no_state)"])
contract("C05.schema_equality_compares_every_part", file=HS, func="HedSchema.__eq__",
         params={"self": "HedSchemaEqW4", "other": "Opt[HedSchemaEqW4]"}, returns="Bool", enc="native", self_class="HedSchemaEqW4", prop="C05",
         ghost={"alias_ok": True},
         ensures={
             "C05.eq.nothing_equals_none": "implies(other is None, not result)",
             "C05.eq.equal_iff_every_part_agrees":
                 "implies(other is not None, result == (header_value_of(self) == header_value_of(other) and duplicates_value_of(self) == duplicates_value_of(other)"
                 " and self.prologue.strip() == other.prologue.strip() and self.epilogue.strip() == other.epilogue.strip()"
                 " and self._sections == other._sections and self._namespace == other._namespace))",
         },
         assume=["the section tables of a schema are modelled as one abstract value whose == is the equality of the tables (HedSchemaSection.__eq__)"])
class_model("SectionEqW4", {"all_names": "Int", "_section_key": "Str", "case_sensitive": "Bool", "duplicate_names": "Int"})
contract("C05.section_equality_compares_names_key_case_rule_and_duplicates", file=SEC, func="HedSchemaSection.__eq__",
         params={"self": "SectionEqW4", "other": "SectionEqW4"}, returns="Bool", enc="native", self_class="SectionEqW4", prop="C05",
         ghost={"alias_ok": True},
         ensures={"C05.eq.sections_equal_iff_every_part_agrees":
                  "result == (self.all_names == other.all_names and self._section_key == other._section_key"
                  " and self.case_sensitive == other.case_sensitive and self.duplicate_names == other.duplicate_names)"},
         assume=["the name table and the duplicate table of a section are modelled as abstract values whose == is dictionary equality"])
class_model("EntryEqW4", {"name": "Str", "attributes": "Int", "description": "Opt[Str]"})
if z3 is not None:
    EXTERNS["same_attributes_in_any_order"] = _uf_w4("same_attributes_in_any_order", ["Int", "Int"], "Bool")
contract("C05.compare_attributes_no_order_view", file=HE, func="HedSchemaEntry._compare_attributes_no_order", params={"left": "Int", "right": "Int"},
         returns="Bool", enc="native", trusted=True, self_class="EntryEqW4", ensures={"view": "result == same_attributes_in_any_order(left, right)"},
         assume=["_compare_attributes_no_order is a relation on two attribute tables (modelled as abstract values)"])
contract("C05.entry_equality_compares_name_attributes_and_description", file=HE, func="HedSchemaEntry.__eq__",
         params={"self": "EntryEqW4", "other": "EntryEqW4"}, returns="Bool", enc="native", self_class="EntryEqW4", prop="C05", ghost={"alias_ok": True},
         ensures={"C05.eq.entries_equal_iff_name_attributes_description_agree":
                  "result == (self.name == other.name and same_attributes_in_any_order(self.attributes, other.attributes)"
                  " and self.description == other.description)"})


# ----------------------------------------------------------------------------------------------------------------------------------
# C01 "forbidden character" / C13 "a prefix that is ... not alphabetic is an error": the per-tag character check reports a faulty prefix AND
# every character of the base tag that is neither alphanumeric nor one of - _ / (nor '#' when placeholders are allowed), each at its place
from contracts.common import HEDTAG_LAYOUT as _LAYOUT4
ALLOWED_TAG = "('-_/#' if allow_placeholders else '-_/')"
contract("C01.tag_characters_prefix_and_base_tag_both_judged", file=CHU, func="CharValidator.check_tag_invalid_chars",
         params={"self": "CharValidator", "original_tag": "HedTag", "allow_placeholders": "Bool"}, returns="List[Issue]", enc="array", prop="C01",
         also=["C13"], requires=[_LAYOUT4],
         lets={"ns": "original_tag.schema_namespace", "b": "original_tag.org_base_tag"},
         ensures={
             "C13.tagchars.faulty_prefix_is_reported": "implies(len(ns) > 0 and not (len(ns) > 1 and all(ns[k].isalpha() for k in range(len(ns) - 1))),"
                                                       " any_in(result, lambda x: x.code == 'TAG_NAMESPACE_PREFIX_INVALID' and x.severity == 1))",
             "C01.tagchars.every_invalid_character_of_the_base_tag_located":
                 "all(implies(not allowed_tag_char(b[k], " + ALLOWED_TAG + "), any_in(result, lambda x: x.has_index_in_tag and x.index_in_tag == k"
                 " and x.index_in_tag_end == k + 1 and x.severity == 1)) for k in range(len(b)))",
             "C01.tagchars.clean_tag_with_sound_prefix_is_silent":
                 "implies((len(ns) == 0 or (len(ns) > 1 and all(ns[k].isalpha() for k in range(len(ns) - 1))))"
                 " and all(allowed_tag_char(b[k], " + ALLOWED_TAG + ") for k in range(len(b))), len(result) == 0)",
         })

# C11/C01 "tag without class judged by the character rule": the text after the base tag may hold letters, digits, ':' and the characters
# - _ / . + ^ # and blank - every other character is located at its place in the tag (base tag, slash, offset, position in the text)
EXT_ALLOWED = "'-_/.+-^ _# '"
contract("C11.extension_characters_each_located_after_the_base_tag", file=CHU, func="CharValidator.check_for_invalid_extension_chars",
         params={"self": "CharValidator", "original_tag": "HedTag", "validate_text": "Str", "error_code": "Opt[Str]", "index_offset": "Int"},
         returns="List[Issue]", enc="array", prop="C11", also=["C01"], ghost={"not_at_call_sites": True},
         requires=["0 <= index_offset", "len(original_tag.org_base_tag) + 1 + index_offset + len(validate_text) <= len(original_tag.tag)"],
         lets={"s0": "len(original_tag.org_base_tag) + 1 + index_offset"},
         ensures={
             "C11.extchars.clean_is_silent": "(len(result) == 0) == all(allowed_tag_char(validate_text[k], " + EXT_ALLOWED + ") for k in range(len(validate_text)))",
             "C11.extchars.each_invalid_character_located_after_base_tag_and_slash":
                 "all(implies(not allowed_tag_char(validate_text[k], " + EXT_ALLOWED + "), any_in(result, lambda x: x.has_index_in_tag"
                 " and x.index_in_tag == s0 + k and x.index_in_tag_end == s0 + k + 1 and x.severity == 1)) for k in range(len(validate_text)))",
         },
         assume=["the text judged lies inside the tag text after the base tag and one slash (precondition; callers: validate_units with the extension)"])

# C11/C12 "bad value ... points at the offending text": the problem characters of a value are re-indexed from the value to the tag - every
# one of them, in order, as (character, position in the value + start of the value in the tag)
class_model("CharRexW4", {})
class_model("UnitValueValidatorW4", {"_char_validator": "CharRexW4"})
if z3 is not None:
    EXTERNS["problem_chars_of"] = _uf_w4("problem_chars_of", ["Str", "Str"], "List[Tuple[Int,Str]]")
contract("C11.get_problem_chars_view", file=CHU, func="CharRexValidator.get_problem_chars",
         params={"self": "CharRexW4", "input_string": "Str", "class_name": "Str"}, returns="List[Tuple[Int,Str]]", enc="native", trusted=True,
         self_class="CharRexW4", ensures={"view": "result == problem_chars_of(input_string, class_name)"},
         assume=["get_problem_chars (compiled regular expressions) is a function of (text, class name): a list of (position, character)"])
contract("C11.problem_characters_reindexed_into_the_tag", file=CLU, func="UnitValueValidator._get_problem_indices",
         params={"self": "UnitValueValidatorW4", "stripped_value": "Str", "class_name": "Str", "start_index": "Int"},
         returns="List[Tuple[Str,Int]]", enc="native", self_class="UnitValueValidatorW4", also=["C12"],
         lets={"P": "problem_chars_of(stripped_value, class_name)"},
         ensures={
             "C11.reindex.every_problem_character_kept": "len(result) == len(P)",
             "C11.reindex.character_first_then_position_shifted_by_the_start_of_the_value":
                 "all(result[k][0] == P[k][1] and result[k][1] == P[k][0] + start_index for k in range(len(P)))",
         })

# C14 "character classes for names and descriptions": whatever is reported as a problem of a name / description IS a character outside the
# allowed set (an ASCII one when the set allows 'nonascii'), paired with its own position plus the offset; without a set nothing is a problem
contract("C14.problem_indexes_are_only_disallowed_characters_at_their_positions", file=SVU, func="get_problem_indexes",
         params={"validation_string": "Str", "character_set": "Set[Str]", "index_adj": "Int"}, returns="List[Tuple[Str,Int]]", enc="native",
         lets={"bad": "lambda k: validation_string[k] not in character_set and not ('nonascii' in character_set and ord(validation_string[k]) > 127)"},
         ensures={
             "C14.problems.no_allowed_set_means_no_rule": "implies(not character_set, len(result) == 0)",
             "C14.problems.nothing_else_is_reported":
                 "all(0 <= result[j][1] - index_adj and result[j][1] - index_adj < len(validation_string) and bad(result[j][1] - index_adj)"
                 " and result[j][0] == validation_string[result[j][1] - index_adj] for j in range(len(result)))",
         },
         assume=["left out: that EVERY disallowed character is listed (the converse needs a position function for a filtered comprehension; "
                 "the bounded workload rt/c14 seeds such faults)"])


# ----------------------------------------------------------------------------------------------------------------------------------
# C05/C14 header rules: a library name is accepted (no message) exactly when every character is a letter that is not upper case
SHU = "hed/schema/schema_header_util.py"
contract("C14.library_name_is_lower_case_letters_only", file=SHU, func="validate_library_name",
         params={"library_name": "Str"}, returns="Opt[Str]", enc="native", prop="C14", also=["C05"],
         ensures={"C14.libname.accepted_iff_only_lower_case_letters":
                  "(result is None) == all(library_name[k].isalpha() and not library_name[k].isupper() for k in range(len(library_name)))"},
         loops={0: {"invariant": ["all(library_name[k].isalpha() and not library_name[k].isupper() for k in range(_n))"]}})

# C14 (scripts: "every schema file counts"): the file a schema base name and a format stand for - <base>.xml / <base>.mediawiki next to each
# other, the TSV form as the folder hedtsv/<base name> beside them; the file name of a released schema is HED<version> / HED_<library>_<version>
SCU = "hed/scripts/script_util.py"
contract("C14.script_format_file_of_a_schema_base_name", file=SCU, func="add_extension",
         params={"basename": "Str", "extension": "Str"}, returns="Str", enc="native",
         ensures={
             "C14.script.tsv_form_is_the_hedtsv_subfolder": "implies(extension == '.tsv', result == os.path.join(dirname_of(basename), 'hedtsv', basename_of(basename)))",
             "C14.script.other_formats_append_the_extension": "implies(extension != '.tsv', result == basename + extension)",
         })
contract("C14.script_schema_file_name", file=SCU, func="get_schema_filename",
         params={"schema_name": "Str", "schema_version": "Str"}, returns="Str", enc="native",
         lets={"n": "schema_name.lower()"},
         ensures={
             "C14.script.standard_schema_file_name": "implies(n == 'standard' or n == '', result == 'HED' + schema_version)",
             "C14.script.library_schema_file_name": "implies(n != 'standard' and n != '', result == 'HED_' + n + '_' + schema_version)",
         })

# C14 "character classes for names": a tag name must start with a capital letter or a digit (the placeholder '#' is exempt: it is judged with
# its parent); the character rules of the term are always judged as well - nothing of either is dropped
class_model("TagNameEntryW4", {"short_tag_name": "Str", "name": "Str", "attributes": "Map[Str,Str]"})
if z3 is not None:
    EXTERNS["term_issues_of"] = _ul4("term_issues_of", 2)
contract("C14.term_character_issues_view", file=SVU, func="validate_schema_term_new",
         params={"hed_entry": "TagNameEntryW4", "hed_term": "Opt[Str]"}, returns="List[Issue]", enc="native", trusted=True,
         ensures={"view": "result == term_issues_of(hed_entry, hed_term)",
                  "kinds": "all_in(result, lambda x: x.kind == 'SCHEMA_INVALID_CHARACTERS_IN_TAG')"},
         assume=["validate_schema_term_new is a function of (entry, term) and reports only SCHEMA_INVALID_CHARACTERS_IN_TAG (its loop: C14.term_characters_each_problem)"])
CAP = "(lambda x: x.kind == 'invalidCaps' and x.severity == 10)"
contract("C14.tag_name_starts_with_capital_or_digit", file=SVU, func="validate_schema_tag_new",
         params={"hed_entry": "TagNameEntryW4"}, returns="List[Issue]", enc="native",
         lets={"t": "hed_entry.short_tag_name"},
         ensures={
             "C14.tagname.placeholder_is_exempt": "implies(t == '#', len(result) == 0)",
             "C14.tagname.bad_first_character_is_reported": "implies(t != '#' and len(t) > 0 and not (t[0].isdigit() or t[0].isupper()), any_in(result, " + CAP + "))",
             "C14.tagname.good_first_character_is_not_reported": "implies(t == '#' or len(t) == 0 or t[0].isdigit() or t[0].isupper(), all_in(result, lambda x: not " + CAP + "(x)))",
             "C14.tagname.character_rules_of_the_term_always_judged": "implies(t != '#', all_in(term_issues_of(hed_entry, t), lambda x: is_in(x, result)))",
         })


# ----------------------------------------------------------------------------------------------------------------------------------
# C14 driver: "a compliant schema into which one fault is seeded ... is reported": the compliance check runs ALL five part checks (prerelease
# version, prologue / epilogue characters, name and description characters, attribute rules, duplicate names) on one validator for the schema
# handed in, drops nothing any of them reports, invents nothing, and leaves the caller's context stack as it found it
class_model("HedSchemaCompW4", {"filename": "Opaque"}, bases=["HedSchema"])
class_model("SchemaValidator", {"hed_schema": "HedSchemaCompW4", "error_handler": "ErrorHandlerCtx"})
if z3 is not None:
    for _k in ("prerelease", "prologue", "chars", "attributes", "duplicates"):
        EXTERNS["part_issues_" + _k] = _ul4("part_issues_" + _k, 1)
    EXTERNS["sorted_issues_of"] = _ul4("sorted_issues_of", 1)
contract("C14.schema_validator_init", file=SCO, func="SchemaValidator.__init__",
         params={"self": "SchemaValidator", "hed_schema": "HedSchemaCompW4", "error_handler": "ErrorHandlerCtx"}, returns=None, enc="native",
         trusted=True, self_class="SchemaValidator", modifies=["self.hed_schema", "self.error_handler"],
         ensures={"fields": "self.hed_schema is hed_schema and self.error_handler is error_handler"},
         assume=["SchemaValidator.__init__ stores the schema and the handler (it also builds the hedId validator, which loads earlier schema versions)"])
for _m, _k in (("check_if_prerelease_version", "prerelease"), ("check_prologue_epilogue", "prologue"), ("check_invalid_chars", "chars"),
               ("check_attributes", "attributes"), ("check_duplicate_names", "duplicates")):
    contract("C14.part_" + _k + "_view", file=SCO, func="SchemaValidator." + _m, params={"self": "SchemaValidator"}, returns="List[Issue]",
             enc="native", trusted=True, self_class="SchemaValidator", ensures={"view": "result == part_issues_" + _k + "(self)"},
             assume=["each part check of SchemaValidator is a function of the validator (schema + handler); the context pushes inside it are balanced"])
contract("C14.sort_issues_view", file="hed/errors/error_reporter.py", func="sort_issues", params={"issues": "List[Issue]", "reverse": "Bool"},
         returns="List[Issue]", enc="native", trusted=True,
         ensures={"same_members": "all_in(issues, lambda x: is_in(x, result)) and all_in(result, lambda x: is_in(x, issues)) and len(result) == len(issues)"},
         assume=["sort_issues returns a permutation of the list it is given (proved as C12.sorting_rearranges_by_the_documented_key)"])
PARTS = ["part_issues_" + _k + "(gv)" for _k in ("prerelease", "prologue", "chars", "attributes", "duplicates")]
contract("C14.compliance_runs_every_part_check_and_drops_nothing", file=SCO, func="check_compliance",
         params={"hed_schema": "HedSchemaCompW4", "check_for_warnings": "Bool", "name": "Opaque", "error_handler": "ErrorHandlerCtx"},
         returns="List[Issue]", enc="native", locals={"issues_list": "List[Issue]"},
         ghost={"vars": {"ctx_depth0": "Int"}, "init": {"ctx_depth": "ctx_depth0", "gv": "None"}, "no_frame": True,
                "update": [("assign:validator", "gv = validator")]},
         raises={},
         ensures=dict(
             [("C14.driver.validator_is_for_the_schema_and_handler_handed_in", "gv is not None and gv.hed_schema is hed_schema and gv.error_handler is error_handler")] +
             [("C14.driver.no_issue_of_the_" + _k + "_check_is_dropped", "all_in(" + _p + ", lambda x: is_in(x, result))")
              for _k, _p in zip(("prerelease", "prologue_epilogue", "character", "attribute", "duplicate_name"), PARTS)] +
             [("C14.driver.nothing_invented", "all_in(result, lambda x: " + " or ".join("is_in(x, " + _p + ")" for _p in PARTS) + ")"),
              ("C14.driver.context_stack_balanced", "ctx_depth == ctx_depth0")]),
         assume=["the caller passes an error handler (the `ErrorHandler(check_for_warnings)` default of a missing handler is not covered)"])
