"""Contracts written by w13 (third pass; schema core: C03, C05, C11, C13, C14, C19)."""
from pyvc.contract import contract, class_model, EXTERNS, CLASSES
try:
    import z3
    from pyvc.vals import SV, Cell, Opaque, Unsupported, INT, BOOL, REAL, STR, TRef, TOpt, TList, sort_of
except ImportError:
    z3 = None

SCO = "hed/schema/schema_compliance.py"
HE = "hed/schema/hed_schema_entry.py"
HS = "hed/schema/hed_schema.py"
HC = "hed/schema/hed_cache.py"
SHU = "hed/schema/schema_header_util.py"

# C14 driver ("a compliant schema into which one fault is seeded ... is reported"): the validator judges THE schema handed in and reports
# through THE handler handed in (the clause text of the trusted summary C14.schema_validator_init), the character-rule generation is that of
# this schema, and the hedId rules are built for this schema (not for another one)
class_model("HedSchemaCompW13", {"schema_83_props": "Bool"}, bases=["HedSchemaCompW4"])
class_model("HedIDValidator", {})
class_model("SchemaValidatorW13", {"_new_character_validation": "Bool", "_id_validator": "HedIDValidator"}, bases=["SchemaValidator"])
if z3 is not None:
    from contracts.x_w5 import _built_view_w5 as _bv13
    EXTERNS["id_rules_built_for_w13"] = _bv13("id_rules_built_for_w13", "Int")
contract("C14.w13.hed_id_validator_init_view", file="hed/schema/schema_attribute_validator_hed_id.py", func="HedIDValidator.__init__",
         params={"self": "HedIDValidator", "hed_schema": "HedSchemaCompW13"}, returns=None, enc="native", trusted=True,
         self_class="HedIDValidator", ensures={"schema": "id_rules_built_for_w13(self) == id(hed_schema)"},
         assume=["HedIDValidator.__init__ remembers the schema it is built for (view id_rules_built_for_w13); it loads earlier schema versions "
                 "from the cache (files, lru_cache: outside the subset)"])
contract("C14.w13.schema_validator_keeps_schema_and_handler", file=SCO, func="SchemaValidator.__init__",
         params={"self": "SchemaValidatorW13", "hed_schema": "HedSchemaCompW13", "error_handler": "ErrorHandlerCtx"}, returns=None, enc="native",
         self_class="SchemaValidatorW13",
         modifies=["self.hed_schema", "self.error_handler", "self._new_character_validation", "self._id_validator"],
         ghost={"not_at_call_sites": True},
         ensures={"fields": "self.hed_schema is hed_schema and self.error_handler is error_handler",
                  "C14.init.character_rule_generation_is_that_of_this_schema": "self._new_character_validation == hed_schema.schema_83_props",
                  "C14.init.hed_id_rules_built_for_this_schema":
                      "fresh(self._id_validator) and id_rules_built_for_w13(self._id_validator) == id(hed_schema)"},
         assume=["schema_83_props is a pure view of the schema"])


# C03 / C11 "attributes a tag inherits from its ancestors" (the statement's "schema node" carries the unit classes / takesValue / extensionAllowed
# that the tag rules look up in inherited_attributes): finalizing writes ONLY the node's inherited table (the trusted summary
# C03.finalize_inherited_attributes_any), every attribute written on the node itself is kept with its value, and every inheritable attribute
# found on the node or an ancestor is entered with the value gathered along the chain - nothing else is invented
class_model("SectionInhW13", {"inheritable_attributes": "List[Str]"})
class_model("TagEntryInhW13", {"attributes": "Map[Str,Str]", "inherited_attributes": "Map[Str,Str]", "_section": "SectionInhW13"})
if z3 is not None:
    from contracts.x_w4 import _uf_w4 as _uf13
    EXTERNS["inherited_present_w13"] = _uf13("inherited_present_w13", ["TagEntryInhW13", "Str"], "Bool")
    EXTERNS["inherited_value_w13"] = _uf13("inherited_value_w13", ["TagEntryInhW13", "Str"], "Str")

    def _check_inherited_w13(interp, args, kwargs):
        """view of HedTagEntry._check_inherited_attribute(attribute, return_value): presence (flag off) or the gathered value (flag on)"""
        flag = args[2] if len(args) > 2 else kwargs.get("return_value", False)
        if isinstance(flag, SV):
            raise Unsupported("symbolic return_value flag")
        return EXTERNS["inherited_value_w13" if flag else "inherited_present_w13"](interp, args[:2], {})
    EXTERNS["TagEntryInhW13._check_inherited_attribute"] = _check_inherited_w13
INH = "self._section.inheritable_attributes"
contract("C03.w13.inherited_table_is_own_attributes_plus_inherited_ones", file=HE, func="HedTagEntry._finalize_inherited_attributes",
         params={"self": "TagEntryInhW13"}, returns=None, enc="native", self_class="TagEntryInhW13", also=["C11"],
         modifies=["self.inherited_attributes", "heap:TagEntryInhW13.inherited_attributes"],   # (the loop havocs the whole field: no per-object frame)
         ghost={"not_at_call_sites": True},
         ensures={
             "C03.inherit.own_attributes_kept": "forall_str(lambda k: implies(k in self.attributes and not (is_in(k, " + INH + ") and "
                 "inherited_present_w13(self, k)), k in self.inherited_attributes and self.inherited_attributes[k] == self.attributes[k]))",
             "C03.inherit.inheritable_found_on_the_chain_entered_with_gathered_value":
                 "all(implies(inherited_present_w13(self, " + INH + "[j]), " + INH + "[j] in self.inherited_attributes and "
                 "self.inherited_attributes[" + INH + "[j]] == inherited_value_w13(self, " + INH + "[j])) for j in range(len(" + INH + ")))",
             "C03.inherit.nothing_invented": "forall_str(lambda k: implies(k in self.inherited_attributes, k in self.attributes or "
                 "(is_in(k, " + INH + ") and inherited_present_w13(self, k))))",
             "C03.inherit.own_table_untouched": "self.attributes == old(self.attributes)",
         },
         loops={0: {"invariant": [
             "forall_str(lambda k: implies(k in self.attributes and not (any(_iter0[j] == k for j in range(_n)) and inherited_present_w13(self, k)),"
             " k in self.inherited_attributes and self.inherited_attributes[k] == self.attributes[k]))",
             "all(implies(inherited_present_w13(self, _iter0[j]), _iter0[j] in self.inherited_attributes and "
             "self.inherited_attributes[_iter0[j]] == inherited_value_w13(self, _iter0[j])) for j in range(_n))",
             "forall_str(lambda k: implies(k in self.inherited_attributes, k in self.attributes or "
             "(any(_iter0[j] == k for j in range(_n)) and inherited_present_w13(self, k))))",
             "self.attributes == old(self.attributes)",
         ]}},
         assume=["_check_inherited_attribute(a) / (a, True) are views of the node and the attribute name (presence along the parent chain / "
                 "the value gathered along it): inherited_present_w13, inherited_value_w13; attribute values are modelled as texts"])


# C13 "an annotation whose tags all carry prefix p is judged ... against p's schema" (and C05: a schema read from a TEXT is the one the loader
# built): from_string / from_dataframes hand back the NEW object the loader built, carrying the prefix asked for (with its colon) or none when
# none was asked; an empty text / empty table set is refused; a text format other than .xml / .mediawiki is refused.
# (The trusted summary C13.loader_string says "fresh(result) and len(result._namespace) == 0" for EVERY call: that holds only when no prefix is
# asked - its one call site, load_schema, asks none - so the provable clause is the conditional one below, not the summary's text.)
IOF = "hed/schema/hed_schema_io.py"
NSW13 = "(schema_namespace is not None and len(schema_namespace) > 0)"
contract("C13.w13.schema_from_text_is_new_and_carries_the_prefix_asked_for", file=IOF, func="from_string",
         params={"schema_string": "Str", "schema_format": "Str", "schema_namespace": "Opt[Str]", "schema": "Opaque", "name": "Opaque"},
         returns="HedSchemaNS", enc="native", also=["C05"], ghost={"not_at_call_sites": True},
         raises={"HedFileError": True},
         ensures={
             "C13.text.new_object": "fresh(result)",
             "C13.text.no_prefix_asked_none_set": "implies(not " + NSW13 + ", len(result._namespace) == 0)",
             "C13.text.prefix_asked_for_is_set": "implies(" + NSW13 + ", len(result._namespace) > 0 and result._namespace[len(result._namespace) - 1] == ':')",
             "C13.text.empty_text_never_loaded": "len(schema_string) > 0",
             "C13.text.only_xml_and_mediawiki_are_loaded": "schema_format.endswith('.xml') or schema_format.endswith('.mediawiki')",
         })
contract("C13.w13.schema_from_tables_is_new_and_carries_the_prefix_asked_for", file=IOF, func="from_dataframes",
         params={"schema_data": "Map[Str,Str]", "schema_namespace": "Opt[Str]", "name": "Opaque"},
         returns="HedSchemaNS", enc="native", also=["C05"], ghost={"not_at_call_sites": True},
         raises={"HedFileError": True},
         ensures={
             "C13.tables.new_object": "fresh(result)",
             "C13.tables.no_prefix_asked_none_set": "implies(not " + NSW13 + ", len(result._namespace) == 0)",
             "C13.tables.prefix_asked_for_is_set": "implies(" + NSW13 + ", len(result._namespace) > 0 and result._namespace[len(result._namespace) - 1] == ':')",
             "C13.tables.empty_table_set_never_loaded": "not no_keys(schema_data)",
         })


# C14 "a compliant schema into which one fault is seeded (... a rooted tag that does not exist ...) is reported": a 'rooted' value naming no
# tag of the base schema is reported once as an invalid tag (TAG_INVALID, an error); an existing tag or an absent / empty value is silent
SAVW13 = "hed/schema/schema_attribute_validators.py"
RTW13 = "(tag_entry.attributes[attribute_name] if attribute_name in tag_entry.attributes else '')"
contract("C14.w13.rooted_tag_must_exist_in_the_base_schema", file=SAVW13, func="tag_exists_base_schema_check",
         params={"hed_schema": "SchemaSections", "tag_entry": "SchemaEntry", "attribute_name": "Str"}, returns="List[Issue]", enc="native",
         lets={"rooted": RTW13},
         ensures={
             "C14.rooted.reported_iff_names_no_tag": "(len(result) > 0) == (len(rooted) > 0 and rooted not in hed_schema.tags)",
             "C14.rooted.one_invalid_tag_issue_naming_the_value":
                 "all_in(result, lambda x: x.kind == 'invalidTag' and x.code == 'TAG_INVALID' and x.severity == 1 and x.has_source_tag)"
                 " and len(result) <= 1",
         })

# C05 "a header the loader accepts": withStandard without a library attribute is refused (SCHEMA_LIBRARY_INVALID), every other combination passes
contract("C05.w13.with_standard_needs_a_library", file=SHU, func="validate_present_attributes",
         params={"attrib_dict": "Map[Str,Str]", "name": "Opaque"}, returns=None, enc="native",
         raises={"HedFileError": "'withStandard' in attrib_dict and 'library' not in attrib_dict"},
         ensures={"C05.header.accepted_only_with_library_when_with_standard": "implies('withStandard' in attrib_dict, 'library' in attrib_dict)"})


# C14 "character classes for names and descriptions" (schemas older than 8.3): every character of a description that is neither a letter /
# digit nor one of the allowed punctuation marks is reported AT ITS INDEX as a description-character warning; a clean or missing description is
# silent; nothing else is reported
SVDW13 = "hed/schema/schema_validation_util_deprecated.py"
class_model("DescEntryW13", {"description": "Str", "name": "Str"})      # (a missing description: the empty text)
BADD = "(lambda c: not c.isalnum() and c not in '-_:;,./()+ ^')"
DISS = "(lambda x: x.kind == 'SCHEMA_INVALID_CHARACTERS_IN_DESC' and x.severity == 10)"
# (C14.w13.old_description_every_character_judged on validate_schema_description was withdrawn at registration: one loop-invariant query
# needed 10-30 s and was not stable under load; no clause of it is claimed)



# C14 "each seeded fault is flagged" (schemas older than 8.3: the deprecated name rules): the loops that judge the characters of a tag name /
# the forbidden brackets of a name one by one carry nothing from one character to the next, only extend their issue list and skip no
# character by a break - decided by the def-before-use analysis of the real loop bodies (pyvc/dataflow.py)
INDW13 = {"dataflow_only": True, "no_frame": True}
for _cid, _fn, _loops in [
    ("C14.w13.old_tag_name_each_character", "validate_schema_tag", {0: ["issues_list"]}),
    ("C14.w13.old_name_brackets_each_occurrence", "verify_no_brackets", {0: ["issues_list"]}),
]:
    contract(_cid, file=SVDW13, func=_fn, params={}, returns="Opaque", enc="native", prop="C14",
             ghost=dict(INDW13, independent_iterations=_loops), ensures={})



# C13 "judged against p's schema" rests on the assumption (C13.loader_*) that a loader hands back a NEW schema without prefix: a schema object
# starts WITHOUT a prefix, without file name, source format, prologue and epilogue (what the loaders and set_schema_prefix then fill in);
# C05: nothing of a schema read earlier can leak into the next one through the constructor
class_model("SchemaBaseW13", {})
class_model("HedSchemaInitW13", {"header_attributes": "Map[Str,Str]", "filename": "Opt[Str]", "prologue": "Str", "epilogue": "Str",
                                 "_namespace": "Str", "_sections": "Opaque", "source_format": "Opt[Str]"}, bases=["SchemaBaseW13"])
if z3 is not None:
    EXTERNS["SchemaBaseW13.__init__"] = lambda interp, args, kwargs: None
    EXTERNS["HedSchemaInitW13._create_empty_sections"] = lambda interp, args, kwargs: Opaque("empty sections", fresh=True)
contract("C13.w13.new_schema_has_no_prefix_and_no_content", file=HS, func="HedSchema.__init__",
         params={"self": "HedSchemaInitW13"}, returns=None, enc="native", self_class="HedSchemaInitW13", also=["C05"],
         modifies=["self.header_attributes", "self.filename", "self.prologue", "self.epilogue", "self._namespace", "self._sections", "self.source_format"],
         ghost={"not_at_call_sites": True, "super_is": "SchemaBaseW13"},
         ensures={
             "C13.new.no_prefix": "len(self._namespace) == 0",
             "C13.new.no_header_no_texts": "no_keys(self.header_attributes) and len(self.prologue) == 0 and len(self.epilogue) == 0",
             "C13.new.no_file_no_format": "self.filename is None and self.source_format is None",
         },
         assume=["HedSchemaBase.__init__ (super().__init__()) sets no attribute the clauses read; _create_empty_sections builds the seven empty "
                 "section tables (an unknown new value here)",
                 "super() in a method of the leaf class HedSchema is self seen as HedSchemaBase (single inheritance)"])

# C14 / C05 "an entry read from a schema file": a new entry carries the name it is created for, belongs to the section that creates it and
# starts with NO attribute, no description and no remembered unknown attribute (nothing is shared with another entry)
class_model("EntryInitW13", {"name": "Str", "attributes": "Map[Str,Str]", "description": "Opt[Str]", "_section": "SectionDeclW4",
                             "_unknown_attributes": "Opt[Str]"})
contract("C14.w13.new_entry_is_named_and_empty", file=HE, func="HedSchemaEntry.__init__",
         params={"self": "EntryInitW13", "name": "Str", "section": "SectionDeclW4"}, returns=None, enc="native", self_class="EntryInitW13",
         also=["C05"], modifies=["self.name", "self.attributes", "self.description", "self._section", "self._unknown_attributes"],
         ghost={"not_at_call_sites": True},
         ensures={
             "C14.entry.named_as_asked_in_the_creating_section": "self.name == name and self._section is section",
             "C14.entry.starts_without_attributes": "no_keys(self.attributes)",
             "C14.entry.starts_without_description_and_unknowns": "self.description is None and self._unknown_attributes is None",
         },
         assume=["the table of unknown attributes (None until first use) is modelled as an optional value"])


# C14 "a duplicated node name ... is reported" / C05: a new section starts EMPTY - no name, no entry, no duplicate, no declared attribute, no
# finished attribute list - with the key and the letter-case rule it is created for (nothing of another section is shared)
class_model("SectionInitW13", {"all_names": "Map[Str,EntryN]", "_section_key": "Str", "case_sensitive": "Bool", "valid_attributes": "Map[Str,EntryN]",
                               "_attribute_cache": "Map[Str,List[EntryN]]", "_section_entry": "Opaque", "_duplicate_names": "Map[Str,List[EntryN]]",
                               "all_entries": "List[EntryN]"})
if z3 is not None and "entries_by_section" not in EXTERNS:
    EXTERNS["entries_by_section"] = Opaque("entries_by_section (module table: section key -> entry class)")
contract("C14.w13.new_section_is_empty_and_keyed_as_asked", file="hed/schema/hed_schema_section.py", func="HedSchemaSection.__init__",
         params={"self": "SectionInitW13", "section_key": "Str", "case_sensitive": "Bool"}, returns=None, enc="native", self_class="SectionInitW13",
         also=["C05"], ghost={"not_at_call_sites": True},
         modifies=["self.all_names", "self._section_key", "self.case_sensitive", "self.valid_attributes", "self._attribute_cache",
                   "self._section_entry", "self._duplicate_names", "self.all_entries"],
         ensures={
             "C14.section.keyed_and_cased_as_asked": "self._section_key == section_key and self.case_sensitive == case_sensitive",
             "C14.section.starts_without_names_entries_duplicates": "no_keys(self.all_names) and len(self.all_entries) == 0 and no_keys(self._duplicate_names)",
             "C14.section.starts_without_declared_attributes_and_cache": "no_keys(self.valid_attributes) and no_keys(self._attribute_cache)",
         },
         assume=["entries_by_section (module table: section key -> entry class) is an unknown value; the entry class stored is not part of the claim"])

# C14 / C11 "every character is judged against the character classes of the value classes": the allowed-character set of a placeholder is
# gathered from EVERY value class - the gathering loop carries nothing between items, only extends its collection and skips no item
# (def-before-use analysis of the real loop body); C11: every unit of a unit class is linked back to the class (the loop skips no unit).
# (The loops that fill a set / dict with .add / .update cannot be stated: the analysis counts those calls as reads of the accumulator.)
for _cid, _prop, _also, _file, _fn, _loops in [
    ("C14.w13.allowed_characters_every_value_class", "C14", ["C11"], "hed/schema/schema_validation_util.py", "get_allowed_characters", {0: ["character_set_names"]}),
    ("C11.w13.unit_class_every_unit_linked_back", "C11", [], HE, "UnitClassEntry.finalize_entry", {0: []}),
]:
    contract(_cid, file=_file, func=_fn, params={}, returns="Opaque", enc="native", prop=_prop, also=_also,
             ghost=dict(INDW13, independent_iterations=_loops), ensures={})


# C03 / C11 "the attributes a tag inherits" (unit classes, takesValue, extensionAllowed are looked up along the parent chain): asked for
# PRESENCE the check answers exactly whether the chain carries the attribute; asked for the VALUE it answers None for an absent attribute and
# otherwise the values gathered from the node upwards joined by commas, in that order (the two modes are the two contracts: the result type
# differs; every call site passes a literal flag)
if z3 is not None:
    EXTERNS["gathered_values_w13"] = _uf13("gathered_values_w13", ["TagEntryInhW13", "Str"], "List[Str]")
    EXTERNS["TagEntryInhW13._check_inherited_attribute_internal"] = lambda interp, args, kwargs: EXTERNS["gathered_values_w13"](interp, args[:2], {})
GATH = ["_check_inherited_attribute_internal(attribute) is a list of texts, a function of the node and the attribute name (gathered_values_w13); "
        "attribute values are modelled as texts (the TypeError fallback for boolean values is outside the claim)"]
contract("C03.w13.inherited_presence_is_nonempty_gathering", file=HE, func="HedTagEntry._check_inherited_attribute",
         params={"self": "TagEntryInhW13", "attribute": "Str", "return_value": "Bool"}, returns="Bool", enc="native", self_class="TagEntryInhW13",
         also=["C11"], requires=["not return_value"], ghost={"not_at_call_sites": True},
         ensures={"C03.inherited.present_iff_something_gathered": "result == (len(gathered_values_w13(self, attribute)) > 0)"}, assume=GATH)
contract("C03.w13.inherited_value_is_the_gathered_values_joined", file=HE, func="HedTagEntry._check_inherited_attribute",
         params={"self": "TagEntryInhW13", "attribute": "Str", "return_value": "Bool"}, returns="Opt[Str]", enc="native", self_class="TagEntryInhW13",
         also=["C11"], requires=["return_value"], ghost={"not_at_call_sites": True},
         ensures={"C03.inherited.absent_is_none": "implies(len(gathered_values_w13(self, attribute)) == 0, result is None)",
                  "C03.inherited.value_is_joined_from_the_node_upwards":
                      "implies(len(gathered_values_w13(self, attribute)) > 0, result == ','.join(gathered_values_w13(self, attribute)))"},
         assume=GATH)


# C19 "the cache serves every released version": a refresh asks EVERY base URL and EVERY library URL for its versions and brings EVERY version
# of EVERY library found into the cache folder - none of the four loops skips an item by a break / return or carries a value from one item
# to the next (def-before-use analysis of the real loop bodies; what one download does is C19.unchanged_cached_copy_is_not_downloaded_again)
contract("C19.w13.cache_refresh_visits_every_url_library_and_version", file=HC, func="cache_xml_versions", params={}, returns="Opaque", enc="native",
         prop="C19", ghost=dict(INDW13, independent_iterations={0: [], 1: [], 2: [], 3: []}), ensures={})
