from pyvc.contract import contract, class_model

class_model("BidsFile", {"file_path": "Str", "suffix": "Str", "ext": "Str", "entity_dict": "Map[Str,Str]"})
class_model("BidsSidecarFile", {}, bases=["BidsFile"])

# C16 applicability test, from the property: same file, or same suffix, lying in a directory on the path to the file,
# and every entity of the sidecar occurs with the same value in the file name
contract("C16.is_sidecar_for",
         file="hed/tools/bids/bids_sidecar_file.py", func="BidsSidecarFile.is_sidecar_for",
         params={"self": "BidsSidecarFile", "obj": "BidsFile"}, returns="Bool", enc="native",
         lets={"entities_match": "forall_str(lambda k: implies(k in self.entity_dict, k in obj.entity_dict"
                                 " and obj.entity_dict[k] == self.entity_dict[k]))"},
         ensures={
             "C16.applies.iff": "result == (obj.file_path == self.file_path or (obj.suffix == self.suffix"
                                " and dirname_of(self.file_path) == commonpath2(obj.file_path, self.file_path) and entities_match))",
         },
         loops={0: {"invariant": [
             "all(_iter0[k][0] in obj.entity_dict and obj.entity_dict[_iter0[k][0]] == _iter0[k][1] for k in range(_n))"]}},
         assume=["os.path.commonpath([a, b]) / os.path.dirname are uninterpreted (directory-ancestor test trusted)"])
