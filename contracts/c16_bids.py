from pyvc.contract import contract, class_model

class_model("BidsFile", {"file_path": "Str", "suffix": "Str", "ext": "Str", "entity_dict": "Map[Str,Str]"})
class_model("BidsSidecarFile", {}, bases=["BidsFile"])

# C16 applicability test, from the property: same file, or same suffix, lying in a directory on the path to the file,
# and every entity of the sidecar occurs with the same value in the file name
contract("C16.is_sidecar_for",
         file="hed/tools/bids/bids_sidecar_file.py", func="BidsSidecarFile.is_sidecar_for",
         params={"self": "BidsSidecarFile", "obj": "BidsFile"}, returns="Bool", enc="native",
         lets={"entities_match": "forall_str(lambda k: implies(k in self.entity_dict, k in obj.entity_dict"
                                 " and obj.entity_dict[k] == self.entity_dict[k]))"},
         ensures={
             "C16.applies.iff": "result == (obj.file_path == self.file_path or (obj.suffix == self.suffix"
                                " and dirname_of(self.file_path) == commonpath2(obj.file_path, self.file_path) and entities_match))",
         },
         loops={0: {"invariant": [
             "all(_iter0[k][0] in obj.entity_dict and obj.entity_dict[_iter0[k][0]] == _iter0[k][1] for k in range(_n))"]}},
         assume=["os.path.commonpath([a, b]) / os.path.dirname are uninterpreted (directory-ancestor test trusted)"])

# C16 "at most one such file per directory": the sidecar taken from one directory is the first listed one that applies, None iff none applies
APPLIES = ("(lambda s: obj.file_path == s.file_path or (obj.suffix == s.suffix"
           " and dirname_of(s.file_path) == commonpath2(obj.file_path, s.file_path)"
           " and forall_str(lambda k: implies(k in s.entity_dict, k in obj.entity_dict and obj.entity_dict[k] == s.entity_dict[k]))))")
class_model("BidsFileGroup", {"sidecar_dir_dict": "Map[Str,List[BidsSidecarFile]]", "root_path": "Str"})
contract("C16.get_sidecar_for_obj",
         file="hed/tools/bids/bids_file_group.py", func="BidsFileGroup._get_sidecar_for_obj",
         params={"self": "BidsFileGroup", "obj": "BidsFile", "current_path": "Str"}, returns="Opt[BidsSidecarFile]", enc="native",
         lets={"app": APPLIES,
               "L": "self.sidecar_dir_dict[current_path] if current_path in self.sidecar_dir_dict else []"},
         ensures={
             "C16.dir.none_iff_no_applicable_sidecar_in_directory": "(result is None) == all(not app(L[k]) for k in range(len(L)))",
             "C16.dir.result_applies_and_is_listed": "implies(result is not None, app(result) and any(L[k] is result for k in range(len(L))))",
             "C16.dir.first_applicable": "implies(result is not None, any(L[k] is result and all(not app(L[j]) for j in range(k)) for k in range(len(L))))",
         },
         loops={0: {"invariant": ["all(not " + APPLIES + "(_iter0[k]) for k in range(_n))"]}})

# C16 "each dataset file is validated with its inherited, merged sidecar" - every time, not only the first: releasing the loaded table after a
# validation drops the table and nothing else (the merged sidecar attached when the dataset was read, and the HED flag, stay)
class_model("BidsFileClear", {"_contents": "Opaque", "sidecar": "Opaque", "has_hed": "Bool", "file_path": "Str"})
contract("C16.releasing_the_table_keeps_the_sidecar", file="hed/tools/bids/bids_file.py", func="BidsFile.clear_contents",
         params={"self": "BidsFileClear"}, returns=None, enc="native", self_class="BidsFileClear", modifies=["self._contents"],
         ghost={"not_at_call_sites": True},
         ensures={"C16.clear.flag_kept": "self.has_hed == old(self.has_hed)"})
