from pyvc.contract import contract, class_model

class_model("HedSchema", {"_namespace": "Str", "tags": "Opaque", "valid_prefixes": "Opaque"})
class_model("TagEntry", {"takes_value_child_entry": "Opt[TagEntry]", "name": "Str"})

# the tag section as an abstract view: case-folded form -> entry.  Trusted: that the loaders register every suffix
# form of every node (HedSchemaTagSection._check_if_duplicate, see C03.get_tag_forms) - exercised by the T3 workload.
contract("C03.get_tag_entry", file="hed/schema/hed_schema.py", func="HedSchema._get_tag_entry",
         params={"self": "HedSchema", "name": "Str", "key_class": "Opaque"}, returns="Opt[TagEntry]", enc="native",
         trusted=True, ensures={"view": "result == tag_view(self, name)"})

# C03/C01 "permitted extensions": an extension term that is itself a schema term is an error (TAG_EXTENSION_INVALID), for EVERY term
contract("C03.validate_remaining_terms", file="hed/schema/hed_schema.py", func="HedSchema._validate_remaining_terms",
         params={"self": "HedSchema", "tag": "HedTag", "working_tag": "Str", "prefix_tag_adj": "Int", "current_slash_index": "Int"},
         returns=None, enc="native", also=["C01"],
         requires=["-1 <= current_slash_index < len(working_tag)", "0 <= prefix_tag_adj",
                   "prefix_tag_adj + len(working_tag) <= len(tag.tag)"],
         lets={"rest": "working_tag[current_slash_index + 1:]"},
         raises={"_TagIdentifyError": "any_in(working_tag[current_slash_index + 1:].split('/'), lambda n: tag_view(self, n) is not None)"},
         ensures={"C03.extension.no_term_is_a_schema_term": "all_in(rest.split('/'), lambda n: tag_view(self, n) is None)"},
         loops={0: {"invariant": [
             "all(tag_view(self, child_names[k]) is None for k in range(_n))",
             "word_start_index == current_slash_index + 1 + prefix_tag_adj + split_off(working_tag[current_slash_index + 1:], '/', _n)",
         ]}})

# C03: left-to-right walk to the deepest known node
contract("C03.find_tag_subfunction",
         file="hed/schema/hed_schema.py", func="HedSchema._find_tag_subfunction",
         params={"self": "HedSchema", "tag": "HedTag", "working_tag": "Str", "prefix_tag_adj": "Int"},
         returns="Tuple[TagEntry,Int]", enc="native",
         requires=["0 <= prefix_tag_adj", "prefix_tag_adj + len(working_tag) <= len(tag.tag)"],
         raises={"_TagIdentifyError": "True"},
         lets={"k": "result[1]"},
         ensures={
             "C03.walk.boundary": "0 <= k <= len(working_tag) and (k == len(working_tag) or working_tag[k] == '/')",
             "C03.walk.entry_is_prefix_node": "tag_view(self, working_tag[:k]) is not None and result[0] == tag_view(self, working_tag[:k])",
             "C03.walk.deepest": "implies(k < len(working_tag), tag_view(self, working_tag[:next_boundary(working_tag, k)]) is None)",
             "exc:C03.walk.unknown_first_term_or_invalid_parent": "True",
         },
         locals={"current_entry": "Opt[TagEntry]"},
         loops={0: {"invariant": [
             "-1 <= current_slash_index < len(working_tag)",
             "(current_slash_index == -1) == (current_entry is None)",
             "implies(current_slash_index >= 0, working_tag[current_slash_index] == '/'"
             " and current_entry == tag_view(self, working_tag[:current_slash_index]))",
         ]}})

# C03: direct hit, else walk; the remainder is carried over verbatim from the text as written
contract("C03.find_tag_entry",
         file="hed/schema/hed_schema.py", func="HedSchema._find_tag_entry",
         params={"self": "HedSchema", "tag": "HedTag", "schema_namespace": "Str"},
         returns="Tuple[Opt[TagEntry],Opt[Str],Opaque]", enc="native",
         requires=["tag.__str__ == tag.tag", "len(schema_namespace) <= len(tag.tag)",
                   # boundary of the claim (DESIGN 3/C03): case folding that changes the length ('ß', 'ﬁ') is outside it
                   "len(tag.tag[len(schema_namespace):].casefold()) == len(tag.tag[len(schema_namespace):])"],
         lets={"clean": "tag.tag[len(schema_namespace):]", "w": "tag.tag[len(schema_namespace):].casefold()"},
         ensures={
             "C03.resolve.direct_hit": "implies(tag_view(self, w) is not None, result[0] == tag_view(self, w)"
                                       " and result[1] == ('/#' if w.endswith('/#') else ''))",
             "C03.resolve.remainder_verbatim": "implies(tag_view(self, w) is None and result[0] is not None and result[1] is not None,"
                                               " clean.endswith(result[1]) and len(result[1]) > 0)",
             # the node is the one named by the text before the remainder, or its '#' child when a remainder exists
             "C03.resolve.node_or_value_child": "implies(tag_view(self, w) is None and result[0] is not None and result[1] is not None,"
                                                " tag_view(self, w[:len(w) - len(result[1])]) is not None and result[0] == "
                                                "(tag_view(self, w[:len(w) - len(result[1])]).takes_value_child_entry"
                                                " if (len(result[1]) > 0 and tag_view(self, w[:len(w) - len(result[1])]).takes_value_child_entry is not None)"
                                                " else tag_view(self, w[:len(w) - len(result[1])])))",
             "C03.resolve.failure_is_total": "implies(result[0] is None, result[1] is None)",
         },
         assume=["len(casefold(s)) == len(s) for the text resolved (precondition; characters like 'ß' are outside the claim)"])

# C03: all suffix forms of a long name are registered
contract("C03.get_tag_forms",
         file="hed/schema/hed_schema_section.py", func="HedSchemaTagSection._get_tag_forms",
         params={"name": "Str"}, returns="Tuple[Str,List[Str]]", enc="native",
         requires=["len(name) > 0"],
         locals={"tag_forms": "List[Str]"},
         ensures={
             "C03.forms.are_suffix_paths": "all(name.endswith(result[1][k]) and len(result[1][k]) > 0 and (len(result[1][k]) == len(name)"
                                           " or name[len(name) - len(result[1][k]) - 1] == '/') for k in range(len(result[1])))",
             "C03.forms.full_name_first": "name == '#' or (len(result[1]) > 0 and result[1][0] == name)",
             "C03.forms.short_name_last": "'/' not in result[0] and name.endswith(result[0])"
                                          " and (len(result[0]) == len(name) or name[len(name) - len(result[0]) - 1] == '/')",
             "bounded:C03.forms.every_boundary_registered": "all(implies((p == 0 or name[p - 1] == '/') and name[p:] != '#',"
                                                    " any(result[1][k] == name[p:] for k in range(len(result[1])))) for p in range(len(name)))",
             "C03.forms.placeholder_not_registered_alone": "all(result[1][k] != '#' for k in range(len(result[1])))",
         },
         bounded={"name": "str:a/#:6:8"},
         loops={0: {"invariant": [
             "name.endswith(name_key)",
             "len(name_key) == len(name) or name[len(name) - len(name_key) - 1] == '/'",
             "all(name.endswith(tag_forms[k]) and len(tag_forms[k]) > 0 and (len(tag_forms[k]) == len(name)"
             " or name[len(name) - len(tag_forms[k]) - 1] == '/') for k in range(len(tag_forms)))",
             "(len(tag_forms) == 0) == (len(name_key) == len(name))",
             "len(tag_forms) == 0 or tag_forms[0] == name",
             "all(tag_forms[k] != '#' for k in range(len(tag_forms) - 1))",
             "all(len(tag_forms[k]) > len(name_key) for k in range(len(tag_forms)))",
         ]}})

# C03 at table level ("the suffix is carried verbatim" in short AND long form): the table wrappers convert every cell with the tag property
# that is the complete short / long form of a tag (short_tag / long_tag keep value, extension and prefix; the *_base_tag properties drop them)
class_model("BaseInputConv", {})
contract("C03.table_convert_to_form", file="hed/models/base_input.py", func="BaseInput.convert_to_form",
         params={"self": "BaseInputConv", "hed_schema": "Opaque", "tag_form": "Str"}, returns=None, enc="native", trusted=True,
         self_class="BaseInputConv", ghost={"sets": {"form_used": "tag_form", "conversions": "conversions + 1"}},
         assume=["convert_to_form applies the named HedTag property to every tag of every HED column (df_util.convert_to_form; bounded workload rt/c03)"])
for _nm, _form in (("short", "short_tag"), ("long", "long_tag")):
    contract(f"C03.table_{_nm}_form_is_the_complete_{_nm}_tag", file="hed/models/base_input.py", func=f"BaseInput.convert_to_{_nm}",
             params={"self": "BaseInputConv", "hed_schema": "Opaque"}, returns=None, enc="native", self_class="BaseInputConv",
             ghost={"init": {"form_used": "''", "conversions": "0"}},
             ensures={f"C03.table.{_nm}_conversion_uses_{_form}": f"conversions == 1 and form_used == '{_form}'"})

# C03 "every spelling ... resolves to the same canonical forms" also on the SECOND and every later conversion of a table: the wrapper keeps no
# memory of what it did before (a remembered "already in this form" would skip cells rewritten since) - no attribute of the input object is written
class_model("BaseInputConvState", {"_dataframe": "Opaque", "_mapper": "Opaque"})
contract("C03.table_conversion_keeps_no_state", file="hed/models/base_input.py", func="BaseInput.convert_to_form",
         params={"self": "BaseInputConvState", "hed_schema": "Opaque", "tag_form": "Opaque"}, returns="Opaque", enc="native",
         self_class="BaseInputConvState", unwind="havoc", ghost={"pure": True, "not_at_call_sites": True}, ensures={},
         assume=["df_util.convert_to_form rewrites the table in place (that is its documented effect); the object's own attributes are what is protected here"])
