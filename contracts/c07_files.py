from pyvc.contract import contract

# C07/C12: spans of a row string built from cell strings refer to the joined text
contract("C07.get_org_span_from_strings",
         file="hed/models/hed_string.py", func="HedString._get_org_span_from_strings",
         params={"self": "HedString", "tag_or_group": "HedTag"}, returns="Tuple[Opt[Int],Opt[Int]]", enc="native",
         also=["C12"],
         lets={"L": "self._from_strings", "t": "tag_or_group"},
         ensures={
             "C07.span.absent_when_in_no_part": "implies(all(not in_original(L[k], t) for k in range(len(L))),"
                                                " result[0] is None and result[1] is None)",
             "C07.span.shifted_by_joined_offset_of_first_owner": "all(implies(in_original(L[j], t) and all(not in_original(L[k], t) for k in range(j)),"
                 " result[0] == t.span[0] + joined_offset(L, j) and result[1] == t.span[1] + joined_offset(L, j))"
                 " for j in range(len(L)))",
         },
         locals={"found_string": "Opt[HedString]"},
         loops={0: {"invariant": [
             "string_start_index == joined_offset(self._from_strings, _n)",
             "all(not in_original(self._from_strings[k], tag_or_group) for k in range(_n))",
             "found_string is None"]}},
         assume=["HedGroup.check_if_in_original is a pure predicate; part j of a joined HedString has span (0, len(text_j))"])

# ---- C07: the error-context stack is balanced on every path (also the `continue` paths), so row / column / string labels
#      of later issues are not polluted by earlier rows.  Ghost ctx_depth is driven by push/pop.
from pyvc.contract import class_model, EXTERNS, CLASSES
class_model("ErrorHandlerCtx", {})
CLASSES["ErrorHandlerCtx"]["opaque_methods"] = True
try:
    import z3
    from pyvc.vals import SV, INT

    def _push(interp, args, kwargs):
        g = interp.ctx.ghost
        g["ctx_depth"] = SV(INT, interp.ctx.term(g["ctx_depth"], INT) + 1)

    def _pop(interp, args, kwargs):
        ctx = interp.ctx
        g = ctx.ghost
        d = ctx.term(g["ctx_depth"], INT)
        ctx.oblige("call-pre", "pop_error_context.not-below-entry-level", d > ctx.term(g["ctx_depth0"], INT),
                   info={"callee": "ErrorHandler.pop_error_context"})
        g["ctx_depth"] = SV(INT, d - 1)
    EXTERNS["ErrorHandlerCtx.push_error_context"] = _push
    EXTERNS["ErrorHandlerCtx.pop_error_context"] = _pop
except ImportError:
    pass

SV_FILE = "hed/validator/spreadsheet_validator.py"
G = {"vars": {"ctx_depth0": "Int"}, "init": {"ctx_depth": "ctx_depth0"}, "no_frame": True}
BAL = {"C07.context.stack_balanced": "ctx_depth == ctx_depth0"}
NOTE = ["loops explored as one arbitrary iteration from a havocked state (sound for the ghost balance: every iteration is shown "
        "to leave ctx_depth unchanged); table values are pandas (opaque)"]
contract("C07.run_onset_checks", file=SV_FILE, func="SpreadsheetValidator._run_onset_checks",
         params={"self": "Opaque", "onset_filtered": "Opaque", "error_handler": "ErrorHandlerCtx", "row_adj": "Int"},
         returns="Opaque", enc="native", ghost=G, ensures=BAL, unwind="havoc", assume=NOTE)
contract("C07.run_checks", file=SV_FILE, func="SpreadsheetValidator._run_checks",
         params={"self": "Opaque", "hed_df": "Opaque", "error_handler": "ErrorHandlerCtx", "row_adj": "Int", "onset_mask": "Opaque"},
         returns="Opaque", enc="native", ghost=G, ensures=BAL, unwind="havoc", assume=NOTE)
contract("C07.validate_column_structure", file=SV_FILE, func="SpreadsheetValidator._validate_column_structure",
         params={"self": "Opaque", "base_input": "Opaque", "error_handler": "ErrorHandlerCtx", "row_adj": "Int"},
         returns="Opaque", enc="native", ghost=G, ensures=BAL, unwind="havoc", assume=NOTE)
