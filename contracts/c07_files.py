from pyvc.contract import contract

# C07/C12: spans of a row string built from cell strings refer to the joined text
contract("C07.get_org_span_from_strings",
         file="hed/models/hed_string.py", func="HedString._get_org_span_from_strings",
         params={"self": "HedString", "tag_or_group": "HedTag"}, returns="Tuple[Opt[Int],Opt[Int]]", enc="native",
         also=["C12"],
         lets={"L": "self._from_strings", "t": "tag_or_group"},
         ensures={
             "C07.span.absent_when_in_no_part": "implies(all(not in_original(L[k], t) for k in range(len(L))),"
                                                " result[0] is None and result[1] is None)",
             "C07.span.shifted_by_joined_offset_of_first_owner": "all(implies(in_original(L[j], t) and all(not in_original(L[k], t) for k in range(j)),"
                 " result[0] == t.span[0] + joined_offset(L, j) and result[1] == t.span[1] + joined_offset(L, j))"
                 " for j in range(len(L)))",
         },
         locals={"found_string": "Opt[HedString]"},
         loops={0: {"invariant": [
             "string_start_index == joined_offset(self._from_strings, _n)",
             "all(not in_original(self._from_strings[k], tag_or_group) for k in range(_n))",
             "found_string is None"]}},
         assume=["HedGroup.check_if_in_original is a pure predicate; part j of a joined HedString has span (0, len(text_j))"])

# ---- C07: the error-context stack is balanced on every path (also the `continue` paths), so row / column / string labels
#      of later issues are not polluted by earlier rows.  Ghost ctx_depth is driven by push/pop.
from pyvc.contract import class_model, EXTERNS, CLASSES
class_model("ErrorHandlerCtx", {})
CLASSES["ErrorHandlerCtx"]["opaque_methods"] = True
try:
    import z3
    from pyvc.vals import SV, INT, Unsupported

    def _stack(interp):
        return tuple(interp.ctx.ghost.get("ctx_stack", ()))

    def _push(interp, args, kwargs):
        g = interp.ctx.ghost
        g["ctx_depth"] = SV(INT, interp.ctx.term(g["ctx_depth"], INT) + 1)
        # contexts pushed since the function was entered: (kind, value)
        kind = args[1] if len(args) > 1 else kwargs.get("context_type")
        value = args[2] if len(args) > 2 else kwargs.get("context")
        g["ctx_stack"] = _stack(interp) + ((kind, value),)

    def _pop(interp, args, kwargs):
        ctx = interp.ctx
        g = ctx.ghost
        d = ctx.term(g["ctx_depth"], INT)
        ctx.oblige("call-pre", "pop_error_context.not-below-entry-level", d > ctx.term(g["ctx_depth0"], INT),
                   info={"callee": "ErrorHandler.pop_error_context"})
        g["ctx_depth"] = SV(INT, d - 1)
        g["ctx_stack"] = _stack(interp)[:-1]

    def _label_rule(site):
        """C07 "each labelled with the 1-based file row and the column it came from": at the calls that stamp the context onto issues, the
        context stack built by this function must be what the contract's label rule for that site says (ghost['label_rules'])."""
        def f(interp, args, kwargs):
            ctx = interp.ctx
            rules = ctx.contract.ghost.get("label_rules", {})
            key = site
            if site == "format_error_with_context" and len(args) > 1 and isinstance(args[1], str):
                key = f"{site}:{args[1]}"
            rule = rules.get(key)
            if rule is not None:
                st = _stack(interp)
                g = ctx.ghost
                kinds = [k for k, _ in st]
                g["ctx_top"] = kinds[-1] if kinds else ""
                g["ctx_kinds"] = tuple(kinds)
                ec = interp.engine.index.class_constants("ErrorContext") or {}
                rows = [v for k, v in st if k == ec.get("ROW")]
                g["ctx_row"] = rows[-1] if rows else None
                for label, text in rule.items():
                    val = interp.eval_in_spec(text)
                    ctx.oblige("call-pre", f"{site}.{label}", ctx.zbool(ctx.truth(val)), info={"callee": "ErrorHandler." + site, "clause": text})
            from pyvc.vals import Opaque
            return Opaque(site + "()", fresh=True)
        return f
    def _row_adj_rule(name, pos):
        """C07 "1-based file row (header counted)": the row adjustment handed to the row loops is 1, plus 1 when the file has a header line"""
        def f(interp, args, kwargs):
            from pyvc.vals import Opaque, BOOL
            ctx = interp.ctx
            adj = kwargs["row_adj"] if "row_adj" in kwargs else args[pos]
            data0 = ctx.entry_env["data"]
            header = ctx.term(interp.field_read(data0, "has_column_names"), BOOL)
            ctx.oblige("call-pre", f"{name}.C07.label.row_adj_is_one_plus_header", ctx.term(adj, INT) == z3.If(header, 2, 1),
                       info={"callee": "SpreadsheetValidator." + name})
            if ("called" + name) in ctx.ghost:
                ctx.ghost["called" + name] = True
            return Opaque(name + "()", fresh=True)
        return f
    for _n, _p in (("_validate_column_structure", 3), ("_run_checks", 3), ("_run_onset_checks", 3)):
        EXTERNS["SpreadsheetValidatorM." + _n] = _row_adj_rule(_n, _p)
    EXTERNS["ErrorHandlerCtx.push_error_context"] = _push
    EXTERNS["ErrorHandlerCtx.pop_error_context"] = _pop
    EXTERNS["ErrorHandlerCtx.add_context_and_filter"] = _label_rule("add_context_and_filter")
    EXTERNS["ErrorHandlerCtx.format_error_with_context"] = _label_rule("format_error_with_context")
except ImportError:
    pass

SV_FILE = "hed/validator/spreadsheet_validator.py"
G = {"vars": {"ctx_depth0": "Int"}, "init": {"ctx_depth": "ctx_depth0"}, "no_frame": True}
BAL = {"C07.context.stack_balanced": "ctx_depth == ctx_depth0"}
NOTE = ["loops explored as one arbitrary iteration from a havocked state (sound for the ghost balance: every iteration is shown "
        "to leave ctx_depth unchanged); table values are pandas (opaque)"]
class_model("OnsetRow", {"original_index": "Int", "HED": "Str", "Index": "Int"})
ROWLBL = "C07.label.row_is_file_row_of_the_row_being_checked"
contract("C07.run_onset_checks", file=SV_FILE, func="SpreadsheetValidator._run_onset_checks",
         params={"self": "Opaque", "onset_filtered": "Opaque", "error_handler": "ErrorHandlerCtx", "row_adj": "Int"},
         returns="Opaque", enc="native", locals={"row": "OnsetRow"},
         ghost=dict(G, label_rules={"add_context_and_filter": {
             ROWLBL: "ctx_row is not None and ctx_row == row.original_index + row_adj",
             "C07.label.string_context_on_top": "ctx_top == ErrorContext.HED_STRING and ctx_kinds == (ErrorContext.ROW, ErrorContext.HED_STRING)"}}),
         ensures=BAL, unwind="havoc", assume=NOTE)
contract("C07.run_checks", file=SV_FILE, func="SpreadsheetValidator._run_checks",
         params={"self": "Opaque", "hed_df": "Opaque", "error_handler": "ErrorHandlerCtx", "row_adj": "Int", "onset_mask": "Opaque"},
         returns="Opaque", enc="native", locals={"row_number": "Int"},
         ghost=dict(G, label_rules={"add_context_and_filter": {
             ROWLBL: "ctx_row is not None and ctx_row == row_number + row_adj",
             "C07.label.string_context_on_top": "ctx_top == ErrorContext.HED_STRING and (ctx_kinds == (ErrorContext.ROW, ErrorContext.COLUMN, ErrorContext.HED_STRING)"
                                                " or ctx_kinds == (ErrorContext.ROW, ErrorContext.HED_STRING))"}}),
         ensures=BAL, unwind="havoc", assume=NOTE)
contract("C07.validate_column_structure", file=SV_FILE, func="SpreadsheetValidator._validate_column_structure",
         params={"self": "Opaque", "base_input": "Opaque", "error_handler": "ErrorHandlerCtx", "row_adj": "Int"},
         returns="Opaque", enc="native", locals={"row_number": "Int"},
         ghost=dict(G, label_rules={"format_error_with_context:SIDECAR_KEY_MISSING": {
             ROWLBL: "ctx_row is not None and ctx_row == row_number + row_adj",
             "C07.label.unknown_key_carries_column_and_row": "ctx_kinds == (ErrorContext.COLUMN, ErrorContext.ROW)"}}),
         ensures=BAL, unwind="havoc", assume=NOTE)

class_model("SpreadsheetValidatorM", {"_schema": "Opaque", "_hed_validator": "Opaque", "_onset_validator": "Opt[OnsetValidator]",
                                      "invalid_original_rows": "Opaque"})
CLASSES["SpreadsheetValidatorM"]["opaque_methods"] = True
class_model("BaseInput", {"has_column_names": "Bool", "needs_sorting": "Bool", "onsets": "Opaque", "dataframe": "Opaque",
                           "dataframe_a": "Opaque", "series_a": "Opaque", "_dataframe": "Opaque"})
CLASSES["BaseInput"]["opaque_methods"] = True
contract("C07.validate", file=SV_FILE, func="SpreadsheetValidator.validate",
         params={"self": "SpreadsheetValidatorM", "data": "BaseInput", "def_dicts": "Opaque", "name": "Opaque",
                 "error_handler": "ErrorHandlerCtx"},
         returns="Opaque", enc="native", unwind="havoc",
         ghost=dict(G, init=dict(G["init"], called_validate_column_structure="False", called_run_checks="False")),
         also=["C10"],
         ensures=dict(BAL, **{"C07.phases.column_structure_and_every_row_checked": "called_validate_column_structure and called_run_checks",
                              # C10 "for all event histories": the open-scope table of one file never leaks into the next file
                              "C10.history.fresh_scope_table_per_file": "self._onset_validator is None or fresh(self._onset_validator)"}),
         modifies=["self.invalid_original_rows", "self._hed_validator", "self._onset_validator"],
         raises={"TypeError": "True"},
         assume=NOTE + ["the error_handler=None default (a new ErrorHandler) is not explored; isinstance(data, BaseInput) is unknown to the model "
                        "(both outcomes explored)"])

# C07 "for each row ... exactly the error codes that string-level validation reports for the row": rows are judged independently of the rows
# before them (def-before-use analysis of the real loop bodies; object state such as invalid_original_rows is not covered by it)
IND7 = {"dataflow_only": True, "no_frame": True}
contract("C07.rows_judged_independently", file=SV_FILE, func="SpreadsheetValidator._run_checks",
         params={"self": "Opaque", "hed_df": "Opaque", "error_handler": "Opaque", "row_adj": "Opaque", "onset_mask": "Opaque"},
         returns="Opaque", enc="native", ghost=dict(IND7, independent_iterations={0: ["issues"]}), ensures={})
contract("C07.onset_rows_judged_independently", file=SV_FILE, func="SpreadsheetValidator._run_onset_checks",
         params={"self": "Opaque", "onset_filtered": "Opaque", "error_handler": "Opaque", "row_adj": "Opaque"},
         returns="Opaque", enc="native", ghost=dict(IND7, independent_iterations={0: ["issues"]}), ensures={})
