"""Contracts of writer w14: schema readers/writers (C05: text parsing of attribute blocks, TSV rows), download helper (C19)."""
from pyvc.contract import contract, class_model, EXTERNS, CLASSES

W2S = "hed/schema/schema_io/wiki2schema.py"
DFU = "hed/schema/schema_io/df_util.py"
TXU = "hed/schema/schema_io/text_util.py"
SCU = "hed/schema/schema_io/schema_util.py"
D2S = "hed/schema/schema_io/df2schema.py"
S2D = "hed/schema/schema_io/schema2df.py"


from contracts.x_w5 import _register_module_w5
import contracts.x_w7  # noqa: F401,E402  (its model of pd.DataFrame is registered first, whatever the load order of the files)
DFC = _register_module_w5("hed_schema_df_constants", "hed/schema/hed_schema_df_constants.py")    # `constants` of df_util.py
if "pd.DataFrame" not in EXTERNS:
    try:
        from pyvc.vals import Opaque as _OpaqueW14
        EXTERNS["pd.DataFrame"] = lambda interp, args, kwargs: _OpaqueW14("pd.DataFrame()", fresh=True)
    except ImportError:
        pass

# C05 "saving to ... TSV": the writer starts from one empty sheet per file suffix - all ten of them, a new table on every call
contract("C05.empty_sheets_one_per_suffix", file=DFU, func="create_empty_dataframes", params={}, returns="Opaque", enc="native",
         ensures={"C05.tsv.one_sheet_per_suffix": "len(result) == 10 and " + " and ".join(
                      f"'{k}' in result" for k in ('Structure', 'Tag', 'Unit', 'UnitClass', 'UnitModifier', 'ValueClass', 'AnnotationProperty',
                                                   'DataProperty', 'ObjectProperty', 'AttributeProperty'))},
         # (no "discharges" of C05.w5.create_empty_dataframes: the engine cannot state fresh() of a dictionary, which the mechanical test asks for)
         ghost={"not_at_call_sites": True})

# ------------------------------------------------------------------------------------------------------------------ C19 download helper
# C19 "no later or concurrent load fails or returns different content because of a partially written file": the download is written under
# the name tempfile.NamedTemporaryFile chose (never a name the cache serves) and THAT name is handed back - not the URL's base name, not a
# name in the cache folder.  The library fact (temporary names are not served) now sits in the model of NamedTemporaryFile; what
# url_to_file does with the name is proved from its body.
class_model("TempFileW14", {"name": "Str"})
try:
    import z3 as _z3_w14
    from pyvc.vals import SV as _SV_w14, STR as _STR_w14, Opaque as _Opaque_w14
    from contracts.extern_fs import _servable_any as _servable_any_w14
except ImportError:
    _z3_w14 = None


def _named_tmp_w14(interp, args, kwargs):
    ctx = interp.ctx
    f = interp.new_object("TempFileW14")
    nm = _z3_w14.Const(ctx.fresh_name("tmpname"), _z3_w14.StringSort())
    ctx.assume(_z3_w14.Not(_servable_any_w14(interp, [_SV_w14(_STR_w14, nm)], {}).t))
    interp.field_write(f, "name", _SV_w14(_STR_w14, nm))
    return f


def _splitext_w14(interp, args, kwargs):
    ctx = interp.ctx
    return (_SV_w14(_STR_w14, _z3_w14.Const(ctx.fresh_name("root"), _z3_w14.StringSort())),
            _SV_w14(_STR_w14, _z3_w14.Const(ctx.fresh_name("ext"), _z3_w14.StringSort())))


if _z3_w14 is not None:
    EXTERNS["tempfile.NamedTemporaryFile"] = _named_tmp_w14
    EXTERNS["TempFileW14.write"] = lambda interp, args, kwargs: None
    if "os.path.splitext" not in EXTERNS:
        EXTERNS["os.path.splitext"] = _splitext_w14
contract("C19.w14.make_url_request_view", file=SCU, func="make_url_request", params={"resource_url": "Str", "try_authenticate": "Bool"},
         returns="Opaque", enc="native", trusted=True, raises={"URLError": True}, ensures={},
         assume=["make_url_request (urllib) hands back a response object or raises URLError; nothing about the response is used"])
contract("C19.download_is_handed_back_under_the_temporary_name", file=SCU, func="url_to_file",
         params={"resource_url": "Str"}, returns="Opt[Str]", enc="native", raises={"URLError": True},
         ensures={"temp_name_is_not_served": "implies(result is not None, not servable_in_any_folder(result))",
                  "C19.download_has_a_name": "result is not None"},
         ghost={"not_at_call_sites": True, "discharges": "C19.url_to_file_view"},
         assume=["tempfile.NamedTemporaryFile chooses a name the cache does not serve, in any folder (model of the library call)",
                 "os.path.splitext gives two unknown texts; str(bytes, 'utf-8') an unknown text"])

# ------------------------------------------------------------------------------------------------------------------ C05 mediawiki reader
# C05 "saving to ... MediaWiki ... and loading the result gives a schema equal to the original": a line that is not a section start is
# content of the current section - EXCEPT a root-tag line (''') outside the schema section and a line that starts like a section mark
# (!#) without being one: both are refused with their own code, every other line passes (so no content line of a saved schema is lost)
class_model("WikiLoaderW14", {"name": "Opt[Str]"})
ROOT_OUTSIDE = "(current_section != 4 and line.startswith(\"'''\"))"
contract("C05.wiki_content_line_passes_unless_it_looks_like_a_separator", file=W2S, func="SchemaLoaderWiki._handle_bad_section_sep",
         params={"self": "WikiLoaderW14", "line": "Str", "current_section": "Int"}, returns="None", enc="native",
         raises={"HedFileError": f"{ROOT_OUTSIDE} or line.startswith('!#')"},
         ghost={"not_at_call_sites": True}, ensures={"C05.wiki.other_lines_pass": "result is None"})

# C05 "attribute values with several entries ... survive" (MediaWiki): the attribute table of a tag line is what the attribute parser makes
# of EXACTLY the text between the braces of that line, and the scan goes on at the closing brace (where the description is looked for);
# a text the parser refuses is reported once as a fatal error of THAT line and gives no attributes
try:
    from contracts.x_w4 import _uf_w4 as _uf_w14
except ImportError:
    _uf_w14 = None


def _fatal_w14(interp, args, kwargs):
    g = interp.ctx.ghost
    g["g_fatal"] = g.get("g_fatal", 0) + 1
    g["g_fatal_line"] = args[1]
    return None


if _z3_w14 is not None and _uf_w14 is not None:
    EXTERNS["attrs_of_text"] = _uf_w14("attrs_of_text", ["Opt[Str]"], "Map[Str,Str]")
    EXTERNS["WikiLoaderW14._add_fatal_error"] = _fatal_w14
contract("C05.w14.parse_attribute_string_view", file=TXU, func="parse_attribute_string", params={"attr_string": "Opt[Str]"},
         returns="Map[Str,Str]", enc="native", trusted=True, raises={"ValueError": True},
         ensures={"view": "result == attrs_of_text(attr_string)"},
         assume=["parse_attribute_string is a function of its text (a table of texts; boolean attributes - stored as True - are not told apart "
                 "from text values here); it may refuse the text with ValueError",
                 "for no text at all (None: unbalanced braces) it hands back None - modelled as some table; no clause speaks about that case"])
contract("C05.wiki_attributes_are_parsed_from_the_text_between_the_braces", file=W2S, func="SchemaLoaderWiki._get_tag_attributes",
         params={"self": "WikiLoaderW14", "line_number": "Int", "row": "Str", "starting_index": "Int"},
         returns="Tuple[Map[Str,Str],Int]", enc="native",
         requires=["0 <= starting_index", "starting_index <= len(row)"],
         ghost={"init": {"g_fatal": "0", "g_fatal_line": "-1"}, "not_at_call_sites": True},
         lets={"n1": "count_of(row, '{')", "n2": "count_of(row, '}')", "tail": "row[starting_index:]",
               "a": "row[starting_index:].find('{')", "b": "row[starting_index:].find('}')"},
         ensures={
             "C05.wiki.attributes_are_those_of_the_brace_block_or_none_when_refused":
                 "implies(n1 == 1 and n2 == 1 and 0 <= a and a < b, result[1] == starting_index + b and"
                 " ((g_fatal == 0 and result[0] == attrs_of_text(tail[a + 1:b]))"
                 " or (g_fatal == 1 and g_fatal_line == line_number and forall_str(lambda k: k not in result[0]))))",
             "C05.wiki.line_without_braces_has_the_attributes_of_the_empty_text":
                 "implies(n1 == 0 and n2 == 0 and a == -1 and b == -1, result[1] == starting_index and"
                 " ((g_fatal == 0 and result[0] == attrs_of_text('')) or (g_fatal == 1 and g_fatal_line == line_number and forall_str(lambda k: k not in result[0]))))",
             "C05.wiki.refusal_reported_at_most_once": "g_fatal <= 1",
         })

# ------------------------------------------------------------------------------------------------------------------ C05 inLibrary in unmerged files
# C05 "saving ... (merged and, for partnered library schemas, unmerged) and loading the result gives a schema equal to the original ...
# inLibrary stripping": an unmerged file must not carry the inLibrary mark (the reader adds it itself).  All three readers judge an entry the
# same way - marked AND the file is not a merged one AND nothing is being appended to - and otherwise hand exactly the entry and the section
# key they got to the common _add_to_dict_base, once, and hand back its answer.  The XML reader refuses the file at once; the MediaWiki and
# TSV readers record one fatal error for THAT line and go on (the entry is still added: the error list stops the load later).
class_model("LoaderW14", {"_loading_merged": "Bool", "appending_to_schema": "Bool", "name": "Opt[Str]"})


def _base_add_w14(interp, args, kwargs):
    g = interp.ctx.ghost
    g["g_based"] = g.get("g_based", 0) + 1
    g["g_based_entry"] = args[1]
    g["g_based_key"] = args[2]
    return _uf_w14("base_answer_w14", ["EntryW5", "Str"], "Opt[EntryW5]")(interp, args[1:], {})


if _z3_w14 is not None and _uf_w14 is not None:
    EXTERNS["LoaderW14._add_to_dict_base"] = _base_add_w14
    EXTERNS["LoaderW14._add_fatal_error"] = _fatal_w14
    EXTERNS["base_answer_w14"] = _uf_w14("base_answer_w14", ["EntryW5", "Str"], "Opt[EntryW5]")
MARKED_IN_UNMERGED = "('inLibrary' in entry.attributes and not self._loading_merged and not self.appending_to_schema)"
_BASE_ONCE = "g_based == 1 and g_based_entry is entry and g_based_key == key_class and result == base_answer_w14(entry, key_class)"
_ASSUME_ADD = ["has_attribute(k) of an entry being loaded is `k in attributes` (as in C13.library_entries_are_marked_and_added_once)",
               "_add_to_dict_base is a function of the entry and the section key (its own contract: C13.library_entries_are_marked_and_added_once)"]
contract("C05.xml_marked_entry_in_an_unmerged_file_is_refused", file="hed/schema/schema_io/xml2schema.py", func="SchemaLoaderXML._add_to_dict",
         params={"self": "LoaderW14", "entry": "EntryW5", "key_class": "Str"}, returns="Opt[EntryW5]", enc="native", self_class="LoaderW14",
         raises={"HedFileError": MARKED_IN_UNMERGED},
         ghost={"init": {"g_based": "0", "g_based_entry": "None", "g_based_key": "''"}, "not_at_call_sites": True},
         ensures={"C05.inlib.xml_entry_handed_on_once_as_received": _BASE_ONCE}, assume=_ASSUME_ADD)
for _cid, _file, _fn in (("C05.wiki_marked_entry_in_an_unmerged_file_is_a_fatal_error_of_its_line", W2S, "SchemaLoaderWiki._add_to_dict"),
                         ("C05.tsv_marked_entry_in_an_unmerged_file_is_a_fatal_error_of_its_row", D2S, "SchemaLoaderDF._add_to_dict")):
    contract(_cid, file=_file, func=_fn, params={"self": "LoaderW14", "row_number": "Int", "row": "Opaque", "entry": "EntryW5", "key_class": "Str"},
             returns="Opt[EntryW5]", enc="native", self_class="LoaderW14",
             ghost={"init": {"g_based": "0", "g_based_entry": "None", "g_based_key": "''", "g_fatal": "0", "g_fatal_line": "-1"},
                    "not_at_call_sites": True},
             ensures={"C05.inlib.entry_handed_on_once_as_received": _BASE_ONCE,
                      "C05.inlib.marked_entry_reported_once_for_its_line": f"implies({MARKED_IN_UNMERGED}, g_fatal == 1 and g_fatal_line == row_number)",
                      "C05.inlib.other_entries_not_reported": f"implies(not {MARKED_IN_UNMERGED}, g_fatal == 0)"}, assume=_ASSUME_ADD)

# ------------------------------------------------------------------------------------------------------------------ C05 mediawiki writer: header
# C05 round trip of header and prologue through MediaWiki (the counterpart of C05.wiki_epilogue_written_verbatim_after_its_mark): the file
# starts with the HED line - the mark, one blank, the header attribute text -, a blank line, the Prologue mark on a line of its own and the
# prologue text VERBATIM as the next line (no line when it is empty); nothing written before is touched, nothing stays pending
from contracts.x_w9 import _KEPT as _KEPT_W9, _G0 as _G0_W9, _PENDING_EMPTY as _PENDING_EMPTY_W9, _WC as _WC_W9
S2W = "hed/schema/schema_io/schema2wiki.py"
if _z3_w14 is not None and _uf_w14 is not None:
    EXTERNS["header_text_w14"] = _uf_w14("header_text_w14", ["Map[Str,Str]"], "Str")
    EXTERNS["Schema2WikiW5._get_attribs_string_from_schema"] = lambda interp, args, kwargs: EXTERNS["header_text_w14"](interp, args[1:2], {})
_HED_LINE = "(" + _WC_W9("HEADER_LINE_STRING") + " + ' ' + header_text_w14(attributes))"
contract("C05.wiki_header_line_then_prologue_verbatim_after_its_mark", file=S2W, func="Schema2Wiki._output_header",
         params={"self": "Schema2WikiW5", "attributes": "Map[Str,Str]", "prologue": "Str"}, returns=None, enc="native", self_class="Schema2WikiW5",
         modifies=["self.current_tag_string", "self.current_tag_extra", "self.output"], requires=[_PENDING_EMPTY_W9],
         ensures={
             "C05.wiki.hed_line_then_blank_then_prologue_mark_then_text":
                 "implies(len(prologue) > 0, len(self.output) == n0 + 4 and self.output[n0] == " + _HED_LINE + " and self.output[n0 + 1] == ''"
                 " and self.output[n0 + 2] == " + _WC_W9("PROLOGUE_SECTION_ELEMENT") + " and self.output[n0 + 3] == prologue)",
             "C05.wiki.empty_prologue_writes_no_text_line":
                 "implies(len(prologue) == 0, len(self.output) == n0 + 3 and self.output[n0] == " + _HED_LINE + " and self.output[n0 + 1] == ''"
                 " and self.output[n0 + 2] == " + _WC_W9("PROLOGUE_SECTION_ELEMENT") + ")",
             "C05.wiki.pending_text_is_cleared": "self.current_tag_string == '' and self.current_tag_extra == ''",
             "C05.wiki.earlier_lines_untouched": _KEPT_W9,
         }, ghost={"not_at_call_sites": True, "init": dict(_G0_W9)},
         assume=["Schema2Base._get_attribs_string_from_schema is a function of the header attributes (header_text_w14)",
                 "(precondition) nothing is pending when the header is written: it is the first thing written"])

# ------------------------------------------------------------------------------------------------------------------ C05 mediawiki reader: HED line
# C05 "loading the result gives a schema equal to the original" (header attributes): the attributes of the HED line are EXACTLY the pairs the
# line parser found (name="value" form) - handed on unchanged; a line with anything left over between the pairs is refused as an invalid
# header; only a line without any '=' goes to the old `name:value` parser
def _old_header_w14(interp, args, kwargs):
    ctx = interp.ctx
    if interp.engine.exception_expected(ctx, "HedFileError"):
        ctx.may_raise(EXTERNS["old_header_refused_w14"](interp, args[1:2], {}).t, "HedFileError", "_get_header_attributes_internal_old")
    return EXTERNS["old_header_attrs_w14"](interp, args[1:2], {})


if _z3_w14 is not None and _uf_w14 is not None:
    EXTERNS["header_attrs_w14"] = _uf_w14("header_attrs_w14", ["Str"], "Map[Str,Str]")
    EXTERNS["header_leftover_w14"] = _uf_w14("header_leftover_w14", ["Str"], "List[Str]")
    EXTERNS["old_header_attrs_w14"] = _uf_w14("old_header_attrs_w14", ["Str"], "Map[Str,Str]")
    EXTERNS["old_header_refused_w14"] = _uf_w14("old_header_refused_w14", ["Str"], "Bool")
    EXTERNS["WikiLoaderW14._get_header_attributes_internal_old"] = _old_header_w14
contract("C05.w14.parse_header_attributes_line_view", file=TXU, func="_parse_header_attributes_line", params={"version_line": "Str"},
         returns="Tuple[Map[Str,Str],List[Str]]", enc="native", trusted=True,
         ensures={"view": "result[0] == header_attrs_w14(version_line) and result[1] == header_leftover_w14(version_line)"},
         assume=["_parse_header_attributes_line (regular expression scan) is a function of the line: the pairs found and the non-blank text left over"])
contract("C05.wiki_header_attributes_are_the_pairs_found_and_leftovers_are_refused", file=W2S, func="SchemaLoaderWiki._get_header_attributes_internal",
         params={"self": "WikiLoaderW14", "version_line": "Str"}, returns="Map[Str,Str]", enc="native", self_class="WikiLoaderW14",
         raises={"HedFileError": "(old_header_refused_w14(version_line) if '=' not in version_line else len(header_leftover_w14(version_line)) > 0)"},
         loops={0: {"invariant": ["_n == 0"]}},
         ensures={"C05.wiki.header_pairs_handed_on_unchanged": "implies('=' in version_line, result == header_attrs_w14(version_line))",
                  "C05.wiki.line_without_equals_sign_goes_to_the_old_parser": "implies('=' not in version_line, result == old_header_attrs_w14(version_line))"},
         ghost={"not_at_call_sites": True},
         assume=["_get_header_attributes_internal_old is a function of the line (old_header_attrs_w14) and refuses some lines (old_header_refused_w14)"])

# ------------------------------------------------------------------------------------------------------------------ C05 TSV writer: header rows
# C05 "saving to ... TSV ... and loading the result gives a schema equal to the original" (header attributes and prologue): the structure
# sheet gets exactly two rows from the header step - the HedHeader row carrying the header attribute text (comma-blank separated, which is
# what the TSV reader splits on) and no description, then the HedPrologue row carrying the prologue VERBATIM as its description and no
# attributes
class_model("Schema2DFW14", {})


def _add_row_w14(interp, args, kwargs):
    g = interp.ctx.ghost
    n = g.get("g_rows", 0) + 1
    g["g_rows"] = n
    if isinstance(n, int) and n <= 2:
        g[f"g_row{n}_object"] = args[1]
        g[f"g_row{n}_attributes"] = kwargs.get("attributes", args[2] if len(args) > 2 else "")
        g[f"g_row{n}_description"] = kwargs.get("description", args[3] if len(args) > 3 else "")
    return None


if _z3_w14 is not None and _uf_w14 is not None:
    EXTERNS["header_text_sep_w14"] = _uf_w14("header_text_sep_w14", ["Map[Str,Str]", "Str"], "Str")
    EXTERNS["Schema2DFW14._get_attribs_string_from_schema"] = \
        lambda interp, args, kwargs: EXTERNS["header_text_sep_w14"](interp, [args[1], kwargs.get("sep", args[2] if len(args) > 2 else " ")], {})
    EXTERNS["Schema2DFW14._create_and_add_object_row"] = _add_row_w14
contract("C05.tsv_header_row_then_prologue_row", file=S2D, func="Schema2DF._output_header",
         params={"self": "Schema2DFW14", "attributes": "Map[Str,Str]", "prologue": "Str"}, returns=None, enc="native", self_class="Schema2DFW14",
         ghost={"not_at_call_sites": True,
                "init": {"g_rows": "0", "g_row1_object": "''", "g_row1_attributes": "''", "g_row1_description": "''",
                         "g_row2_object": "''", "g_row2_attributes": "''", "g_row2_description": "''"}},
         ensures={"C05.tsv.exactly_two_structure_rows": "g_rows == 2",
                  "C05.tsv.header_row_carries_the_attribute_text":
                      "g_row1_object == 'HedHeader' and g_row1_attributes == header_text_sep_w14(attributes, ', ') and g_row1_description == ''",
                  "C05.tsv.prologue_row_carries_the_prologue_verbatim":
                      "g_row2_object == 'HedPrologue' and g_row2_attributes == '' and g_row2_description == prologue"},
         assume=["Schema2Base._get_attribs_string_from_schema is a function of the header attributes and the separator (header_text_sep_w14)",
                 "_create_and_add_object_row(object, attributes='', description='') adds one row to the structure sheet (recorded as ghost state)"])

# ------------------------------------------------------------------------------------------------------------------ C05 full names of tag entries
# C05 "loading the result gives a schema equal to the original" (MediaWiki / TSV store only the last name part of a tag; the hierarchy is the
# line order / the parent column): the entry created for a tag line is named by ALL parent names in order joined with '/', then '/', then the
# name found on the line (the bare name for a top-level tag) and is created once, as a tag entry, for THAT line; a line without a name gives
# no entry and one fatal error of that line
def _tag_name_w14(interp, args, kwargs):
    ctx = interp.ctx
    return (EXTERNS["tag_name_of_row_w14"](interp, args[1:2], {}), _SV_w14(_INT_w14, _z3_w14.Int(ctx.fresh_name("name_end"))))


def _create_entry_w14(interp, args, kwargs):
    g = interp.ctx.ghost
    g["g_created"] = g.get("g_created", 0) + 1
    g["g_created_line"] = args[1]
    g["g_created_key"] = args[3]
    g["g_created_name"] = kwargs.get("full_tag_name", args[4] if len(args) > 4 else None)
    return EXTERNS["entry_made_w14"](interp, [args[2], g["g_created_name"]], {})


def _fatal_code_w14(interp, args, kwargs):
    g = interp.ctx.ghost
    g["g_fatal"] = g.get("g_fatal", 0) + 1
    g["g_fatal_line"] = args[1]
    g["g_fatal_code"] = kwargs.get("error_code", args[4] if len(args) > 4 else "")
    return None


class_model("TagLoaderW14", {})
if _z3_w14 is not None and _uf_w14 is not None:
    from pyvc.vals import INT as _INT_w14
    EXTERNS["tag_name_of_row_w14"] = _uf_w14("tag_name_of_row_w14", ["Str"], "Opt[Str]")
    EXTERNS["entry_made_w14"] = _uf_w14("entry_made_w14", ["Str", "Str"], "EntryW5")
    EXTERNS["TagLoaderW14._get_tag_name"] = _tag_name_w14
    EXTERNS["TagLoaderW14._create_entry"] = _create_entry_w14
    EXTERNS["TagLoaderW14._add_fatal_error"] = _fatal_code_w14
_TN = "tag_name_of_row_w14(row)"
_NAMED = f"({_TN} is not None and len({_TN}) > 0)"
contract("C05.wiki_tag_entry_is_named_by_its_parents_and_its_own_name", file=W2S, func="SchemaLoaderWiki._create_tag_entry",
         params={"self": "TagLoaderW14", "parent_tags": "List[Str]", "row_number": "Int", "row": "Str"}, returns="Opt[EntryW5]", enc="native",
         self_class="TagLoaderW14",
         ghost={"not_at_call_sites": True, "init": {"g_created": "0", "g_created_line": "-1", "g_created_key": "''", "g_created_name": "''",
                                                    "g_fatal": "0", "g_fatal_line": "-1", "g_fatal_code": "''"}},
         ensures={
             "C05.names.child_is_parents_slash_name":
                 f"implies({_NAMED} and len(parent_tags) > 0, g_created == 1 and g_created_name == '/'.join(parent_tags) + '/' + {_TN})",
             "C05.names.top_level_tag_keeps_its_bare_name": f"implies({_NAMED} and len(parent_tags) == 0, g_created == 1 and g_created_name == {_TN})",
             "C05.names.created_as_a_tag_entry_of_its_line":
                 f"implies({_NAMED}, g_created_key == 'tags' and g_created_line == row_number and g_fatal == 0"
                 " and result == entry_made_w14(row, g_created_name))",
             "C05.names.line_without_a_name_is_one_fatal_error_and_no_entry":
                 f"implies(not {_NAMED}, result is None and g_created == 0 and g_fatal == 1 and g_fatal_line == row_number"
                 " and g_fatal_code == 'WIKI_DELIMITERS_INVALID')",
         },
         assume=["_get_tag_name (a regular expression) is a function of the line: the name found or none (tag_name_of_row_w14)",
                 "_create_entry makes the entry of a line under the full name it is given (entry_made_w14; recorded as ghost state)"])


def _df_tag_name_w14(interp, args, kwargs):
    """SchemaLoaderDF._get_tag_name(row): the name cell of the row ('#' for a value-taking child) - some text, remembered as ghost state"""
    ctx = interp.ctx
    g = ctx.ghost
    nm = _SV_w14(_STR_w14, _z3_w14.Const(ctx.fresh_name("row_name"), _z3_w14.StringSort()))
    g["g_row_name"] = nm
    g["g_names_read"] = g.get("g_names_read", 0) + 1
    return nm


def _df_create_entry_w14(interp, args, kwargs):
    g = interp.ctx.ghost
    g["g_created"] = g.get("g_created", 0) + 1
    g["g_created_line"] = args[1]
    g["g_created_key"] = args[3]
    g["g_created_name"] = kwargs.get("full_tag_name", args[4] if len(args) > 4 else None)
    e = interp.new_object("EntryW5")
    g["g_created_entry"] = e
    return e


class_model("DFTagLoaderW14", {})
if _z3_w14 is not None and _uf_w14 is not None:
    EXTERNS["DFTagLoaderW14._get_tag_name"] = _df_tag_name_w14
    EXTERNS["DFTagLoaderW14._create_entry"] = _df_create_entry_w14
    EXTERNS["DFTagLoaderW14._add_fatal_error"] = _fatal_code_w14
contract("C05.tsv_tag_entry_is_named_by_its_parents_and_its_own_name", file=D2S, func="SchemaLoaderDF._create_tag_entry",
         params={"self": "DFTagLoaderW14", "parent_tags": "List[Str]", "row_number": "Int", "row": "Opaque"}, returns="Opt[EntryW5]", enc="native",
         self_class="DFTagLoaderW14",
         ghost={"not_at_call_sites": True, "init": {"g_created": "0", "g_created_line": "-1", "g_created_key": "''", "g_created_name": "''",
                                                    "g_created_entry": "None", "g_row_name": "''", "g_names_read": "0",
                                                    "g_fatal": "0", "g_fatal_line": "-1", "g_fatal_code": "''"}},
         ensures={
             "C05.names.name_cell_read_once": "g_names_read == 1",
             "C05.names.child_is_parents_slash_name":
                 "implies(len(g_row_name) > 0 and len(parent_tags) > 0, g_created == 1 and g_created_name == '/'.join(parent_tags) + '/' + g_row_name)",
             "C05.names.top_level_tag_keeps_its_bare_name": "implies(len(g_row_name) > 0 and len(parent_tags) == 0, g_created == 1 and g_created_name == g_row_name)",
             "C05.names.created_as_a_tag_entry_of_its_row":
                 "implies(len(g_row_name) > 0, g_created_key == 'tags' and g_created_line == row_number and g_fatal == 0 and result is g_created_entry)",
             "C05.names.row_without_a_name_is_one_fatal_error_and_no_entry":
                 "implies(len(g_row_name) == 0, result is None and g_created == 0 and g_fatal == 1 and g_fatal_line == row_number"
                 " and g_fatal_code == 'GENERIC_ERROR')",
         },
         assume=["SchemaLoaderDF._get_tag_name hands back the name cell of the row (some text, recorded as ghost state g_row_name)",
                 "_create_entry makes the entry of a row under the full name it is given (recorded as ghost state)"])

# ------------------------------------------------------------------------------------------------------------------ schema_util helpers
# (reader errors of C05's formats: "A schema ... refuses" reports) one schema-reader error is ONE record carrying the code, the row number,
# the text of the line and the message it was given - nothing swapped, nothing defaulted away
contract("C05.reader_error_record_carries_code_row_line_and_message", file=SCU, func="format_error", prop="C05", also=["C19"],
         params={"row_number": "Int", "row": "Str", "warning_message": "Str", "error_code": "Str"}, returns="Opaque", enc="native",
         ensures={"C05.err.one_record": "len(result) == 1",
                  "C05.err.fields_as_given": "result[0]['code'] == error_code and result[0]['ec_row'] == row_number and result[0]['ec_line'] == row"
                                             " and result[0]['message'] == warning_message and len(result[0]) == 4"},
         ghost={"not_at_call_sites": True})

# C05 "loading the result gives a schema equal to the original" (MediaWiki header section): between the HED line and the first section mark only
# blank lines are allowed - EVERY line is judged (none skipped), the first one with content refuses the file as an invalid header
contract("C05.wiki_header_section_allows_only_blank_lines", file=W2S, func="SchemaLoaderWiki._read_header_section",
         params={"self": "WikiLoaderW14", "lines": "List[Tuple[Int,Str]]"}, returns="None", enc="native", self_class="WikiLoaderW14",
         raises={"HedFileError": "any(len(lines[k][1].strip()) > 0 for k in range(len(lines)))"},
         loops={0: {"invariant": ["all(len(lines[k][1].strip()) == 0 for k in range(_n))"]}},
         ghost={"not_at_call_sites": True}, ensures={"C05.wiki.blank_header_section_passes": "result is None"})

# ------------------------------------------------------------------------------------------------------------------ C05 XML reader: tag section
# C05 "the saved XML ... lists exactly the original nodes": the tag section is read from its DIRECT node children (the top-level tags; deeper
# nodes are reached by the recursion with their parents' names) starting with NO parent names, after the tag section of the schema was set up
class_model("XmlElemW14", {})
class_model("XmlSchemaW14", {})
class_model("XmlLoaderW14", {"_schema": "XmlSchemaW14"})


def _init_attrs_w14(interp, args, kwargs):
    g = interp.ctx.ghost
    g["g_inits"] = g.get("g_inits", 0) + 1
    g["g_init_key"] = args[1]
    g["g_init_on"] = args[0]
    g["g_recursed_at_init"] = g.get("g_recursed", 0)
    return None


def _recurse_w14(interp, args, kwargs):
    g = interp.ctx.ghost
    g["g_recursed"] = g.get("g_recursed", 0) + 1
    g["g_recursed_on"] = args[1]
    g["g_recursed_parents"] = interp.seq_len(args[2])
    return None


if _z3_w14 is not None and _uf_w14 is not None:
    EXTERNS["found_w14"] = _uf_w14("found_w14", ["XmlElemW14", "Str"], "List[XmlElemW14]")
    EXTERNS["XmlElemW14.findall"] = lambda interp, args, kwargs: EXTERNS["found_w14"](interp, args[0:2], {})
    EXTERNS["XmlSchemaW14._initialize_attributes"] = _init_attrs_w14
    EXTERNS["XmlLoaderW14._add_tags_recursive"] = _recurse_w14
contract("C05.xml_tag_section_read_from_its_top_level_nodes_with_no_parents", file="hed/schema/schema_io/xml2schema.py",
         func="SchemaLoaderXML._populate_tag_dictionaries",
         params={"self": "XmlLoaderW14", "tag_section": "XmlElemW14"}, returns=None, enc="native", self_class="XmlLoaderW14",
         ghost={"not_at_call_sites": True, "init": {"g_inits": "0", "g_init_key": "''", "g_init_on": "None", "g_recursed_at_init": "-1",
                                                    "g_recursed": "0", "g_recursed_on": "[]", "g_recursed_parents": "-1"}},
         ensures={"C05.xml.tag_section_set_up_first": "g_inits == 1 and g_init_key == 'tags' and g_init_on is self._schema and g_recursed_at_init == 0",
                  "C05.xml.recursion_starts_at_the_direct_node_children_without_parents":
                      "g_recursed == 1 and g_recursed_on == found_w14(tag_section, 'node') and g_recursed_parents == 0"},
         assume=["Element.findall(path) is a function of the element and the path (found_w14)",
                 "_initialize_attributes / _add_tags_recursive are recorded as ghost state (what they were called with, in which order)"])

# ------------------------------------------------------------------------------------------------------------------ C05 rooted tags (TSV reader)
# C05 "rooted library nodes ... rooted-tag re-parenting": a tag whose rooted entry is found (C05.rooted_tag_is_reparented_under_the_standard_
# entry_it_names) is created AGAIN under the parts of that entry's long name as parent names, and it is this second entry that is added; any
# other tag is added as it came; a refused rooted tag is one fatal error of its row and nothing is added.  The lookup gets the loader's own
# schema and merged flag.
class_model("RootedW14", {"long_tag_name": "Str"})
class_model("RootLoaderW14", {"_schema": "XmlSchemaW14", "_loading_merged": "Bool"})


def _find_rooted_w14(interp, args, kwargs):
    ctx = interp.ctx
    g = ctx.ghost
    g["g_lookups"] = g.get("g_lookups", 0) + 1
    g["g_lookup_schema"] = args[2]
    g["g_lookup_merged"] = args[3]
    if interp.engine.exception_expected(ctx, "HedFileError"):
        ctx.may_raise(EXTERNS["rooted_refused_w14"](interp, args[1:2], {}).t, "HedFileError", "find_rooted_entry")
    return EXTERNS["rooted_of_w14"](interp, args[1:2], {})


def _recreate_w14(interp, args, kwargs):
    g = interp.ctx.ghost
    g["g_recreated"] = g.get("g_recreated", 0) + 1
    g["g_recreated_parents"] = args[1]
    g["g_recreated_line"] = args[2]
    e = interp.new_object("EntryW5")
    g["g_recreated_entry"] = e
    return e


def _add_w14(interp, args, kwargs):
    g = interp.ctx.ghost
    g["g_added"] = g.get("g_added", 0) + 1
    g["g_added_entry"] = args[3]
    g["g_added_key"] = args[4]
    g["g_added_line"] = args[1]
    return EXTERNS["added_answer_w14"](interp, args[3:4], {})


if _z3_w14 is not None and _uf_w14 is not None:
    EXTERNS["rooted_refused_w14"] = _uf_w14("rooted_refused_w14", ["EntryW5"], "Bool")
    EXTERNS["rooted_of_w14"] = _uf_w14("rooted_of_w14", ["EntryW5"], "Opt[RootedW14]")
    EXTERNS["added_answer_w14"] = _uf_w14("added_answer_w14", ["EntryW5"], "Opt[EntryW5]")
    EXTERNS["RootLoaderW14.find_rooted_entry"] = _find_rooted_w14
    EXTERNS["RootLoaderW14._create_tag_entry"] = _recreate_w14
    EXTERNS["RootLoaderW14._add_to_dict"] = _add_w14
    EXTERNS["RootLoaderW14._add_fatal_error"] = _fatal_code_w14
_REFUSED = "rooted_refused_w14(tag_entry)"
_ROOTED = "rooted_of_w14(tag_entry)"
contract("C05.tsv_rooted_tag_is_created_again_under_the_long_name_of_its_root", file=D2S, func="SchemaLoaderDF._add_tag_entry",
         params={"self": "RootLoaderW14", "tag_entry": "EntryW5", "row_number": "Int", "row": "Opaque"}, returns="Opt[EntryW5]", enc="native",
         self_class="RootLoaderW14",
         ghost={"not_at_call_sites": True,
                "init": {"g_lookups": "0", "g_lookup_schema": "None", "g_lookup_merged": "False", "g_recreated": "0", "g_recreated_parents": "[]",
                         "g_recreated_line": "-1", "g_recreated_entry": "None", "g_added": "0", "g_added_entry": "None", "g_added_key": "''",
                         "g_added_line": "-1", "g_fatal": "0", "g_fatal_line": "-1", "g_fatal_code": "''"}},
         ensures={
             "C05.rooted.lookup_uses_the_loaders_schema_and_merged_flag": "g_lookups == 1 and g_lookup_schema is self._schema and g_lookup_merged == self._loading_merged",
             "C05.rooted.refused_tag_is_one_fatal_error_and_nothing_added":
                 f"implies({_REFUSED}, result is None and g_added == 0 and g_fatal == 1 and g_fatal_line == row_number)",
             "C05.rooted.ordinary_tag_is_added_as_it_came":
                 f"implies(not {_REFUSED} and {_ROOTED} is None, g_recreated == 0 and g_added == 1 and g_added_entry is tag_entry"
                 " and g_added_key == 'tags' and g_added_line == row_number and g_fatal == 0 and result == added_answer_w14(tag_entry))",
             "C05.rooted.rooted_tag_is_created_again_and_that_entry_is_added":
                 f"implies(not {_REFUSED} and {_ROOTED} is not None, g_recreated == 1 and g_recreated_line == row_number and g_added == 1"
                 " and g_added_entry is g_recreated_entry and g_added_key == 'tags' and g_fatal == 0)",
         },
         assume=["find_rooted_entry is a function of the tag entry: refuses it (rooted_refused_w14) or hands back its rooted entry or None (rooted_of_w14)"
                 " - its own contract: C05.rooted_tag_is_reparented_under_the_standard_entry_it_names",
                 "_create_tag_entry / _add_to_dict / _add_fatal_error are recorded as ghost state (their own contracts: C05.tsv_tag_entry_is_named_by_..., "
                 "C05.tsv_marked_entry_in_an_unmerged_file_...)",
                 "NOT covered: that the parent names handed to _create_tag_entry are the '/'-parts of the rooted entry's long name (str.split result is not comparable in clauses)"])
# the MediaWiki reader does the same and also tells its caller the depth at which the children of the tag continue: the number of parent
# names of the rooted entry for a rooted tag, the depth it was given for every other tag
contract("C05.wiki_rooted_tag_is_created_again_under_the_long_name_of_its_root", file=W2S, func="SchemaLoaderWiki._add_tag_entry",
         params={"self": "RootLoaderW14", "tag_entry": "EntryW5", "row_number": "Int", "row": "Str", "level_adj": "Int"},
         returns="Tuple[Opt[EntryW5],Int]", enc="native", self_class="RootLoaderW14",
         ghost={"not_at_call_sites": True,
                "init": {"g_lookups": "0", "g_lookup_schema": "None", "g_lookup_merged": "False", "g_recreated": "0", "g_recreated_parents": "[]",
                         "g_recreated_line": "-1", "g_recreated_entry": "None", "g_added": "0", "g_added_entry": "None", "g_added_key": "''",
                         "g_added_line": "-1", "g_fatal": "0", "g_fatal_line": "-1", "g_fatal_code": "''"}},
         ensures={
             "C05.rooted.lookup_uses_the_loaders_schema_and_merged_flag": "g_lookups == 1 and g_lookup_schema is self._schema and g_lookup_merged == self._loading_merged",
             "C05.rooted.refused_tag_is_one_fatal_error_and_nothing_added":
                 f"implies({_REFUSED}, result[0] is None and result[1] == level_adj and g_added == 0 and g_fatal == 1 and g_fatal_line == row_number)",
             "C05.rooted.ordinary_tag_is_added_as_it_came_at_the_given_depth":
                 f"implies(not {_REFUSED} and {_ROOTED} is None, g_recreated == 0 and g_added == 1 and g_added_entry is tag_entry"
                 " and g_added_key == 'tags' and g_added_line == row_number and g_fatal == 0 and result[0] == added_answer_w14(tag_entry)"
                 " and result[1] == level_adj)",
             "C05.rooted.rooted_tag_is_created_again_and_continues_below_its_root":
                 f"implies(not {_REFUSED} and {_ROOTED} is not None, g_recreated == 1 and g_recreated_line == row_number and g_added == 1"
                 " and g_added_entry is g_recreated_entry and g_added_key == 'tags' and g_fatal == 0 and result[1] == len(g_recreated_parents))",
         },
         assume=["as for C05.tsv_rooted_tag_is_created_again_under_the_long_name_of_its_root"])
