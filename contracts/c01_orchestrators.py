from pyvc.contract import contract, class_model

E = "hed/errors/error_reporter.py"
T = "hed/validator/util/tag_util.py"
V = "hed/validator/hed_validator.py"

class_model("TagValidator", {})
class_model("HedValidator", {"_hed_schema": "Opaque", "_definitions_allowed": "Bool", "_def_validator": "DefValidator"})

# "errors" = severity below WARNING (10)
contract("C12.check_for_any_errors", file=E, func="check_for_any_errors",
         params={"issues_list": "List[Issue]"}, returns="Bool", enc="native",
         ensures={"C12.any_errors.iff": "result == any_in(issues_list, lambda x: x.severity < 10)"},
         loops={0: {"invariant": ["all(issues_list[k].severity >= 10 for k in range(_n))"]}},
         bounded={"cases": "rt.gens.issue_lists_only", "adapter": "rt.adapters.issues_as_objects", "share": True})

# C01 per-tag orchestrator: nothing is dropped - each rule's verdict reaches the caller with its code
contract("C01.run_individual_tag_validators", file=T, func="TagValidator.run_individual_tag_validators",
         params={"self": "TagValidator", "original_tag": "HedTag", "allow_placeholders": "Bool", "is_definition": "Bool"},
         returns="List[Issue]", enc="native",
         requires=["len(original_tag.tag) == len(original_tag.org_base_tag) + (1 + len(original_tag.extension) "
                   "if len(original_tag.extension) > 0 else 0)",
                   "all(original_tag.tag[len(original_tag.org_base_tag) + 1 + j] == original_tag.extension[j]"
                   " for j in range(len(original_tag.extension)))"],
         lets={"plain": "original_tag.is_basic_tag() or original_tag.is_takes_value_tag()"},
         ensures={
             "C01.tag_rules.requires_child_reported": "implies(has_attr(original_tag, 'requireChild'),"
                                                      " any_in(result, lambda x: x.code == 'TAG_REQUIRES_CHILD' and x.severity == 1))",
             "C01.tag_rules.forbidden_extension_reported": "implies(not plain and not has_attr(original_tag, 'extensionAllowed'),"
                 " any_in(result, lambda x: x.severity == 1 and (x.code == 'TAG_EXTENSION_INVALID' or x.code == 'PLACEHOLDER_INVALID')))",
             "C01.tag_rules.stray_placeholder_reported": "implies((not allow_placeholders or not original_tag.is_takes_value_tag())"
                                                         " and not is_definition and '#' in original_tag.extension,"
                                                         " any_in(result, lambda x: x.code == 'PLACEHOLDER_INVALID' and x.severity == 1))",
             "C01.tag_rules.conforming_tag_no_error": "implies(plain and not has_attr(original_tag, 'requireChild')"
                                                      " and (is_definition or '#' not in original_tag.extension"
                                                      "      or (allow_placeholders and original_tag.is_takes_value_tag())),"
                                                      " all_in(result, lambda x: x.severity >= 10))",
         },
         calls={"check_capitalization": "C01.check_capitalization"})

contract("C01.check_capitalization", file=T, func="TagValidator.check_capitalization",
         params={"self": "TagValidator", "original_tag": "HedTag"}, returns="List[Issue]", enc="native", trusted=True,
         ensures={"style_only": "all_in(result, lambda x: x.code == 'STYLE_WARNING' and x.severity == 10)"},
         assume=["check_capitalization (regex) only ever produces STYLE_WARNING warnings"])

# two-phase string validation.  The two phases are named by uninterpreted list-valued spec functions of the arguments
# (assumption: the rule functions are deterministic functions of the annotation and the validator).
contract("C01.run_basic_checks", file=V, func="HedValidator.run_basic_checks",
         params={"self": "HedValidator", "hed_string": "HedString", "allow_placeholders": "Bool"}, returns="List[Issue]",
         enc="native", trusted=True,
         ensures={"named": "result == basic_issues_of(self, hed_string, allow_placeholders)",
                  "wf": "all_in(result, lambda x: issue_wf(x))"},
         assume=["run_basic_checks is deterministic; its issues are well-formed (C12 call-site obligations of format_error)"])
contract("C01.run_full_string_checks", file=V, func="HedValidator.run_full_string_checks",
         params={"self": "HedValidator", "hed_string": "HedString"}, returns="List[Issue]", enc="native", trusted=True,
         ensures={"named": "result == full_issues_of(self, hed_string)", "wf": "all_in(result, lambda x: issue_wf(x))"})
contract("C12.error_handler_init", file=E, func="ErrorHandler.__init__",
         params={"self": "ErrorHandler", "check_for_warnings": "Bool"}, returns=None, enc="native",
         modifies=["self._check_for_warnings", "self.error_context"],
         ensures={"C12.handler.flag": "self._check_for_warnings == check_for_warnings"})

contract("C01.validate", file=V, func="HedValidator.validate",
         params={"self": "HedValidator", "hed_string": "HedString", "allow_placeholders": "Bool", "error_handler": "Opt[ErrorHandler]"},
         returns="List[Issue]", enc="native", also=["C12"],
         modifies=["heap:Issue.char_index", "heap:Issue.char_index_end", "heap:Issue.has_char_index",
                   "heap:Issue.has_char_index_end", "heap:Issue.message"],
         lets={"basic": "basic_issues_of(self, hed_string, allow_placeholders)", "full": "full_issues_of(self, hed_string)",
               "warn": "error_handler is None or error_handler._check_for_warnings"},
         ensures={
             "C01.validate.no_basic_error_dropped": "all_in(basic, lambda x: implies(x.severity <= 1 or warn, x in result))",
             "C01.validate.full_phase_runs_iff_no_basic_error": "implies(not any_in(basic, lambda x: x.severity < 10),"
                                                                " all_in(full, lambda x: implies(x.severity <= 1 or warn, x in result)))",
             "C01.validate.full_phase_skipped_after_error": "implies(any_in(basic, lambda x: x.severity <= 1), all_in(result, lambda x: x in basic))",
             "C01.validate.nothing_invented": "all_in(result, lambda x: x in basic or x in full)",
             "C12.validate.errors_only_when_asked": "implies(not warn, all_in(result, lambda x: x.severity <= 1))",
         })

# ---- run_basic_checks: the callees are named by uninterpreted functions (deterministic, well-formed issues: trusted here,
#      each has or will get its own contract); what is proved is the orchestration: order, early exits, nothing dropped
WF = "all_in(result, lambda x: issue_wf(x))"
HV = {"self": "HedValidator"}
contract("C01.run_hed_string_validators", file=V, func="HedValidator._run_hed_string_validators",
         params=dict(HV, hed_string_obj="HedString", allow_placeholders="Bool"), returns="List[Issue]", enc="native", trusted=True,
         ensures={"named": "result == string_issues_of(self, hed_string_obj, allow_placeholders)", "wf": WF})
contract("C01.run_validate_tag_characters", file=V, func="HedValidator._run_validate_tag_characters",
         params=dict(HV, original_tag="HedTag", allow_placeholders="Bool"), returns="List[Issue]", enc="native", trusted=True,
         ensures={"named": "result == char_issues_of(self, original_tag, allow_placeholders)", "wf": WF})
contract("C01.calculate_to_canonical_forms", file="hed/models/hed_string.py", func="HedString._calculate_to_canonical_forms",
         params={"self": "HedString", "hed_schema": "Opaque"}, returns="List[Issue]", enc="native", trusted=True,
         ensures={"named": "result == canonical_issues_of(self)", "wf": WF})
contract("C01.validate_individual_tags_in_hed_string", file=V, func="HedValidator._validate_individual_tags_in_hed_string",
         params=dict(HV, hed_string_obj="HedString", allow_placeholders="Bool"), returns="List[Issue]", enc="native", trusted=True,
         ensures={"named": "result == tag_rule_issues_of(self, hed_string_obj, allow_placeholders)", "wf": WF})
class_model("DefValidator", {})
class_model("HedValidatorFields", {})
contract("C01.validate_def_tags", file="hed/validator/def_validator.py", func="DefValidator.validate_def_tags",
         params={"self": "DefValidator", "hed_string_obj": "HedString", "hed_validator": "HedValidator"}, returns="List[Issue]",
         enc="native", trusted=True, ensures={"named": "result == def_issues_of(hed_validator, hed_string_obj)", "wf": WF})
contract("C01.get_all_tags", file="hed/models/hed_group.py", func="HedGroup.get_all_tags",
         params={"self": "HedGroup"}, returns="List[HedTag]", enc="native", trusted=True,
         ensures={"named": "result == all_tags_of(self)"})

ERR = "lambda x: x.severity < 10"
contract("C01.run_basic_checks.body", file=V, func="HedValidator.run_basic_checks",
         params=dict(HV, hed_string="HedString", allow_placeholders="Bool"), returns="List[Issue]", enc="native", prop="C01",
         locals={"issues": "List[Issue]"},
         lets={"S": "string_issues_of(self, hed_string, allow_placeholders)", "K": "canonical_issues_of(hed_string)",
               "R": "tag_rule_issues_of(self, hed_string, allow_placeholders)", "D": "def_issues_of(self, hed_string)",
               "tags": "all_tags_of(hed_string)", "na": "hed_string.__str__ == 'n/a'",
               "char_err": "any(any_in(char_issues_of(self, all_tags_of(hed_string)[k], allow_placeholders), lambda x: x.severity < 10)"
                           " for k in range(len(all_tags_of(hed_string))))"},
         ensures={
             "C01.basic.string_level_issues_kept": "all_in(S, lambda x: x in result)",
             "C01.basic.stops_after_string_level_error": f"implies(any_in(S, {ERR}), all_in(result, lambda x: x in S))",
             "C01.basic.character_and_resolution_issues_kept": f"implies(not any_in(S, {ERR}) and not na,"
                 " all_in(K, lambda x: x in result) and all(all_in(char_issues_of(self, tags[k], allow_placeholders), lambda x: x in result)"
                 " for k in range(len(tags))))",
             "C01.basic.tag_and_def_rules_run_when_resolved": f"implies(not any_in(S, {ERR}) and not na and not char_err and not any_in(K, {ERR}),"
                 " all_in(R, lambda x: x in result) and all_in(D, lambda x: x in result))",
             "C01.basic.issues_well_formed": "all_in(result, lambda x: issue_wf(x))",
             "C01.basic.stops_after_character_or_resolution_error": f"implies(not any_in(S, {ERR}) and not na and (char_err or any_in(K, {ERR})),"
                 " all_in(result, lambda x: x in S or x in K or any(x in char_issues_of(self, tags[k], allow_placeholders)"
                 " for k in range(len(tags)))))",
         },
         loops={0: {"invariant": [
             "all_in(string_issues_of(self, hed_string, allow_placeholders), lambda x: x in issues)",
             "all(all_in(char_issues_of(self, all_tags_of(hed_string)[k], allow_placeholders), lambda x: x in issues) for k in range(_n))",
             "all_in(issues, lambda x: issue_wf(x))",
             "all_in(issues, lambda x: x in string_issues_of(self, hed_string, allow_placeholders) or "
             "any(x in char_issues_of(self, all_tags_of(hed_string)[k], allow_placeholders) for k in range(_n)))",
             "implies(any_in(issues, lambda x: x.severity < 10), any(any_in(char_issues_of(self, all_tags_of(hed_string)[k], allow_placeholders),"
             " lambda x: x.severity < 10) for k in range(_n)))",
         ]}},
         calls={"self._def_validator": "DefValidator"})

# C01 "stray placeholder" / C04 (no dependence on how content is written): a group counts as definition content exactly when it IS one of
# the groups nested in a top-level Definition group (identity), never because it merely has the same content
contract("C01.validate_individual_tags.definition_scope", file=V, func="HedValidator._validate_individual_tags_in_hed_string",
         params={"self": "Opaque", "hed_string_obj": "HedString", "allow_placeholders": "Bool"}, returns="Opaque", enc="native",
         prop="C01", also=["C04"],
         unwind="havoc", locals={"group": "HedGroup", "all_definition_groups": "List[HedGroup]"},
         ghost={"init": {"scope_ok": "True", "scope_checks": "0"}, "no_frame": True,
                "update": [("assign:is_definition",
                            "scope_ok = scope_ok and (is_definition == any(group is all_definition_groups[k] for k in range(len(all_definition_groups))))"),
                           ("assign:is_definition", "scope_checks = scope_checks + 1")]},
         ensures={"C01.definition_scope.by_identity_not_by_content": "scope_ok"},
         assume=["loops explored as one arbitrary iteration from a havocked state (the clause is about each iteration separately)"])

# C01 "forbidden character ... empty node name": the string-level phase runs the character rule on the text as written, the delimiter rules,
# and the slash rule on EVERY tag of the annotation, at any depth of grouping
class_model("HedValidatorS", {"_char_validator": "CharValidatorS", "_string_validator": "StringValidatorS"})
class_model("CharValidatorS", {})
class_model("StringValidatorS", {})
contract("C01.char_issues_of_text", file="hed/validator/util/char_util.py", func="CharValidator.check_invalid_character_issues",
         params={"self": "CharValidatorS", "hed_string": "Str", "allow_placeholders": "Bool"}, returns="List[Issue]", enc="native",
         trusted=True, self_class="CharValidatorS", ensures={"named": "result == text_char_issues_of(hed_string, allow_placeholders)", "wf": WF})
contract("C01.string_validator_issues", file="hed/validator/util/string_util.py", func="StringValidator.run_string_validator",
         params={"self": "StringValidatorS", "hed_string_obj": "HedString"}, returns="List[Issue]", enc="native", trusted=True,
         self_class="StringValidatorS", ensures={"named": "result == delimiter_issues_of(hed_string_obj)", "wf": WF})
contract("C01.tag_formatting_issues", file=V, func="HedValidator.check_tag_formatting",
         params={"self": "HedValidatorS", "original_tag": "HedTag"}, returns="List[Issue]", enc="native", trusted=True, self_class="HedValidatorS",
         ensures={"named": "result == slash_issues_of(original_tag)", "wf": WF})
contract("C01.original_text", file="hed/models/hed_group.py", func="HedGroup.get_original_hed_string",
         params={"self": "HedString"}, returns="Str", enc="native", trusted=True, ensures={"named": "result == self._hed_string"})
contract("C01.string_phase.every_tag_at_any_depth", file=V, func="HedValidator._run_hed_string_validators",
         params={"self": "HedValidatorS", "hed_string_obj": "HedString", "allow_placeholders": "Bool"}, returns="List[Issue]", enc="native",
         prop="C01", self_class="HedValidatorS", locals={"validation_issues": "List[Issue]"},
         lets={"T": "all_tags_of(hed_string_obj)"},
         ensures={
             "C01.string_phase.slash_rule_on_every_tag": "all(all_in(slash_issues_of(T[k]), lambda x: is_in(x, result)) for k in range(len(T)))",
             "C01.string_phase.character_and_delimiter_rules_run": "all_in(text_char_issues_of(hed_string_obj._hed_string, allow_placeholders), lambda x: is_in(x, result))"
                                                                   " and all_in(delimiter_issues_of(hed_string_obj), lambda x: is_in(x, result))",
             "C01.string_phase.nothing_invented": "all_in(result, lambda x: is_in(x, text_char_issues_of(hed_string_obj._hed_string, allow_placeholders))"
                                                  " or is_in(x, delimiter_issues_of(hed_string_obj)) or any(is_in(x, slash_issues_of(T[k])) for k in range(len(T))))",
         },
         loops={0: {"invariant": [
             "all(all_in(slash_issues_of(_iter0[k]), lambda x: is_in(x, validation_issues)) for k in range(_n))",
             "all_in(text_char_issues_of(hed_string_obj._hed_string, allow_placeholders), lambda x: is_in(x, validation_issues))"
             " and all_in(delimiter_issues_of(hed_string_obj), lambda x: is_in(x, validation_issues))",
             "all_in(validation_issues, lambda x: is_in(x, text_char_issues_of(hed_string_obj._hed_string, allow_placeholders))"
             " or is_in(x, delimiter_issues_of(hed_string_obj)) or any(is_in(x, slash_issues_of(_iter0[k])) for k in range(_n)))",
         ]}})
