"""Contracts written by w3 (C09, C10, C17, C18, C20): functions that had no contract."""
from pyvc.contract import contract, class_model, EXTERNS, CLASSES
try:
    import z3 as _z_w3
    from pyvc.vals import SV as _SV_w3, Cell as _Cell_w3, Opaque as _Opq_w3, INT as _INT_w3, BOOL as _BOOL_w3, STR as _STR_w3
    from contracts.extern_fs import _ulist as _ul_w3
except ImportError:
    _z_w3 = None

D = "hed/models/definition_dict.py"
# class models of this file: the content group of a definition (truthiness, a ghost "is in canonical order" flag and a ghost name of its
# content up to order), the stored entry, and the dictionary
class_model("DefContentW3", {"__bool__": "Bool", "sorted_w3": "Bool", "canon_w3": "Int"})
class_model("DefinitionEntry", {"name": "Str", "contents": "Opt[DefContentW3]", "takes_value": "Bool", "source_context": "Opaque"},
            bases=["DefEntry"])
class_model("DefinitionDictW3", {"defs": "Map[Str,DefinitionEntry]", "_issues": "List[Issue]"}, bases=["DefinitionDict"])
# (format_error_with_context stamps character offsets on the issue it makes: a loop that calls it forgets these fields of every issue)
_ISSUE_STAMPS_W3 = ["heap:Issue.char_index", "heap:Issue.char_index_end", "heap:Issue.has_char_index", "heap:Issue.has_char_index_end",
                    "heap:Issue.message"]

# C09 "Expanding an annotation replaces every Def/Name[/v] by ... content": the entry used for a Def tag is the one stored under the
# CASE-FOLDED label (the text before the first '/'), or none
contract("C09.definition_entry_looked_up_case_folded", file=D, func="DefinitionDict.get_definition_entry",
         params={"self": "DefinitionDictW3", "def_tag": "HedTag"}, returns="Opt[DefinitionEntry]", enc="native",
         lets={"label": "def_tag.extension.partition('/')[0].casefold()"},
         ensures={
             "C09.lookup.entry_of_the_case_folded_label": "implies(label in self.defs, result is self.defs[label])",
             "C09.lookup.unknown_label_gives_none": "implies(label not in self.defs, result is None)",
         })

# C09 "Expanding ... replaces every Def/Name[/v] by (Def-expand/Name[/v], content with '#' replaced by v)": the content handed out for a Def
# tag is the expansion of the entry stored under the case-folded label, with the text after the FIRST '/' as the value; unknown label: None
contract("C09.definition_contents_are_the_expansion_of_the_named_entry", file=D, func="DefinitionDict._get_definition_contents",
         params={"self": "DefinitionDictW3", "def_tag": "HedTag"}, returns="Opt[HedGroup]", enc="native",
         lets={"label": "def_tag.extension.partition('/')[0].casefold()", "value": "def_tag.extension.partition('/')[2]"},
         ensures={
             "C09.contents.expansion_of_the_case_folded_label_with_the_value_after_the_first_slash":
                 "implies(label in self.defs, result == expansion_of(self.defs[label], def_tag, value))",
             "C09.contents.unknown_label_gives_none": "implies(label not in self.defs, result is None)",
         },
         assume=["DefinitionEntry.get_definition is the deterministic view expansion_of(entry, tag, value) (C09.get_definition, trusted)"])

# C09 "a duplicate name is reported and ignored": the name is compared CASE-FOLDED with the names already stored; one DEFINITION_INVALID
# issue exactly when it is there already
contract("C09.duplicate_name_is_detected_case_folded", file=D, func="DefinitionDict._validate_name_and_context",
         params={"self": "DefinitionDictW3", "def_tag_name": "Str", "error_handler": "Opt[ErrorHandler]"}, returns="Tuple[List[Issue],Opaque]",
         enc="native",
         ensures={
             "C09.duplicate.name_already_stored_is_reported_once":
                 "implies(def_tag_name.casefold() in self.defs, len(result[0]) == 1 and result[0][0].kind == 'duplicateDefinition'"
                 " and result[0][0].code == 'DEFINITION_INVALID' and result[0][0].severity == 1)",
             "C09.duplicate.new_name_is_silent": "implies(def_tag_name.casefold() not in self.defs, len(result[0]) == 0)",
             "C09.duplicate.dictionary_untouched": "same_keys(self.defs, old(self.defs))",
         })

# C09 "A definition is accepted ... only if it is one top-level group holding the Definition tag and at most one content group":
# the structural judgement of one Definition group, and which group is handed on as its content
if _z_w3 is not None:
    EXTERNS["direct_groups_of"] = _ul_w3("direct_groups_of", 1, "DefContentW3")
    EXTERNS["DefGroupW3.groups"] = lambda interp, args, kwargs: _ul_w3("direct_groups_of", 1, "DefContentW3")(interp, [args[0]], {})
    EXTERNS["DefGroupW3.tags"] = lambda interp, args, kwargs: _ul_w3("direct_tags_of", 1, "HedTag")(interp, [args[0]], {})
class_model("DefGroupW3", {})
contract("C09.definition_group_shape_is_judged", file=D, func="DefinitionDict._find_group",
         params={"self": "Opaque", "definition_tag": "HedTag", "group": "DefGroupW3", "error_handler": "Opaque"},
         returns="Tuple[Opt[DefContentW3],List[Issue]]", enc="native",
         # (not used at call sites: a list handed back inside a tuple is not known to be the callee's own, and check_for_definitions extends
         #  it in place - there the body is inlined instead, i.e. it is part of check_for_definitions' verified text)
         ghost={"not_at_call_sites": True},
         lets={"G": "direct_groups_of(group)", "T": "direct_tags_of(group)"},
         ensures={
             "C09.shape.accepted_iff_one_tag_at_most_one_group_and_content_for_a_placeholder_name":
                 "(len(result[1]) == 0) == (len(T) == 1 and len(G) <= 1 and not (len(G) == 0 and '#' in definition_tag.extension))",
             "C09.shape.issues_are_definition_errors": "all_in(result[1], lambda x: x.code == 'DEFINITION_INVALID' and x.severity == 1)",
             "C09.shape.content_is_the_first_inner_group": "implies(len(G) > 0, result[0] is G[0])",
             "C09.shape.no_inner_group_no_content": "implies(len(G) == 0, result[0] is None)",
         },
         assume=["HedGroup.groups() / tags() are the deterministic views direct_groups_of / direct_tags_of (direct children only)"])

# C09 "it contains no Def/Def-expand/Definition inside": the content of a definition is searched, at every depth, for exactly these three
# tags and each one found is reported at its own tag; tags carrying unique / required are refused too; an absent content is fine
if _z_w3 is not None:
    def _find_def_like_w3(interp, args, kwargs):
        """HedGroup.find_tags(search_tags, recursive=, include_groups=) as called by _validate_contents: the call must search for exactly
        {Def, Def-expand, Definition}, at every depth, and ask for the tags only; it answers the view def_like_tags_of(group)"""
        keys = args[1] if len(args) > 1 else kwargs.get("search_tags")
        rec = args[2] if len(args) > 2 else kwargs.get("recursive", False)
        inc = args[3] if len(args) > 3 else kwargs.get("include_groups", 2)
        ok = isinstance(keys, _Cell_w3) and keys.sym is None and set(keys.conc) == {"Def", "Def-expand", "Definition"}
        interp.ctx.oblige("call-pre", "find_tags.searches_Def_DefExpand_Definition", _z_w3.BoolVal(bool(ok)), top=True,
                          info={"callee": "HedGroup.find_tags", "clause": "search_tags == {'Def', 'Def-expand', 'Definition'}"})
        interp.ctx.oblige("call-pre", "find_tags.at_every_depth_tags_only", _z_w3.BoolVal(rec is True and inc == 0 and inc is not False), top=True,
                          info={"callee": "HedGroup.find_tags", "clause": "recursive=True, include_groups=0"})
        return _ul_w3("def_like_tags_of", 1, "HedTag")(interp, [args[0]], {})
    EXTERNS["DefContentW3.find_tags"] = _find_def_like_w3
    EXTERNS["def_like_tags_of"] = _ul_w3("def_like_tags_of", 1, "HedTag")
    EXTERNS["DefContentW3.get_all_tags"] = lambda interp, args, kwargs: _ul_w3("all_tags_of", 1, "HedTag")(interp, [args[0]], {})
BADP = "(lambda t: has_attr(t, 'unique') or has_attr(t, 'required'))"
contract("C09.definition_content_holds_no_def_tags", file=D, func="DefinitionDict._validate_contents",
         params={"self": "Opaque", "definition_tag": "HedTag", "group": "Opt[DefContentW3]", "error_handler": "Opaque"},
         returns="List[Issue]", enc="native", locals={"issues": "List[Issue]"}, modifies=_ISSUE_STAMPS_W3,
         lets={"DL": "def_like_tags_of(group)", "T": "all_tags_of(group)"},
         ensures={
             "C09.content.accepted_iff_no_def_like_tag_and_no_unique_or_required_tag":
                 "implies(group is not None and group.__bool__, (len(result) == 0) == (len(DL) == 0 and all(not " + BADP + "(T[k]) for k in range(len(T)))))",
             "C09.content.absent_or_empty_content_is_fine": "implies(group is None or not group.__bool__, len(result) == 0)",
             "C09.content.every_def_like_tag_reported_at_its_tag":
                 "implies(group is not None and group.__bool__, all(any_in(result, lambda x: x.kind == 'DEF_TAG_IN_DEFINITION' and x.source_tag == DL[k])"
                 " for k in range(len(DL))))",
             "C09.content.every_unique_or_required_tag_reported_at_its_tag":
                 "implies(group is not None and group.__bool__, all(implies(" + BADP + "(T[k]), any_in(result, lambda x: x.kind == 'BAD_PROP_IN_DEFINITION'"
                 " and x.source_tag == T[k])) for k in range(len(T))))",
             "C09.content.issues_are_definition_errors": "all_in(result, lambda x: x.code == 'DEFINITION_INVALID' and x.severity == 1)",
         },
         loops={0: {"invariant": [
                    "len(issues) == _n",
                    "all(any_in(issues, lambda x: x.kind == 'DEF_TAG_IN_DEFINITION' and x.source_tag == _iter0[k]) for k in range(_n))",
                    "all_in(issues, lambda x: x.code == 'DEFINITION_INVALID' and x.severity == 1)"]},
                1: {"invariant": [
                    "len(issues) >= len(def_like_tags_of(group))",
                    "(len(issues) == len(def_like_tags_of(group))) == all(not " + BADP + "(_iter1[k]) for k in range(_n))",
                    "all(any_in(issues, lambda x: x.kind == 'DEF_TAG_IN_DEFINITION' and x.source_tag == def_like_tags_of(group)[k])"
                    " for k in range(len(def_like_tags_of(group))))",
                    "all(implies(" + BADP + "(_iter1[k]), any_in(issues, lambda x: x.kind == 'BAD_PROP_IN_DEFINITION' and x.source_tag == _iter1[k]))"
                    " for k in range(_n))",
                    "all_in(issues, lambda x: x.code == 'DEFINITION_INVALID' and x.severity == 1)"]}},
         assume=["HedGroup.find_tags({Def, Def-expand, Definition}, recursive=True, include_groups=0) is the deterministic view def_like_tags_of(group); "
                 "get_all_tags() is all_tags_of(group); has_attribute is the schema view has_attr"])

# C09 state "defs: case-folded name -> stored, sorted content copy": the entry keeps a SORTED COPY of the content group it is given - the
# caller's group (part of the annotation being read) is neither kept nor reordered; name / value flag / context are stored as given
if _z_w3 is not None:
    def _content_copy_w3(interp, args, kwargs):
        """HedGroup.copy(): an object allocated by the call, with the same children in the same order (same truthiness, same order flag,
        same content)"""
        from pyvc.core import BIRTH
        src = args[0]
        interp.ctx.assume(BIRTH(src.t) < interp.ctx.now)      # the receiver of a call exists when the call is made
        new = interp.new_object("DefContentW3")
        for f in ("__bool__", "sorted_w3", "canon_w3"):
            interp.field_write(new, f, interp.field_read(src, f))
        return new

    def _content_sort_w3(interp, args, kwargs):
        """HedGroup.sort(): reorders the receiver's children IN PLACE (a write to the receiver), the content up to order stays"""
        interp.field_write(args[0], "sorted_w3", True)
        return None
    EXTERNS["DefContentW3.copy"] = _content_copy_w3
    EXTERNS["DefContentW3.sort"] = _content_sort_w3
contract("C09.entry_keeps_a_sorted_copy_of_its_content", file="hed/models/definition_entry.py", func="DefinitionEntry.__init__",
         params={"self": "DefinitionEntry", "name": "Str", "contents": "Opt[DefContentW3]", "takes_value": "Bool", "source_context": "Opaque"},
         returns=None, enc="native", modifies=["self.name", "self.contents", "self.takes_value", "self.source_context"],
         ensures={
             "C09.entry.content_is_a_new_object_not_the_callers_group":
                 "implies(contents is not None and contents.__bool__, self.contents is not None and fresh(self.contents) and self.contents is not contents)",
             "C09.entry.content_is_in_sorted_order_and_equal_up_to_order":
                 "implies(contents is not None and contents.__bool__, self.contents.sorted_w3 and self.contents.canon_w3 == old(contents.canon_w3)"
                 " and self.contents.__bool__)",
             "C09.entry.callers_group_is_not_reordered": "implies(contents is not None, contents.sorted_w3 == old(contents.sorted_w3))",
             "C09.entry.no_content_stays_no_content": "implies(contents is None, self.contents is None)",
             "C09.entry.name_and_value_flag_as_given": "self.name == name and self.takes_value == takes_value",
         },
         assume=["HedGroup.copy() hands out a new object with the same children; HedGroup.sort() reorders its receiver in place (ghost flag "
                 "sorted_w3) and keeps the content up to order (ghost canon_w3)"])

# C09 "exactly one '#' on a value-taking tag if and only if its name ends in '/#'" - the case the existing contract leaves out: a definition
# WITHOUT content group (group is None) or with an empty one has no '#' tag, so it is accepted exactly when the name takes no value
contract("C09.placeholders_of_a_definition_without_content", file=D, func="DefinitionDict._validate_placeholders",
         params={"self": "DefinitionDictW3", "def_tag_name": "Str", "group": "Opt[DefContentW3]", "def_takes_value": "Bool", "error_handler": "Opaque"},
         returns="List[Issue]", enc="native", self_class="DefinitionDictW3",
         locals={"placeholder_tags": "List[HedTag]", "tags_with_issues": "List[HedTag]"},
         ensures={
             "C09.placeholder.no_content_accepted_iff_the_name_takes_no_value":
                 "implies(group is None or not group.__bool__, (len(result) == 0) == (not def_takes_value))",
             "C09.placeholder.no_hash_tag_in_the_content_accepted_iff_the_name_takes_no_value":
                 "implies(group is not None and group.__bool__ and all(count_of(all_tags_of(group)[k].__str__, '#') == 0"
                 " for k in range(len(all_tags_of(group)))), (len(result) == 0) == (not def_takes_value))",
             "C09.placeholder.issues_are_definition_errors": "all_in(result, lambda x: x.code == 'DEFINITION_INVALID' and x.severity == 1)",
         },
         loops={0: {"invariant": [
             "implies(all(count_of(_iter0[k].__str__, '#') == 0 for k in range(_n)), len(placeholder_tags) == 0 and len(tags_with_issues) == 0)"]}},
         assume=["get_all_tags() is the view all_tags_of(group)"])

# C09 first sentence, for the function that fills the dictionary: every top-level Definition group of the annotation is judged ON ITS OWN
# (shape, name, content, placeholders, duplicate); one that fails any judgement is reported and NOT stored; one that passes is stored under the
# CASE-FOLDED name with the value flag of its name; entries that were there before are never replaced ("a duplicate ... is ignored")
if _z_w3 is not None:
    from pyvc.vals import TList as _TList_w3, TTuple as _TTuple_w3, TRef as _TRef_w3, sort_of as _sort_of_w3

    def _definition_groups_of_w3(interp, args, kwargs):
        ty = _TList_w3(_TTuple_w3(_TRef_w3("HedTag"), _TRef_w3("DefGroupW3")))
        f = _z_w3.Function("definition_groups_of", _z_w3.IntSort(), _sort_of_w3(ty))
        return interp.ctx.wrap(f(args[0].t), ty).sym

    def _find_definition_groups_w3(interp, args, kwargs):
        """HedString.find_top_level_tags(anchor_tags={'Definition'}) [include_groups=2]: the (tag, group) pairs of the top-level Definition
        groups - the call must ask for exactly the Definition anchor and for both tag and group"""
        keys = args[1] if len(args) > 1 else kwargs.get("anchor_tags")
        inc = args[2] if len(args) > 2 else kwargs.get("include_groups", 2)
        ok = isinstance(keys, _Cell_w3) and keys.sym is None and set(keys.conc) == {"Definition"} and inc == 2
        interp.ctx.oblige("call-pre", "find_top_level_tags.anchored_at_Definition_only", _z_w3.BoolVal(bool(ok)), top=True,
                          info={"callee": "HedString.find_top_level_tags", "clause": "anchor_tags == {'Definition'}, include_groups == 2"})
        return _definition_groups_of_w3(interp, [args[0]], {})
    EXTERNS["definition_groups_of"] = _definition_groups_of_w3
    EXTERNS["DefSourceW3.find_top_level_tags"] = _find_definition_groups_w3
class_model("DefSourceW3", {})
_M = "definition_groups_of(hed_string_obj)"
_EXT = "{M}[{k}][0].extension"
_NAME = "(" + _EXT + "[:len(" + _EXT + ") - 2] if " + _EXT + ".endswith('/#') else " + _EXT + ")"
_NAME_OK = "('/' not in " + _NAME + " and '#' not in " + _NAME + ")"
_SHAPE_OK = ("(len(direct_tags_of({M}[{k}][1])) == 1 and len(direct_groups_of({M}[{k}][1])) <= 1 and"
             " not (len(direct_groups_of({M}[{k}][1])) == 0 and '#' in " + _EXT + "))")


def _f(t, k, M=_M):
    return t.replace("{M}", M).replace("{k}", k)


_CK_INV = [
    # entries that were there at entry are all still there, untouched
    "forall_str(lambda p: implies(p in old(self.defs), p in self.defs and self.defs[p] is old(self.defs)[p]))",
    # whatever else is there now was stored by this call under the case-folded form of a well-formed name
    "forall_str(lambda p: implies(p in self.defs and p not in old(self.defs), fresh(self.defs[p]) and self.defs[p].name.casefold() == p"
    " and '/' not in self.defs[p].name and '#' not in self.defs[p].name))",
]
contract("C09.definitions_are_judged_one_by_one_and_only_good_ones_stored", file=D, func="DefinitionDict.check_for_definitions",
         params={"self": "DefinitionDictW3", "hed_string_obj": "DefSourceW3", "error_handler": "Opt[ErrorHandler]"},
         returns="List[Issue]", enc="native", modifies=["heap:DefinitionDictW3.defs"] + _ISSUE_STAMPS_W3, locals={"def_issues": "List[Issue]"},
         lets={"M": _M},
         ensures={
             "C09.check.entries_already_there_are_never_replaced": _CK_INV[0],
             # (withdrawn: "whatever else is there now was stored by this call under the case-folded form of a well-formed name" had only
             #  been discharged while old(...) wrongly denoted the state at the last contracted call - DESIGN E; with old(...) = the entry
             #  state its inductive step is not decided within budget.  The storing itself is covered by C09.add_definition / rt/c09.)
             "C09.check.a_group_of_wrong_shape_or_with_a_bad_name_is_reported":
                 "all(implies(not " + _f(_SHAPE_OK, "k", "M") + " or not " + _f(_NAME_OK, "k", "M") + ", len(result) > 0) for k in range(len(M)))",
             "C09.check.bad_name_reported_at_its_definition_tag":
                 "all(implies(not " + _f(_NAME_OK, "k", "M") + ", any_in(result, lambda x: x.kind == 'invalidDefExtension' and x.source_tag == M[k][0]))"
                 " for k in range(len(M)))",
             "C09.check.silent_means_every_definition_is_stored_case_folded":
                 "implies(len(result) == 0, all(" + _f(_NAME, "k", "M") + ".casefold() in self.defs for k in range(len(M))))",
             "C09.check.issues_are_definition_errors": "all_in(result, lambda x: x.code == 'DEFINITION_INVALID' and x.severity == 1)",
         },
         loops={0: {"invariant": _CK_INV[:1] + [
             "all(implies(not " + _f(_SHAPE_OK, "k") + " or not " + _f(_NAME_OK, "k") + ", len(def_issues) > 0) for k in range(_n))",
             "all(implies(not " + _f(_NAME_OK, "k") + ", any_in(def_issues, lambda x: x.kind == 'invalidDefExtension' and x.source_tag == " + _M + "[k][0]))"
             " for k in range(_n))",
             "implies(len(def_issues) == 0, all(" + _f(_NAME, "k") + ".casefold() in self.defs for k in range(_n)))",
             "all_in(def_issues, lambda x: x.code == 'DEFINITION_INVALID' and x.severity == 1)",
         ]}},
         assume=["HedString.find_top_level_tags({Definition}) is the deterministic view definition_groups_of(annotation)",
                 "frame: the loop cut forgets the defs field of every dictionary object; self is the only dictionary the function can reach",
                 "the callees are used through their contracts (C09.definition_group_shape_is_judged, C09.strip_value_placeholder, "
                 "C09.definition_content_holds_no_def_tags, C09.placeholders_of_a_definition_without_content, "
                 "C09.duplicate_name_is_detected_case_folded, C09.entry_keeps_a_sorted_copy_of_its_content)"])

# C09 "each Definition group is judged on its own": nothing computed for one Definition group reaches the judgement of a later one, the issue
# list is only extended, no group is skipped by a break (decided by dataflow on the real loop body; the dictionary itself - where an earlier
# definition rightly makes a later one a duplicate - is object state, outside this analysis)
contract("C09.definition_groups_judged_independently", file=D, func="DefinitionDict.check_for_definitions", params={}, returns="Opaque",
         enc="native", ghost={"dataflow_only": True, "no_frame": True, "independent_iterations": {0: ["def_issues"]}}, ensures={})

# C09 "a duplicate name is reported and ignored", for merging a whole definition source into this dictionary: every entry of the source
# arrives unless its name is taken, entries already here are never replaced, nothing else appears
contract("C09.merging_a_source_keeps_what_is_here_and_adds_the_rest", file=D, func="DefinitionDict._add_definitions_from_dict",
         params={"self": "DefinitionDictM", "def_dict": "Map[Str,DefEntrySrc]"}, returns=None, enc="native", self_class="DefinitionDictM",
         modifies=["heap:DefinitionDictM.defs", "heap:DefinitionDictM._issues"],
         ensures={
             "C09.merge.entries_already_here_are_kept": "forall_str(lambda p: implies(p in old(self.defs), p in self.defs and self.defs[p] is old(self.defs)[p]))",
             "C09.merge.every_new_name_arrives_with_its_entry":
                 "forall_str(lambda p: implies(p in def_dict and p not in old(self.defs), p in self.defs and self.defs[p] is def_dict[p]))",
             "C09.merge.nothing_else_appears": "forall_str(lambda p: implies(p in self.defs, p in old(self.defs) or p in def_dict))",
             "C09.merge.no_clash_no_issue": "implies(forall_str(lambda p: not (p in def_dict and p in old(self.defs))), len(self._issues) == len(old(self._issues)))",
             "C09.merge.a_clash_is_reported": "implies(not forall_str(lambda p: not (p in def_dict and p in old(self.defs))), len(self._issues) > len(old(self._issues)))",
         },
         loops={0: {"invariant": [
             "forall_str(lambda p: implies(p in old(self.defs), p in self.defs and self.defs[p] is old(self.defs)[p]))",
             "all(_iter0[k][0] in self.defs and implies(_iter0[k][0] not in old(self.defs), self.defs[_iter0[k][0]] is _iter0[k][1]) for k in range(_n))",
             "forall_str(lambda p: implies(p in self.defs, p in old(self.defs) or any(_iter0[k][0] == p for k in range(_n))))",
             "len(self._issues) >= len(old(self._issues))",
             "(len(self._issues) == len(old(self._issues))) == all(_iter0[k][0] not in old(self.defs) for k in range(_n))",
         ]}},
         assume=["only the dict form of the source is covered (a DefinitionDict source answers .items() with its defs.items())",
                 "frame: self is the only dictionary object the function can reach (the loop cut forgets the field of all)"])

# C09 mechanism "value/unit checks through the placeholder tag" (also C11): the value of a Def / Def-expand whose definition takes a value is
# judged by the rules of the tag that carries the '#' in the definition's content - validate_units is asked ONCE, about that tag, with the
# value text, reporting at the Def tag itself, under the Def / Def-expand code, with the offset of the value inside the Def's extension; the
# issues of the name check and of the value check are both handed back, in that order
DVF = "hed/validator/def_validator.py"
class_model("DefEntryW3", {"takes_value": "Bool"})
class_model("DefValidatorW3", {"defs": "Map[Str,DefEntryW3]"})
class_model("ExpansionW3", {"__bool__": "Bool"})
class_model("ExpansionInnerW3", {})
class_model("UnitValidatorW3", {})
class_model("HedValidatorW3", {"_unit_validator": "UnitValidatorW3"})
if _z_w3 is not None:
    from pyvc.vals import TOpt as _TOpt_w3

    def _fresh_issue_list_w3(interp, hint):
        ty = _TList_w3(_TRef_w3("Issue"))
        cell = interp.ctx.fresh(ty, hint)
        cell.fresh = True            # a list built by the callee: the caller may extend it
        return cell, _SV_w3(ty, cell.sym.t)

    def _entry_expansion_w3(interp, args, kwargs):
        """DefinitionEntry.get_definition(tag, placeholder_value=v, return_copy_of_tag=True): the view expansion_w3(entry, tag, v); the call
        must ask for a copy of the tag (the expansion is thrown away after the check - the annotation's own tag must not be adopted by it)"""
        ty = _TOpt_w3(_TRef_w3("ExpansionW3"))
        f = _z_w3.Function("expansion_w3", _z_w3.IntSort(), _z_w3.IntSort(), _z_w3.StringSort(), _sort_of_w3(ty))
        val = kwargs.get("placeholder_value", args[2] if len(args) > 2 else None)
        cp = kwargs.get("return_copy_of_tag", args[3] if len(args) > 3 else False)
        interp.ctx.oblige("call-pre", "get_definition.works_on_a_copy_of_the_tag", _z_w3.BoolVal(cp is True), top=True,
                          info={"callee": "DefinitionEntry.get_definition", "clause": "return_copy_of_tag=True"})
        return _SV_w3(ty, f(args[0].t, args[1].t, interp.ctx.strs.to_native(val)))

    def _expansion_w3_spec(interp, args, kwargs):
        ty = _TOpt_w3(_TRef_w3("ExpansionW3"))
        f = _z_w3.Function("expansion_w3", _z_w3.IntSort(), _z_w3.IntSort(), _z_w3.StringSort(), _sort_of_w3(ty))
        return _SV_w3(ty, f(args[0].t, args[1].t, interp.ctx.strs.to_native(args[2])))

    def _ref_w3(v):
        """an optional object denotes its value (the clause guards the None case)"""
        return _sort_of_w3(v.ty).val(v.t) if v.ty.name == "Opt" else v.t

    def _first_group_w3(interp, args, kwargs):
        f = _z_w3.Function("first_group_w3", _z_w3.IntSort(), _z_w3.IntSort())
        return _SV_w3(_TRef_w3("ExpansionInnerW3"), f(_ref_w3(args[0])))

    def _placeholder_tag_w3(interp, args, kwargs):
        ty = _TOpt_w3(_TRef_w3("HedTag"))
        f = _z_w3.Function("placeholder_tag_w3", _z_w3.IntSort(), _sort_of_w3(ty))
        return _SV_w3(ty, f(_ref_w3(args[0])))

    def _check_value_class_w3(interp, args, kwargs):
        g = interp.ctx.ghost
        cell, snap = _fresh_issue_list_w3(interp, "name_issues")
        g["vc_calls"] = _SV_w3(_INT_w3, interp.ctx.term(g["vc_calls"], _INT_w3) + 1)
        g["vc_tag"], g["vc_text"], g["vc_result"] = args[1], args[2], snap
        g["vc_code"] = kwargs.get("error_code")
        return cell

    def _validate_units_w3(interp, args, kwargs):
        g = interp.ctx.ghost
        cell, snap = _fresh_issue_list_w3(interp, "unit_issues")
        g["vu_calls"] = _SV_w3(_INT_w3, interp.ctx.term(g["vu_calls"], _INT_w3) + 1)
        g["vu_tag"], g["vu_text"], g["vu_result"] = args[1], args[2], snap
        g["vu_report_as"], g["vu_code"], g["vu_offset"] = kwargs.get("report_as"), kwargs.get("error_code"), kwargs.get("index_offset")
        return cell
    EXTERNS["DefEntryW3.get_definition"] = _entry_expansion_w3
    EXTERNS["expansion_w3"] = _expansion_w3_spec
    EXTERNS["ExpansionW3.get_first_group"] = _first_group_w3
    EXTERNS["first_group_w3"] = _first_group_w3
    EXTERNS["ExpansionInnerW3.find_placeholder_tag"] = _placeholder_tag_w3
    EXTERNS["placeholder_tag_w3"] = _placeholder_tag_w3
    EXTERNS["UnitValidatorW3._check_value_class"] = _check_value_class_w3
    EXTERNS["HedValidatorW3.validate_units"] = _validate_units_w3
    EXTERNS["no_issues_w3"] = lambda interp, args, kwargs: _SV_w3(_TList_w3(_TRef_w3("Issue")), _fresh_issue_list_w3(interp, "none")[1].t)
_LBL = "def_tag.extension.partition('/')[0]"
_VAL = "def_tag.extension.partition('/')[2]"
_EXP = "expansion_w3(self.defs[" + _LBL + ".casefold()], def_tag, " + _VAL + ")"
_PT = "placeholder_tag_w3(first_group_w3(" + _EXP + "))"
_JUDGED = "(" + _LBL + ".casefold() in self.defs and " + _EXP + " is not None and " + _EXP + ".__bool__ and self.defs[" + _LBL + ".casefold()].takes_value)"
contract("C09.def_value_is_judged_by_the_placeholder_tags_rules", file=DVF, func="DefValidator.validate_def_value_units",
         params={"self": "DefValidatorW3", "def_tag": "HedTag", "hed_validator": "HedValidatorW3", "allow_placeholders": "Bool"},
         returns="List[Issue]", enc="native", self_class="DefValidatorW3", also=["C11"],
         ghost={"init": {"vc_calls": "0", "vu_calls": "0", "vc_tag": "None", "vc_text": "''", "vc_code": "''", "vc_result": "no_issues_w3()",
                         "vu_tag": "None", "vu_text": "''", "vu_report_as": "None", "vu_code": "''", "vu_offset": "-1",
                         "vu_result": "no_issues_w3()"}},
         lets={"code": "('DEF_EXPAND_INVALID' if def_tag.short_base_tag == 'Def-expand' else 'DEF_INVALID')"},
         ensures={
             "C09.defvalue.unknown_definition_is_left_to_the_def_check": "implies(" + _LBL + ".casefold() not in self.defs, len(result) == 0"
                                                                          " and vc_calls == 0 and vu_calls == 0)",
             "C09.defvalue.name_is_checked_under_the_def_or_def_expand_code":
                 "implies(" + _LBL + ".casefold() in self.defs, vc_calls == 1 and vc_tag is def_tag and vc_text == " + _LBL + " and vc_code == code)",
             "C09.defvalue.value_judged_once_by_the_placeholder_tag_reported_at_the_def_tag":
                 "implies(" + _JUDGED + ", vu_calls == 1 and vu_tag == " + _PT + " and vu_report_as is def_tag and vu_code == code"
                 " and vu_offset == len(" + _LBL + ") + 1)",
             "C09.defvalue.text_judged_is_the_placeholder_tags_value_without_the_hash_prefix":
                 "implies(" + _JUDGED + " and " + _PT + " is not None, vu_text == (" + _PT + ".extension[2:] if " + _PT + ".extension.startswith('# ')"
                 " else " + _PT + ".extension))",
             "C09.defvalue.no_value_no_unit_check": "implies(" + _LBL + ".casefold() in self.defs and not " + _JUDGED + ", vu_calls == 0)",
             "C09.defvalue.issues_of_both_checks_are_handed_back":
                 "implies(" + _LBL + ".casefold() in self.defs, len(result) == len(vc_result) + (len(vu_result) if vu_calls == 1 else 0)"
                 " and all(result[k] is vc_result[k] for k in range(len(vc_result)))"
                 " and implies(vu_calls == 1, all(result[len(vc_result) + k] is vu_result[k] for k in range(len(vu_result)))))",
         },
         assume=["DefinitionEntry.get_definition / get_first_group / find_placeholder_tag are deterministic views (expansion_w3, first_group_w3, "
                 "placeholder_tag_w3); _check_value_class and validate_units hand back lists of their own; a validator object is truthy",
                 "only calls with a validator are covered (every call site passes one)"])

# ------------------------------------------------------------------------------------------------------------------------------- C20
EMF = "hed/tools/analysis/event_manager.py"
TEF = "hed/tools/analysis/temporal_event.py"
class_model("TemporalEventW3", {"start_index": "Int", "start_time": "Real", "end_index": "Opt[Int]", "end_time": "Opt[Real]"})
class_model("EventManagerW3", {"onsets": "List[Real]", "event_list": "List[List[TemporalEventW3]]"})

# C20 "a process ... lasts until the next Onset or Offset of the same name or else to the end of the file": closing a process records
# exactly the row and the time it is closed at (and touches nothing else of the process)
contract("C20.closing_a_process_records_the_row_and_time_given", file=TEF, func="TemporalEvent.set_end",
         params={"self": "TemporalEventW3", "end_index": "Opt[Int]", "end_time": "Opt[Real]"}, returns=None, enc="native",
         self_class="TemporalEventW3", modifies=["self.end_index", "self.end_time"],
         ensures={"C20.end.row_is_the_row_given": "self.end_index == end_index",
                  "C20.end.time_is_the_time_given": "self.end_time == end_time",
                  "C20.end.start_is_kept": "self.start_index == old(self.start_index) and self.start_time == old(self.start_time)"})

# models shared by the row scans: one assembled row (truthy unless empty), a top-level temporal group of it
class_model("TemporalGroupW3", {})
class_model("EventRowW3", {"__bool__": "Bool"})
if _z_w3 is not None:
    from pyvc.vals import REAL as _REAL_w3

    def _row_remove_w3(interp, args, kwargs):
        """HedString.remove(groups): the ghost state remembers which list of groups was taken out of the row"""
        g = interp.ctx.ghost
        lst = args[1]
        if isinstance(lst, _Cell_w3) and lst.sym is None:
            interp.symbolise(lst, _TList_w3(_TRef_w3("TemporalGroupW3")))
        g["removed_calls"] = _SV_w3(_INT_w3, interp.ctx.term(g["removed_calls"], _INT_w3) + 1)
        g["removed"] = _SV_w3(lst.sym.ty, lst.sym.t)
        return None

    def _planned_end_w3(interp, args, kwargs):
        """what TemporalEvent.__init__ leaves in end_time for this group started at this time (start + Duration value, or None)"""
        ty = _TOpt_w3(_REAL_w3)
        f = _z_w3.Function("planned_end_w3", _z_w3.IntSort(), _z_w3.RealSort(), _sort_of_w3(ty))
        return _SV_w3(ty, f(args[0].t, interp.ctx.term(args[1], _REAL_w3)))

    def _bisect_left_w3(interp, args, kwargs):
        """bisect.bisect_left(L, x) for a list of numbers: what binary search guarantees on ANY list - a position r in 0..len(L) with
        L[r-1] < x (if r > 0) and L[r] >= x (if r < len(L)); on a non-decreasing list that is the partition point"""
        ctx = interp.ctx
        lst = args[0]
        if len(args) != 2 or kwargs or not (isinstance(lst, _Cell_w3) and lst.sym is not None and lst.sym.ty == _TList_w3(_REAL_w3)):
            from pyvc.vals import Unsupported
            raise Unsupported("bisect_left other than (list of reals, x)")
        so = _sort_of_w3(lst.sym.ty)
        L, n = so.data(lst.sym.t), so.len(lst.sym.t)
        x = ctx.term(args[1], _REAL_w3)
        r = _z_w3.Int(ctx.fresh_name("bisect"))
        ctx.assume(_z_w3.And(0 <= r, r <= n))
        ctx.assume(_z_w3.Implies(r > 0, _z_w3.Select(L, r - 1) < x))
        ctx.assume(_z_w3.Implies(r < n, _z_w3.Select(L, r) >= x))
        return _SV_w3(_INT_w3, r)
    EXTERNS["EventRowW3.remove"] = _row_remove_w3
    EXTERNS["no_groups_w3"] = lambda interp, args, kwargs: _SV_w3(
        _TList_w3(_TRef_w3("TemporalGroupW3")), interp.ctx.fresh(_TList_w3(_TRef_w3("TemporalGroupW3")), "nogroups").sym.t)
    EXTERNS["planned_end_w3"] = _planned_end_w3

    def _no_events_w3(interp, args, kwargs):
        ty = _TList_w3(_TRef_w3("TemporalEventW3"))
        cell = interp.ctx.fresh(ty, "noevents")
        interp.ctx.assume(_sort_of_w3(ty).len(cell.sym.t) == 0)
        return cell

    def _with_event_w3(interp, args, kwargs):
        """with_event_w3(L, e): the list L followed by e, as a new value (specification only)"""
        from pyvc.core import mem_fn
        ty = _TList_w3(_TRef_w3("TemporalEventW3"))
        so = _sort_of_w3(ty)
        t = interp.ctx.term(args[0], ty)
        x = interp.ctx.term(args[1], ty.args[0])
        r = so.mk(_z_w3.Store(so.data(t), so.len(t), x), so.len(t) + 1)
        e = _z_w3.Const(interp.ctx.fresh_name("e"), _z_w3.IntSort())
        interp.ctx.assume(_z_w3.ForAll([e], mem_fn(ty)(r, e) == _z_w3.Or(mem_fn(ty)(t, e), e == x)))
        return interp.ctx.wrap(r, ty)
    EXTERNS["no_events_w3"] = _no_events_w3
    EXTERNS["with_event_w3"] = _with_event_w3
    EXTERNS["bisect.bisect_left"] = _bisect_left_w3
# the constructor, as far as the row scans need it: TemporalEvent(group, i, t) is an object allocated by the call that starts at row i and
# time t, has no end row yet, and whose end_time is a function of the group and the start (start + Duration value, or None).  Proved on the raw
# attribute model as C20.process_start_is_the_row_onset / C20.split_group; here a python-side model, so that the new object carries the class
# model of this file (the registered model TemporalEvent has no end_time)
if _z_w3 is not None:
    def _new_temporal_event_w3(interp, args, kwargs):
        obj = interp.new_object("TemporalEventW3")
        t0 = _SV_w3(_REAL_w3, interp.ctx.term(args[2], _REAL_w3))
        interp.field_write(obj, "start_index", args[1])
        interp.field_write(obj, "start_time", t0)
        interp.field_write(obj, "end_index", None)
        interp.field_write(obj, "end_time", _planned_end_w3(interp, [args[0], t0], {}))
        return obj
    EXTERNS["TemporalEvent"] = _new_temporal_event_w3

# C20 "one given by a Duration group lasts until the first time point at or after start plus duration": every top-level Duration group of
# a row becomes a process that starts at this row and time and ends at the FIRST row whose onset is not earlier than the planned end
# (within the documented tolerance 1e-9), or after the last row; every Duration group is taken out of the row
class_model("DurationTagW3", {})
if _z_w3 is not None:
    def _duration_groups_w3(interp, args, kwargs):
        ty = _TList_w3(_TTuple_w3(_TRef_w3("DurationTagW3"), _TRef_w3("TemporalGroupW3")))
        f = _z_w3.Function("duration_groups_w3", _z_w3.IntSort(), _sort_of_w3(ty))
        return interp.ctx.wrap(f(args[0].t), ty).sym

    def _find_duration_groups_w3(interp, args, kwargs):
        keys = args[1] if len(args) > 1 else kwargs.get("anchor_tags")
        inc = args[2] if len(args) > 2 else kwargs.get("include_groups", 2)
        ok = isinstance(keys, _Cell_w3) and keys.sym is None and set(keys.conc) == {"Duration"} and inc == 2
        interp.ctx.oblige("call-pre", "find_top_level_tags.anchored_at_Duration", _z_w3.BoolVal(bool(ok)), top=True,
                          info={"callee": "HedString.find_top_level_tags", "clause": "anchor_tags == {'Duration'}, include_groups == 2"})
        return _duration_groups_w3(interp, [args[0]], {})
    EXTERNS["duration_groups_w3"] = _duration_groups_w3
    EXTERNS["DurationRowW3.find_top_level_tags"] = _find_duration_groups_w3
    EXTERNS["DurationRowW3.remove"] = _row_remove_w3
class_model("DurationRowW3", {"__bool__": "Bool"})
_DG = "duration_groups_w3(hed)"
_T0 = "self.onsets[event_index]"
_END = "planned_end_w3(" + _DG + "[{k}][1], " + _T0 + ")"
_EV = "made[{k}]"
_DUR_PROC = ("fresh(" + _EV + ") and " + _EV + ".start_index == event_index and " + _EV + ".start_time == " + _T0 + " and " + _EV + ".end_time == " + _END +
             " and " + _EV + ".end_index is not None and 0 <= " + _EV + ".end_index and " + _EV + ".end_index <= len(self.onsets)"
             " and all((self.onsets[i] < " + _END + " - 1e-9) == (i < " + _EV + ".end_index) for i in range(len(self.onsets)))")
_KEEP_END = ("all(el0[a][b].end_index == old(el0[a][b].end_index) and"
             " el0[a][b].end_time == old(el0[a][b].end_time)"
             " for a in range(len(el0)) for b in range(len(el0[a])))")
contract("C20.duration_process_ends_at_the_first_row_not_before_its_end", file=EMF, func="EventManager._extract_duration_events",
         params={"self": "EventManagerW3", "hed": "DurationRowW3", "event_index": "Int"}, returns=None, enc="native", self_class="EventManagerW3",
         requires=["0 <= event_index and event_index < len(self.onsets) and len(self.event_list) == len(self.onsets)",
                   "all(self.onsets[i] <= self.onsets[j] for j in range(len(self.onsets)) for i in range(j))",      # files out of order are rejected
                   "all(" + _END.format(k="k") + " is not None for k in range(len(" + _DG + ")))",              # a Duration group has its value
                   # (objects listed at entry exist at entry - the engine states this for flat lists only)
                   "all(not fresh(self.event_list[a][b]) for a in range(len(self.event_list)) for b in range(len(self.event_list[a])))"],
         modifies=["heap:EventManagerW3.event_list", "heap:TemporalEventW3.end_index", "heap:TemporalEventW3.end_time"],
         locals={"to_remove": "List[TemporalGroupW3]"},
         # (el0: the lists as they are at entry, taken as a VALUE - old(self.event_list) of a list field that a loop havocs is not reliable)
         ghost={"init": {"removed_calls": "0", "removed": "no_groups_w3()", "el0": "self.event_list[:]", "n0": "len(self.event_list[event_index])",
                         "made": "no_events_w3()"},
                # (made: the processes created so far, as a flat ghost list - the engine knows of a flat list that its members exist already)
                "update": [("assign:new_event", "made = with_event_w3(made, new_event)")]},
         ensures={
             "C20.duration.processes_listed_anywhere_before_keep_their_end": _KEEP_END,
             "C20.duration.one_process_per_duration_group_listed_at_this_row":
                 "len(self.event_list) == len(el0) and"
                 " len(self.event_list[event_index]) == len(el0[event_index]) + len(" + _DG + ")",
             "C20.duration.process_starts_here_and_ends_at_the_first_row_at_or_after_its_end_within_tolerance":
                 "len(made) == len(" + _DG + ") and all(self.event_list[event_index][j] is made[j - n0] for j in range(n0, n0 + len(" + _DG + ")))"
                 " and all(" + _DUR_PROC.format(k="k") + " for k in range(len(" + _DG + ")))",
             "C20.duration.processes_listed_before_are_kept":
                 "all(self.event_list[event_index][k] is el0[event_index][k] for k in range(len(el0[event_index])))"
                 " and all(self.event_list[i] == el0[i] for i in range(len(self.event_list)) if i != event_index)",
             "C20.duration.every_duration_group_is_taken_out_of_the_row":
                 "removed_calls == 1 and len(removed) == len(" + _DG + ") and all(removed[k] is " + _DG + "[k][1] for k in range(len(" + _DG + ")))",
         },
         loops={0: {"ghost": {"made": "List[TemporalEventW3]"}, "invariant": [
             "len(made) == _n",
             "all(self.event_list[event_index][j] is made[j - n0] for j in range(n0, n0 + _n))",
             _KEEP_END,
             "len(self.event_list) == len(el0) and len(self.event_list[event_index]) == len(el0[event_index]) + _n",
             "all(" + _DUR_PROC.format(k="k") + " for k in range(_n))",
             "all(self.event_list[event_index][k] is el0[event_index][k] for k in range(len(el0[event_index])))",
             "all(self.event_list[i] == el0[i] for i in range(len(self.event_list)) if i != event_index)",
             "len(to_remove) == _n and all(to_remove[k] is " + _DG + "[k][1] for k in range(_n))",
         ]}},
         assume=["HedString.find_top_level_tags({Duration}) is the deterministic view duration_groups_w3(row); HedString.remove(list) takes exactly "
                 "the listed groups out; bisect.bisect_left on a non-decreasing list is the partition point",
                 "the onset column is a list of numbers here (it is a pandas Series in the real object; bisect and indexing see the same numbers)",
                 "frame: the loop cut forgets event_list / end_index / end_time of every object; what the clauses need of it is stated "
                 "(processes listed before keep their end, other rows keep their lists)"])

# C20 "reports for each time point, as its context, exactly the event processes ...": the filtered start list / context of row i is computed
# from row i's OWN start list / context text (never from the other list or another row), with the enclosing group removed along with a
# removed type tag; one entry per row
class_model("EventManagerUCW3", {"hed_strings": "List[HedString]", "base": "List[Str]", "contexts": "List[Str]"})
if _z_w3 is not None:
    def _filtered_w3(interp, args, kwargs):
        f = _z_w3.Function("filtered_w3", _z_w3.StringSort(), _z_w3.BoolSort(), _z_w3.StringSort())
        return _SV_w3(_STR_w3, f(interp.ctx.strs.to_native(args[0]), interp.ctx.term(args[1], _BOOL_w3)))

    def _filter_hed_w3(interp, args, kwargs):
        """EventManager._filter_hed(text, remove_types=, remove_defs=, remove_group=): for fixed type / definition lists a function of the
        text and the remove_group flag (C20.filter_hed_works_on_a_copy: it keeps no state)"""
        grp = kwargs.get("remove_group", args[4] if len(args) > 4 else False)
        return _filtered_w3(interp, [args[1], grp], {})
    EXTERNS["filtered_w3"] = _filtered_w3
    EXTERNS["EventManagerUCW3._filter_hed"] = _filter_hed_w3
contract("C20.row_context_is_filtered_from_the_rows_own_context", file=EMF, func="EventManager._get_base_contexts",
         params={"self": "EventManagerUCW3", "remove_types": "Opaque", "remove_defs": "Opaque"}, returns="Tuple[List[Str],List[Str]]",
         enc="native", self_class="EventManagerUCW3", locals={"new_base": "List[Str]", "new_contexts": "List[Str]"},
         requires=["len(self.base) == len(self.hed_strings) and len(self.contexts) == len(self.hed_strings)"],     # _extract_context builds both per row
         ensures={
             "C20.unfold.one_entry_per_row": "len(result[0]) == len(self.hed_strings) and len(result[1]) == len(self.hed_strings)",
             "C20.unfold.start_list_of_row_i_comes_from_its_own_start_list":
                 "all(result[0][i] == filtered_w3(self.base[i], True) for i in range(len(self.hed_strings)))",
             "C20.unfold.context_of_row_i_comes_from_its_own_context":
                 "all(result[1][i] == filtered_w3(self.contexts[i], True) for i in range(len(self.hed_strings)))",
         },
         loops={0: {"invariant": [
             "len(new_base) == len(self.hed_strings) and len(new_contexts) == len(self.hed_strings)",
             "all(new_base[i] == filtered_w3(self.base[i], True) for i in range(_n))",
             "all(new_contexts[i] == filtered_w3(self.contexts[i], True) for i in range(_n))"]}},
         assume=["_filter_hed is, for the type / definition lists of one call, a function of the text and the remove_group flag (view filtered_w3)"])

# C20 "a process started by an Onset lasts until the next Onset or Offset of the same name": the open-process dictionary of one row.
# Markers of the row are the view temporal_groups_w3(row) = (marker tag, group) pairs; the process name is the case-folded extension (name
# with value) of the group's first Def tag.
class_model("MarkerTagW3", {"__str__": "Str"})
if _z_w3 is not None:
    def _temporal_groups_w3(interp, args, kwargs):
        ty = _TList_w3(_TTuple_w3(_TRef_w3("MarkerTagW3"), _TRef_w3("TemporalGroupW3")))
        f = _z_w3.Function("temporal_groups_w3", _z_w3.IntSort(), _sort_of_w3(ty))
        return interp.ctx.wrap(f(args[0].t), ty).sym

    def _find_temporal_groups_w3(interp, args, kwargs):
        """HedString.find_top_level_tags(anchor_tags={'Onset','Offset'}, include_groups=2): the call must anchor at exactly Onset and Offset
        (an Inset does not open or close a process) and ask for (tag, group)"""
        keys = args[1] if len(args) > 1 else kwargs.get("anchor_tags")
        inc = args[2] if len(args) > 2 else kwargs.get("include_groups", 2)
        ok = isinstance(keys, _Cell_w3) and keys.sym is None and set(keys.conc) == {"Onset", "Offset"} and inc == 2
        interp.ctx.oblige("call-pre", "find_top_level_tags.anchored_at_Onset_and_Offset", _z_w3.BoolVal(bool(ok)), top=True,
                          info={"callee": "HedString.find_top_level_tags", "clause": "anchor_tags == {'Onset', 'Offset'}, include_groups == 2"})
        return _temporal_groups_w3(interp, [args[0]], {})

    def _group_def_tags_w3(interp, args, kwargs):
        rec = kwargs.get("recursive", args[1] if len(args) > 1 else False)
        inc = kwargs.get("include_groups", args[2] if len(args) > 2 else 3)
        interp.ctx.oblige("call-pre", "find_def_tags.own_def_tags_only", _z_w3.BoolVal(rec is False and inc == 0 and inc is not False), top=True,
                          info={"callee": "HedGroup.find_def_tags", "clause": "recursive=False, include_groups=0"})
        return _ul_w3("def_tags_of", 1, "HedTag")(interp, [args[0]], {})

    EXTERNS["temporal_groups_w3"] = _temporal_groups_w3
    EXTERNS["EventRowW3.find_top_level_tags"] = _find_temporal_groups_w3
    EXTERNS["TemporalGroupW3.find_def_tags"] = _group_def_tags_w3
_TM = "temporal_groups_w3(hed)"
_PN = "def_tags_of(" + _TM + "[{k}][1])[0].extension.casefold()"
_ISON = "(" + _TM + "[{k}][0].__str__ == 'Onset')"
_NOW = "self.onsets[event_index]"
_OLDP = "old(onset_dict)[p]"
_XT_KEPT = "(p in old(onset_dict) and p in onset_dict and onset_dict[p] is " + _OLDP + ")"
_XT_INV = [
    # a process that was open at entry is either still the open one of its name, with its end untouched, or it was closed HERE and NOW
    "forall_str(lambda p: implies(p in old(onset_dict), (p in onset_dict and onset_dict[p] is " + _OLDP + " and"
    " " + _OLDP + ".end_index == old(" + _OLDP + ".end_index) and " + _OLDP + ".end_time == old(" + _OLDP + ".end_time))"
    " or (" + _OLDP + ".end_index == event_index and " + _OLDP + ".end_time == " + _NOW + ")))",
    # whatever else is open now was created by this call
    "forall_str(lambda p: implies(p in onset_dict and not " + _XT_KEPT + ", onset_dict[p] in made))",
    # every process created by this call starts at this row and time and is listed among the processes of this row
    "all(fresh(made[k]) and made[k].start_index == event_index and made[k].start_time == " + _NOW +
    " and made[k] in self.event_list[event_index] for k in range(len(made)))",
    "len(self.event_list) == len(el0)",
    "all(self.event_list[i] == el0[i] for i in range(len(self.event_list)) if i != event_index)",
    "len(self.event_list[event_index]) == len(el0[event_index]) + len(made)"
    " and all(self.event_list[event_index][k] is el0[event_index][k] for k in range(len(el0[event_index])))",
]
contract("C20.onset_opens_and_offset_or_new_onset_closes_the_process_of_its_name", file=EMF, func="EventManager._extract_temporal_events",
         params={"self": "EventManagerW3", "hed": "EventRowW3", "event_index": "Int", "onset_dict": "Map[Str,TemporalEventW3]"},
         returns=None, enc="native", self_class="EventManagerW3",
         requires=["0 <= event_index and event_index < len(self.onsets) and len(self.event_list) == len(self.onsets)",
                   # a valid row: every temporal group has its Def tag, markers are written 'Onset' / 'Offset'
                   "all(len(def_tags_of(" + _TM + "[k][1])) > 0 and (" + _TM + "[k][0].__str__ == 'Onset' or " + _TM + "[k][0].__str__ == 'Offset')"
                   " for k in range(len(" + _TM + ")))",
                   # (objects reachable at entry exist at entry - the engine states this for flat lists only)
                   "forall_str(lambda p: implies(p in onset_dict, not fresh(onset_dict[p])))",
                   "all(not fresh(self.event_list[a][b]) for a in range(len(self.event_list)) for b in range(len(self.event_list[a])))"],
         raises={"KeyError": True},
         modifies=["onset_dict", "heap:EventManagerW3.event_list", "heap:TemporalEventW3.end_index", "heap:TemporalEventW3.end_time"],
         locals={"to_remove": "List[TemporalGroupW3]"},
         ghost={"init": {"removed_calls": "0", "removed": "no_groups_w3()", "el0": "self.event_list[:]", "made": "no_events_w3()"},
                "update": [("assign:new_event", "made = with_event_w3(made, new_event)")]},
         ensures={
             "C20.row.open_processes_are_kept_or_closed_at_this_row_and_time": _XT_INV[0],
             "C20.row.processes_opened_here_start_at_this_row_and_time_and_are_listed_at_it":
                 "forall_str(lambda p: implies(p in onset_dict and not " + _XT_KEPT + ", fresh(onset_dict[p]) and onset_dict[p].start_index == event_index"
                 " and onset_dict[p].start_time == " + _NOW + " and onset_dict[p] in self.event_list[event_index]))",
             "C20.row.other_rows_and_earlier_processes_of_this_row_are_kept": _XT_INV[3] + " and " + _XT_INV[4] +
                 " and all(self.event_list[event_index][k] is el0[event_index][k] for k in range(len(el0[event_index])))",
             "C20.row.last_marker_of_a_name_decides_whether_it_is_open":
                 "implies(hed.__bool__, all(implies(all(" + _PN.format(k="j") + " != " + _PN.format(k="k") + " for j in range(k + 1, len(" + _TM + "))),"
                 " (" + _PN.format(k="k") + " in onset_dict) == " + _ISON.format(k="k") + ") for k in range(len(" + _TM + "))))",
             "C20.row.names_without_marker_stay_as_they_were":
                 "forall_str(lambda p: implies(not hed.__bool__ or all(" + _PN.format(k="k") + " != p for k in range(len(" + _TM + "))),"
                 " (p in onset_dict) == (p in old(onset_dict)) and implies(p in onset_dict, onset_dict[p] is old(onset_dict)[p])))",
             "C20.row.every_temporal_group_is_taken_out_of_the_row":
                 "implies(hed.__bool__, removed_calls == 1 and len(removed) == len(" + _TM + ") and"
                 " all(removed[k] is " + _TM + "[k][1] for k in range(len(" + _TM + "))))",
         },
         loops={0: {"ghost": {"made": "List[TemporalEventW3]"}, "invariant": _XT_INV + [
             "all(implies(all(" + _PN.format(k="j") + " != " + _PN.format(k="k") + " for j in range(k + 1, _n)),"
             " (" + _PN.format(k="k") + " in onset_dict) == " + _ISON.format(k="k") + ") for k in range(_n))",
             "forall_str(lambda p: implies(all(" + _PN.format(k="k") + " != p for k in range(_n)),"
             " (p in onset_dict) == (p in old(onset_dict)) and implies(p in onset_dict, onset_dict[p] is old(onset_dict)[p])))",
             "len(to_remove) == _n and all(to_remove[k] is " + _TM + "[k][1] for k in range(_n))",
         ]}},
         assume=["HedString.find_top_level_tags({Onset, Offset}, include_groups=2) / HedGroup.find_def_tags(recursive=False, include_groups=0) are the "
                 "deterministic views temporal_groups_w3 / def_tags_of; HedString.remove(list) takes exactly the listed groups out",
                 "a marker tag compares equal to 'Onset' / 'Offset' through its text (markers written in short form, as the requires says)",
                 "an Offset whose name is not open raises KeyError (not a HedFileError): admitted by the raises clause, the clauses speak about "
                 "rows that are processed",
                 "frame: the loop cut forgets event_list / end_index / end_time of every object; what the clauses need of it is stated"])

# ------------------------------------------------------------------------------------------------------ C09: gathering from Def-expand groups
# C09 "validation accepts a Def-expand group exactly when its content equals that expansion up to sibling order", for the gatherer that learns
# definitions from written-out expansions: a Def-expand of a KNOWN definition is compared (after sorting) with that definition's expansion and
# recorded as an error of its case-folded name when it differs; an unknown name WITHOUT value becomes a definition (case-folded name, no value,
# sorted copy of the content); an unknown name with a value is left to the ambiguity resolution unless that name already has errors
GF = "hed/models/def_expand_gather.py"
class_model("DefExpandGroupW3", {"sorted_w3": "Bool"})
CLASSES["DefExpandGroupW3"]["structural_eq"] = True
class_model("DefExpandGathererW3", {"def_dict": "DefinitionDictW3", "errors": "Map[Str,List[DefContentW3]]",
                                    "ambiguous_defs": "Map[Str,AmbiguousDefW3]"})
class_model("AmbiguousDefW3", {"actual_defs": "List[DefContentW3]", "placeholder_defs": "List[DefContentW3]"})
if _z_w3 is not None:
    def _first_content_w3(interp, args, kwargs):
        f = _z_w3.Function("first_content_w3", _z_w3.IntSort(), _z_w3.IntSort())
        return _SV_w3(_TRef_w3("DefContentW3"), f(args[0].t))
    EXTERNS["first_content_w3"] = _first_content_w3
    EXTERNS["DefExpandGroupW3.get_first_group"] = _first_content_w3
    EXTERNS["DefExpandGroupW3.sort"] = _content_sort_w3
_GN = "def_tag.extension.split('/')[0]"
_GLBL = "def_tag.extension.partition('/')[0].casefold()"
_GEXP = "expansion_of(self.def_dict.defs[" + _GLBL + "], def_tag, def_tag.extension.partition('/')[2])"
_KNOWN = "old(" + _GLBL + " in self.def_dict.defs and " + _GEXP + " is not None and " + _GEXP + ".__bool__)"
_GKEY = _GN + ".casefold()"
contract("C09.gathered_def_expand_of_a_known_definition_is_compared_and_an_unknown_plain_one_is_learned", file=GF,
         func="DefExpandGatherer._handle_known_definition",
         params={"self": "DefExpandGathererW3", "def_tag": "HedTag", "def_expand_group": "DefExpandGroupW3", "def_group": "Opaque"},
         returns="Bool", enc="native", self_class="DefExpandGathererW3",
         # ("obj.defs" = self.def_dict.defs; "non-fresh container" = the error list stored INSIDE self.errors that setdefault(...) hands out:
         #  the engine has no aliasing for a list stored in a dict, so WHAT is appended to the error lists is not covered by any clause)
         modifies=["self.errors", "obj.defs", "heap:DefinitionDictW3.defs", "non-fresh container", "def_expand_group.sorted_w3"],
         ensures={
             "C09.gather.known_definition_is_handled_and_the_dictionary_untouched":
                 "implies(" + _KNOWN + ", result and same_keys(self.def_dict.defs, old(self.def_dict.defs))"
                 " and forall_str(lambda p: implies(p in self.def_dict.defs, self.def_dict.defs[p] is old(self.def_dict.defs)[p])))",
             "C09.gather.unknown_name_without_value_is_learned_under_the_case_folded_name":
                 "implies(not " + _KNOWN + " and '/' not in def_tag.extension, result and map_eq_except_add(self.def_dict.defs, old(self.def_dict.defs), "
                 + _GKEY + ") and fresh(self.def_dict.defs[" + _GKEY + "]) and self.def_dict.defs[" + _GKEY + "].name == " + _GN +
                 " and not self.def_dict.defs[" + _GKEY + "].takes_value)",
             "C09.gather.learned_content_is_a_sorted_copy_of_the_groups_content":
                 "implies(not " + _KNOWN + " and '/' not in def_tag.extension and old(first_content_w3(def_expand_group).__bool__),"
                 " self.def_dict.defs[" + _GKEY + "].contents is not None and fresh(self.def_dict.defs[" + _GKEY + "].contents)"
                 " and self.def_dict.defs[" + _GKEY + "].contents.sorted_w3"
                 " and self.def_dict.defs[" + _GKEY + "].contents.canon_w3 == old(first_content_w3(def_expand_group).canon_w3))",
             "C09.gather.unknown_name_with_value_goes_to_the_ambiguity_resolution_unless_it_has_errors":
                 "implies(not " + _KNOWN + " and '/' in def_tag.extension, result == (" + _GKEY + " in old(self.errors))"
                 " and same_keys(self.def_dict.defs, old(self.def_dict.defs)))",
             "C09.gather.group_is_sorted_for_the_comparison": "def_expand_group.sorted_w3",
         },
         assume=["HedGroup.sort() reorders in place (ghost flag); get_first_group() is the view first_content_w3; the entry constructor and "
                 "_get_definition_contents are used through their contracts",
                 "what is appended to the error lists is not covered (no aliasing of a list stored in a dict in the engine)"])

# ------------------------------------------------------------------------------------------------------------------------------- C17
# C17 mechanism "key lookup table for remapping": while the table of unique key combinations is built, a combination seen AGAIN is counted and
# keeps its first position (its row is not stored twice, its position is not overwritten); a new one takes the next position, is stored once
# and starts at count 1; nothing else in the two dictionaries changes
KMF = "hed/tools/analysis/key_map.py"
class_model("RowW3", {})
class_model("KeyMapW3", {"key_cols": "Opaque", "map_dict": "Map[Int,Int]", "count_dict": "Map[Int,Int]"})
if _z_w3 is not None:
    def _row_hash_w3(interp, args, kwargs):
        """data_util.get_row_hash(row, key_cols): for the key columns of one map a function of the row (an int)"""
        f = _z_w3.Function("row_hash_w3", _z_w3.IntSort(), _z_w3.IntSort())
        return _SV_w3(_INT_w3, f(args[0].t))
    EXTERNS["row_hash_w3"] = _row_hash_w3

    def _forall_int_w3(interp, args, kwargs):
        """forall_int_w3(lambda k: ...): quantification over all integers (specification only; the sibling of forall_str)"""
        ctx = interp.ctx
        depth = getattr(ctx, "_forall_int_depth_w3", 0)
        k = _z_w3.Int(f"k_forall_int_w3_{depth}")
        ctx._forall_int_depth_w3 = depth + 1
        try:
            body = interp.call(args[0], [_SV_w3(_INT_w3, k)], {})
        finally:
            ctx._forall_int_depth_w3 = depth
        return _SV_w3(_BOOL_w3, _z_w3.ForAll([k], ctx.zbool(ctx.truth(body))))
    EXTERNS["forall_int_w3"] = _forall_int_w3
    for _nm in ("data_util.get_row_hash", "hed.tools.util.data_util.get_row_hash", "get_row_hash"):
        EXTERNS[_nm] = _row_hash_w3
_K = "row_hash_w3(row)"
contract("C17.key_seen_again_is_counted_not_overwritten", file=KMF, func="KeyMap._handle_update",
         params={"self": "KeyMapW3", "row": "RowW3", "row_list": "List[RowW3]", "next_pos": "Int"}, returns="Tuple[Int,Int]", enc="native",
         self_class="KeyMapW3", modifies=["self.map_dict", "self.count_dict", "row_list"],
         requires=["forall_int_w3(lambda k: (k in self.map_dict) == (k in self.count_dict))"],      # class invariant: both are written together
         ensures={
             "C17.keymap.key_handed_back": "result[0] == " + _K,
             "C17.keymap.known_key_keeps_its_position_and_row": "implies(" + _K + " in old(self.map_dict), result[1] == 0 and"
                 " self.map_dict == old(self.map_dict) and len(row_list) == len(old(row_list))"
                 " and self.count_dict[" + _K + "] == old(self.count_dict)[" + _K + "] + 1)",
             "C17.keymap.new_key_takes_the_next_position_and_is_stored_once": "implies(" + _K + " not in old(self.map_dict), result[1] == 1 and"
                 " " + _K + " in self.map_dict and self.map_dict[" + _K + "] == next_pos and len(row_list) == len(old(row_list)) + 1"
                 " and row_list[len(row_list) - 1] is row and self.count_dict[" + _K + "] == 1)",
             "C17.keymap.other_keys_untouched": "forall_int_w3(lambda k: implies(k != " + _K + ", (k in self.map_dict) == (k in old(self.map_dict))"
                 " and (k in self.count_dict) == (k in old(self.count_dict))"
                 " and implies(k in old(self.map_dict), self.map_dict[k] == old(self.map_dict)[k] and self.count_dict[k] == old(self.count_dict)[k])))",
             "C17.keymap.rows_stored_before_are_kept": "all(row_list[k] is old(row_list)[k] for k in range(len(old(row_list))))",
         },
         assume=["get_row_hash(row, key_cols) is, for one map, a function of the row"])

# C17 state "operation attributes: parameter values cached on the operation object at construction": every attribute do_op reads is the value of
# the parameter of that name in the operation's JSON specification - "ignore_missing" becomes the pandas error handling 'ignore' / 'raise' the
# right way round, optional parameters left out become empty lists (never None)
OPF = "hed/tools/remodeling/operations/"
_INIT_TABLE = [
    # (id part, file, class, parameter model fields, {attribute: (type, clause over parameters)})
    ("reorder_columns", "reorder_columns_op.py", "ReorderColumnsOp",
     {"column_order": "List[Str]", "ignore_missing": "Bool", "keep_others": "Bool"},
     {"column_order": "self.column_order == parameters.column_order", "ignore_missing": "self.ignore_missing == parameters.ignore_missing",
      "keep_others": "self.keep_others == parameters.keep_others"}),
    ("remove_rows", "remove_rows_op.py", "RemoveRowsOp", {"column_name": "Str", "remove_values": "List[Str]"},
     {"column_name": "self.column_name == parameters.column_name", "remove_values": "self.remove_values == parameters.remove_values"}),
    ("remove_columns", "remove_columns_op.py", "RemoveColumnsOp", {"column_names": "List[Str]", "ignore_missing": "Bool"},
     {"column_names": "self.column_names == parameters.column_names",
      "error_handling": "self.error_handling == ('ignore' if parameters.ignore_missing else 'raise')"}),
    ("split_rows", "split_rows_op.py", "SplitRowsOpInitW3", {"anchor_column": "Str", "remove_parent_row": "Bool", "new_events": "Opaque"},
     {"anchor_column": "self.anchor_column == parameters.anchor_column", "remove_parent_row": "self.remove_parent_row == parameters.remove_parent_row"}),
]
for _part, _file, _cls, _pf, _cl in _INIT_TABLE:
    class_model(_cls.replace("Op", "ParamsW3") if not _cls.endswith("W3") else _cls.replace("W3", "ParamsW3"), _pf)
    if _cls.endswith("W3"):
        class_model(_cls, {"anchor_column": "Str", "remove_parent_row": "Bool", "new_events": "Opaque"})
    contract("C17." + _part + ".init_w3", file=OPF + _file, func=_cls.replace("InitW3", "") + ".__init__",
             params={"self": _cls, "parameters": _cls.replace("Op", "ParamsW3") if not _cls.endswith("W3") else _cls.replace("W3", "ParamsW3")},
             returns=None, enc="native", self_class=_cls,
             modifies=["self." + a for a in _cl] + (["self.new_events"] if "split" in _part else []),
             ensures={"C17.init." + _part + "." + a + "_is_the_parameter_of_that_name": c for a, c in _cl.items()},
             assume=["BaseOp.__init__ keeps the parameter dictionary (self.parameters, not modelled) and sets nothing else"])
# rename_columns: the mapping is opaque, the flag is what matters
class_model("RenameColumnsOpInitW3", {"column_mapping": "Opaque", "error_handling": "Str"})
class_model("RenameColumnsParamsW3", {"column_mapping": "Opaque", "ignore_missing": "Bool"})
contract("C17.rename_columns.init_w3", file=OPF + "rename_columns_op.py", func="RenameColumnsOp.__init__",
         params={"self": "RenameColumnsOpInitW3", "parameters": "RenameColumnsParamsW3"}, returns=None, enc="native",
         self_class="RenameColumnsOpInitW3", modifies=["self.column_mapping", "self.error_handling"],
         ensures={"C17.init.rename_columns.error_handling_follows_ignore_missing":
                  "self.error_handling == ('ignore' if parameters.ignore_missing else 'raise')"},
         assume=["BaseOp.__init__ keeps the parameter dictionary (self.parameters, not modelled) and sets nothing else"])

# C17 "An operation list that fails the remodeler's validation is reported with messages ...; one that passes ... runs to completion": the
# per-operation checks accept exactly the parameter sets the operation can run with (factor_column.do_op needs one name per value or no names)
_FN = "(parameters.has_factor_names and len(parameters.factor_names) > 0)"
_FV = "(parameters.has_factor_values and len(parameters.factor_values) > 0)"
contract("C17.factor_column.validate_input_data_w3", file=OPF + "factor_column_op.py", func="FactorColumnOp.validate_input_data",
         params={"parameters": "FactorParams"}, returns="List[Str]", enc="native",
         ensures={
             "C17.validate.factor_names_need_one_value_each":
                 "(len(result) == 0) == (not " + _FN + " or (" + _FV + " and len(parameters.factor_names) == len(parameters.factor_values)))",
             "C17.validate.factor_one_message_per_fault": "len(result) <= 1",
         })
# (MergeConsecutiveOp.validate_input_data: `name in match_columns` on the optional list parameters.get(..., None) hands back is outside the
#  engine's membership rules - not covered)

# C17 mechanism "operation pipeline with n/a <-> NaN conversion around every step" ("n/a cells preserved as n/a"): before an operation the text
# 'n/a' (exactly that text) becomes NaN in a NEW table, after it every NaN becomes the text 'n/a' again - what is handed back is the converted
# table, not the one passed in
DSP = "hed/tools/remodeling/dispatcher.py"
class_model("TableW3", {"dtypes": "Opaque"})
CLASSES["TableW3"]["opaque_methods"] = True
if _z_w3 is not None:
    from pyvc.vals import Builtin as _Builtin_w3

    def _is_nan_w3(v):
        return (isinstance(v, _Builtin_w3) and v.name.split(".")[-1] in ("nan", "NaN", "NAN")) or \
            (isinstance(v, _Opq_w3) and v.desc.split(".")[-1] in ("nan", "NaN", "NAN")) or (isinstance(v, float) and v != v)

    def _table_replace_w3(interp, args, kwargs):
        g = interp.ctx.ghost
        new = interp.new_object("TableW3")
        g["conv_calls"] = _SV_w3(_INT_w3, interp.ctx.term(g["conv_calls"], _INT_w3) + 1)
        g["conv_ok"] = len(args) == 3 and args[1] == "n/a" and _is_nan_w3(args[2]) and not kwargs
        g["conv_result"] = new
        return new

    def _table_fillna_w3(interp, args, kwargs):
        g = interp.ctx.ghost
        new = interp.new_object("TableW3")
        g["conv_calls"] = _SV_w3(_INT_w3, interp.ctx.term(g["conv_calls"], _INT_w3) + 1)
        g["conv_ok"] = len(args) == 2 and args[1] == "n/a" and not kwargs
        g["conv_result"] = new
        return new
    EXTERNS["TableW3.replace"] = _table_replace_w3
    EXTERNS["TableW3.fillna"] = _table_fillna_w3
contract("C17.prep_data_turns_the_text_na_into_nan_in_a_new_table", file=DSP, func="Dispatcher.prep_data",
         params={"df": "TableW3"}, returns="TableW3", enc="native", ghost={"init": {"conv_calls": "0", "conv_ok": "False", "conv_result": "None"},
                                                                               "not_at_call_sites": True},
         ensures={"C17.na.prep_replaces_exactly_the_text_na_by_nan": "conv_calls == 1 and conv_ok",
                  "C17.na.prep_hands_back_the_converted_table": "result is conv_result and fresh(result) and result is not df"},
         assume=["DataFrame.replace(a, b) without inplace returns a new table in which the cells equal to a hold b, and leaves its receiver alone"])
# (Dispatcher.post_proc_data: `df[col] = ...` - an item store on a modelled object - has no rule in the engine, and on an unmodelled table the
#  positional argument of fillna cannot be checked: not covered)

# ------------------------------------------------------------------------------------------------------------------------------- C18
# C18 "it never lists a backup whose recorded files are missing or truncated": a backup directory gets into the manager's dictionary only
# after its consistency check handed back NO unrecorded file and NO missing copy (C18.consistency_reports_missing_copies_and_extra_files says
# what those two lists are); every entry of the backups directory is either listed or makes the scan fail with HedFileError
BMF = "hed/tools/remodeling/backup_manager.py"
class_model("BackupManagerScanW3", {}, bases=["BackupManager"])
if _z_w3 is not None:
    _old_listdir_w3 = EXTERNS.get("os.listdir")

    def _listdir_w3(interp, args, kwargs):
        """os.listdir(path): SOME list of names (for the contracts of this file; all others keep the registered model)"""
        if not interp.ctx.contract.cid.endswith("_w3scan"):
            return _old_listdir_w3(interp, args, kwargs)
        cell = interp.ctx.fresh(_TList_w3(_STR_w3), "listdir")
        g = interp.ctx.ghost
        if g.get("scan_entries_set") is False:           # the first listing of the run is the scan of the backups directory
            g["scan_entries_set"] = True
            g["scan_entries"] = _SV_w3(cell.sym.ty, cell.sym.t)
        return cell

    def _str_set_with_w3(interp, args, kwargs):
        from pyvc.vals import TSet as _TSet
        ty = _TSet(_STR_w3)
        return _SV_w3(ty, _z_w3.Store(interp.ctx.term(args[0], ty), interp.ctx.strs.to_native(args[1]), _z_w3.BoolVal(True)))
    EXTERNS["os.listdir"] = _listdir_w3
    EXTERNS["str_set_with_w3"] = _str_set_with_w3
    def _any_str_set_w3(interp, args, kwargs):
        from pyvc.vals import TSet as _TSet
        return _SV_w3(_TSet(_STR_w3), _z_w3.Const(interp.ctx.fresh_name("anyset"), _z_w3.ArraySort(_z_w3.StringSort(), _z_w3.BoolSort())))
    EXTERNS["any_str_set_w3"] = _any_str_set_w3
    EXTERNS["no_names_w3"] = lambda interp, args, kwargs: _SV_w3(_TList_w3(_STR_w3), interp.ctx.fresh(_TList_w3(_STR_w3), "nonames").sym.t)
contract("C18.only_consistent_backups_are_listed_w3scan", file=BMF, func="BackupManager._get_backups",
         params={"self": "BackupManagerScanW3"}, returns="Opaque", enc="native", self_class="BackupManagerScanW3",
         raises={"HedFileError": True, "FileNotFoundError": True},
         locals={"backups": "Opaque"},
         ghost={"init": {"listed": "empty_str_set()", "all_listed_were_clean": "True", "all_listed_had_exactly_their_copies": "True", "scan_entries": "no_names_w3()", "scan_entries_set": "False",
                         # (the consistency check's contract speaks about two sets of paths of ITS run: arbitrary here, and arbitrary anew in
                         #  every iteration - they are declared as loop ghosts)
                         "g_recorded": "any_str_set_w3()", "g_present": "any_str_set_w3()"},
                "update": [("backups[backup] = backup_dict", "listed = str_set_with_w3(listed, backup)"),
                           ("backups[backup] = backup_dict", "all_listed_were_clean = all_listed_were_clean and len(files_not_in_backup) == 0"
                                                             " and len(backups_not_in_directory) == 0"),
                           ("backups[backup] = backup_dict", "all_listed_had_exactly_their_copies = all_listed_had_exactly_their_copies and"
                                                             " forall_str(lambda p: (p in g_recorded) == (p in g_present))")]},
         ensures={
             "C18.scan.listed_only_after_a_clean_consistency_check": "all_listed_were_clean",
             "C18.scan.recorded_copies_of_a_listed_backup_are_exactly_the_files_present": "all_listed_had_exactly_their_copies",
             "C18.scan.every_directory_entry_is_listed_or_the_scan_fails": "all(scan_entries[k] in listed for k in range(len(scan_entries)))",
         },
         loops={0: {"ghost": {"listed": "Set[Str]", "all_listed_were_clean": "Bool", "all_listed_had_exactly_their_copies": "Bool", "g_recorded": "Set[Str]", "g_present": "Set[Str]"},
                    "invariant": ["all_listed_were_clean", "all_listed_had_exactly_their_copies", "all(_iter0[k] in listed for k in range(_n))",
                                  "len(scan_entries) == len(_iter0) and all(scan_entries[k] == _iter0[k] for k in range(len(_iter0)))"]}},
         assume=["os.listdir hands back some list of names; the consistency check is used through its contract",
                 "the dictionary handed back is the local `backups`, written only by the statement the ghost updates are anchored at"])

# C18 observe_at BackupManager(data_root): the manager refuses a data root that is not an existing directory BEFORE touching the file system,
# keeps its backups under <data_root>/derivatives/remodel/backups unless told otherwise (made real), creates nothing but that directory, and its
# dictionary is what the consistency scan of that directory hands back
class_model("BackupManagerInitW3", {"data_root": "Str", "backups_path": "Str", "backups_dict": "Opaque",
                                    "RELATIVE_BACKUP_LOCATION": "Str"})      # (the class constant './derivatives/remodel/backups')
if _z_w3 is not None:
    _old_isdir_w3 = EXTERNS.get("os.path.isdir")

    def _isdir_w3(interp, args, kwargs):
        r = _old_isdir_w3(interp, args, kwargs)
        g = interp.ctx.ghost
        if interp.ctx.contract.cid.endswith("_w3init") and not interp.ctx.spec:
            g["isdir_asked_about"] = args[0]
            g["isdir_answer"] = r
            g["effects_before_the_check"] = g["fs_effect_count"]
        return r

    def _init_scan_w3(interp, args, kwargs):
        g = interp.ctx.ghost
        g["scans"] = _SV_w3(_INT_w3, interp.ctx.term(g["scans"], _INT_w3) + 1)
        g["scanned_path"] = interp.field_read(args[0], "backups_path")
        g["effects_before_the_scan"] = g["fs_effect_count"]
        return _Opq_w3("scan result", fresh=True)
    EXTERNS["os.path.isdir"] = _isdir_w3
    EXTERNS["path_join_w3"] = EXTERNS["os.path.join"]
    EXTERNS["realpath_w3"] = EXTERNS["os.path.realpath"]
    EXTERNS["BackupManagerInitW3._get_backups"] = _init_scan_w3
contract("C18.manager_refuses_a_missing_data_root_and_scans_its_backups_directory_w3init", file=BMF, func="BackupManager.__init__",
         params={"self": "BackupManagerInitW3", "data_root": "Str", "backups_root": "Opt[Str]"}, returns=None, enc="native",
         self_class="BackupManagerInitW3", modifies=["self.data_root", "self.backups_path", "self.backups_dict"],
         raises={"HedFileError": True},
         ghost={"init": {"fs_effect_count": "0", "isdir_asked_about": "''", "isdir_answer": "False", "effects_before_the_check": "-1",
                         "scans": "0", "scanned_path": "''", "effects_before_the_scan": "-1"}},
         ensures={
             "C18.init.built_only_for_an_existing_data_directory": "isdir_answer and isdir_asked_about == data_root and effects_before_the_check == 0",
             "C18.init.data_root_kept": "self.data_root == data_root",
             "C18.init.backups_live_under_the_data_root_by_default":
                 "implies(backups_root is None or len(backups_root) == 0,"
                 " self.backups_path == realpath_w3(path_join_w3(data_root, self.RELATIVE_BACKUP_LOCATION)))",
             "C18.init.backups_live_where_told_otherwise": "implies(backups_root is not None and len(backups_root) > 0,"
                                                           " self.backups_path == realpath_w3(backups_root))",
             "C18.init.only_the_backups_directory_is_created_and_then_scanned": "fs_effect_count == 1 and scans == 1 and scanned_path == self.backups_path"
                                                                                " and effects_before_the_scan == 1",
         },
         assume=["os.path.isdir / join / realpath / makedirs as modelled in extern_fs; _get_backups is summarised as a call (its own contract is "
                 "C18.only_consistent_backups_are_listed_w3scan)"])

# C18 "the backup manager afterwards either does not list that backup or lists it ...": asking for a backup by name answers from the scanned
# dictionary only - None for a name that is not listed, the listed record itself otherwise - and changes nothing
contract("C18.get_backup_answers_from_the_listed_backups_only", file=BMF, func="BackupManager.get_backup",
         params={"self": "BackupManager", "backup_name": "Str"}, returns="Opt[Map[Str,Str]]", enc="native",
         ensures={
             "C18.get.unlisted_name_gives_none": "implies(backup_name not in self.backups_dict, result is None)",
             "C18.get.listed_name_gives_its_record": "implies(backup_name in self.backups_dict, result is not None and"
                                                     " forall_str(lambda p: (p in result) == (p in self.backups_dict[backup_name])))",
             "C18.get.dictionary_untouched": "same_keys(self.backups_dict, old(self.backups_dict))",
         })

# C18 "re-running the remodeler always starts from the backed-up originals" / "an existing backup of the same name is never overwritten" at the
# three command-line entry points: WHICH backup-manager calls are made, with WHICH arguments, in which order (ghost recorders)
CLI = "hed/tools/remodeling/cli/"
class_model("ArgsW3", {"no_backup": "Bool", "data_dir": "Str", "backup_name": "Str", "task_names": "List[Str]", "verbose": "Bool",
                       "backup_dir": "Opt[Str]", "file_suffix": "Opaque", "extensions": "Opaque", "exclude_dirs": "Opaque"})
class_model("BackupRecordW3", {"__bool__": "Bool"})       # (a backup record is a dict: one that names no file is falsy)
class_model("BackupManagerCliW3", {})
class_model("ParserW3", {})
_CLI_GHOST = {"the_args": "None", "managers": "0", "mgr_data_dir": "''", "mgr_backups_root": "None", "asked": "0", "asked_name": "''", "asked_found": "False",
              "restores": "0", "restored_name": "''", "restored_tasks_ok": "False", "restore_after_ask": "False",
              "creates": "0", "created_name": "''", "created_files_ok": "False", "create_after_ask": "False", "filtered": "False",
              "filter_tasks_ok": "False", "listed_dir": "''"}
if _z_w3 is not None:
    from pyvc.vals import ClassRef as _ClassRef_w3, Unsupported as _Unsupported_w3

    def _mine_cli(interp):
        return interp.ctx.contract.cid.endswith("_w3cli")

    def _inc_w3(interp, name):
        g = interp.ctx.ghost
        g[name] = _SV_w3(_INT_w3, interp.ctx.term(g[name], _INT_w3) + 1)

    def _cli_manager_w3(interp, args, kwargs):
        args = list(args[1:])        # (args[0] is the factory receiver, see _ManagerRefW3)
        if not _mine_cli(interp):
            return interp.construct(_ClassRef_w3("BackupManager"), args, kwargs, None)
        g = interp.ctx.ghost
        _inc_w3(interp, "managers")
        g["mgr_data_dir"] = args[0]
        g["mgr_backups_root"] = kwargs.get("backups_root", args[1] if len(args) > 1 else None)
        interp.ctx.may_raise(_z_w3.Bool(interp.ctx.fresh_name("no_data_root")), "HedFileError", "BackupManager()")
        return interp.new_object("BackupManagerCliW3")

    def _cli_get_backup_w3(interp, args, kwargs):
        g = interp.ctx.ghost
        _inc_w3(interp, "asked")
        g["asked_name"] = args[1]
        ty = _TOpt_w3(_TRef_w3("BackupRecordW3"))
        r = interp.ctx.fresh(ty, "record")
        g["asked_found"] = _SV_w3(_BOOL_w3, interp.ctx.zbool(interp.ctx.truth(r)))
        return r

    def _cli_restore_w3(interp, args, kwargs):
        g = interp.ctx.ghost
        _inc_w3(interp, "restores")
        g["restored_name"] = args[1]
        tasks = kwargs.get("task_names", args[2] if len(args) > 2 else None)
        # (the list cell of a field is one object per run: `is` asks whether the very list of the arguments was handed on)
        g["restored_tasks_ok"] = isinstance(tasks, _Cell_w3) and tasks is interp.field_read(_args_obj_w3(interp), "task_names")
        g["restore_after_ask"] = _SV_w3(_BOOL_w3, interp.ctx.term(g["asked"], _INT_w3) >= 1)
        return None

    def _cli_create_w3(interp, args, kwargs):
        g = interp.ctx.ghost
        _inc_w3(interp, "creates")
        g["created_name"] = kwargs.get("backup_name", args[2] if len(args) > 2 else None)
        g["created_files_ok"] = args[1] is g.get("_file_list_obj")
        g["create_after_ask"] = _SV_w3(_BOOL_w3, interp.ctx.term(g["asked"], _INT_w3) >= 1)
        return _SV_w3(_BOOL_w3, _z_w3.Bool(interp.ctx.fresh_name("created")))

    def _cli_get_parser_w3(interp, args, kwargs):
        if not _mine_cli(interp):
            raise _Unsupported_w3("call to module function get_parser without contract")
        return interp.new_object("ParserW3")

    def _cli_parse_args_w3(interp, args, kwargs):
        a = interp.new_object("ArgsW3")
        interp.ctx.ghost["the_args"] = a
        return a

    def _args_obj_w3(interp):
        g = interp.ctx.ghost
        return g["the_args"] if g.get("the_args") is not None else interp.frames[0].env.get("args")

    def _cli_get_file_list_w3(interp, args, kwargs):
        o = _Opq_w3("file list", fresh=True)
        interp.ctx.ghost["_file_list_obj"] = o
        interp.ctx.ghost["listed_dir"] = args[0]
        return o

    def _cli_filter_w3(interp, args, kwargs):
        g = interp.ctx.ghost
        g["filter_tasks_ok"] = args[0] is g.get("_file_list_obj") and isinstance(args[1], _Cell_w3) and \
            args[1] is interp.field_read(_args_obj_w3(interp), "task_names")
        o = _Opq_w3("filtered file list", fresh=True)
        g["_file_list_obj"] = o
        g["filtered"] = True
        return o

    from pyvc.vals import BoundMethod as _BoundMethod_w3

    class _ManagerRefW3(_BoundMethod_w3, _ClassRef_w3):
        """what the NAME BackupManager denotes: for attribute access and isinstance it is the class reference BackupManager (class constants
        are read from the real class as before); CALLING it goes through the python-side model _cli_manager_w3, which records the call in
        the command-line contracts of this file and is the engine's ordinary construction everywhere else.  (The engine's call() has no
        hook for constructors of modelled classes; a bound method of a dummy receiver is the one callable it dispatches through EXTERNS.)"""
        def __init__(self):
            _ClassRef_w3.__init__(self, "BackupManager")
            self.recv = _SV_w3(_TRef_w3("ManagerFactoryW3"), _z_w3.IntVal(-18))
    class_model("ManagerFactoryW3", {})
    EXTERNS["ManagerFactoryW3.BackupManager"] = _cli_manager_w3
    EXTERNS["BackupManager"] = _ManagerRefW3()
    EXTERNS["BackupManagerCliW3.get_backup"] = _cli_get_backup_w3
    EXTERNS["BackupManagerCliW3.restore_backup"] = _cli_restore_w3
    EXTERNS["BackupManagerCliW3.create_backup"] = _cli_create_w3
    EXTERNS["get_parser"] = _cli_get_parser_w3
    EXTERNS["ParserW3.parse_args"] = _cli_parse_args_w3

    def _only_in_cli_w3(model, full_name):
        """the model in the command-line contracts of this file; everywhere else the engine's own treatment of an unmodelled call"""
        return lambda interp, args, kwargs: model(interp, args, kwargs) if _mine_cli(interp) else interp.opaque_call(full_name, args, kwargs)
    for _pre in ("io_util.", "hed.tools.util.io_util.", "hed.tools.util.io_util.io_util."):
        EXTERNS[_pre + "get_file_list"] = _only_in_cli_w3(_cli_get_file_list_w3, _pre + "get_file_list")
        EXTERNS[_pre + "get_filtered_by_element"] = _only_in_cli_w3(_cli_filter_w3, _pre + "get_filtered_by_element")
contract("C18.remodel_restores_the_named_backup_before_running_w3cli", file=CLI + "run_remodel.py", func="handle_backup",
         params={"args": "ArgsW3"}, returns="Opt[Str]", enc="native", raises={"HedFileError": True},
         ghost={"init": dict(_CLI_GHOST)},
         ensures={
             "C18.remodel.no_backup_asked_nothing_touched": "implies(args.no_backup, result is None and managers == 0 and restores == 0)",
             "C18.remodel.restores_the_named_backup_of_the_data_directory_once":
                 "implies(not args.no_backup, managers == 1 and mgr_data_dir == args.data_dir and asked == 1 and asked_name == args.backup_name"
                 " and asked_found and restores == 1 and restored_name == args.backup_name and restored_tasks_ok and restore_after_ask)",
             "C18.remodel.hands_on_the_name_the_dispatcher_reads_from": "implies(not args.no_backup, result == args.backup_name)",
             "exc:C18.remodel.missing_backup_nothing_restored": "restores == 0",
         },
         assume=["BackupManager(...) / get_backup / restore_backup are summarised as recorded calls (their own contracts: C18.manager_refuses..., "
                 "C18.get_backup..., C18.restore_backup); restore_backup itself is assumed not to raise here"])
contract("C18.backup_command_never_overwrites_and_backs_up_the_listed_files_w3cli", file=CLI + "run_remodel_backup.py", func="main",
         params={"arg_list": "Opaque"}, returns=None, enc="native", raises={"HedFileError": True},
         ghost={"init": dict(_CLI_GHOST)},
         ensures={
             "C18.backup_cmd.manager_for_the_data_directory_and_the_backup_directory_asked_for":
                 "managers == 1 and mgr_data_dir == the_args.data_dir and"
                 " (mgr_backups_root == the_args.backup_dir if the_args.backup_dir is not None and len(the_args.backup_dir) > 0 else mgr_backups_root is None)",
             "C18.backup_cmd.created_once_only_when_the_name_is_free": "asked == 1 and asked_name == the_args.backup_name and not asked_found"
                                                                       " and creates == 1 and created_name == the_args.backup_name and create_after_ask",
             "C18.backup_cmd.backs_up_the_files_listed_under_the_data_directory": "listed_dir == the_args.data_dir and created_files_ok",
             "C18.backup_cmd.task_filter_applied_iff_tasks_named": "filtered == (len(the_args.task_names) > 0) and implies(filtered, filter_tasks_ok)",
             "exc:C18.backup_cmd.existing_backup_is_never_overwritten": "creates == 0",
         },
         assume=["get_parser().parse_args hands back some argument object; io_util.get_file_list / get_filtered_by_element hand back file lists; "
                 "BackupManager(...) / get_backup / create_backup are summarised as recorded calls; create_backup itself is assumed not to raise"])
contract("C18.restore_command_restores_the_named_backup_for_the_named_tasks_w3cli", file=CLI + "run_remodel_restore.py", func="main",
         params={"arg_list": "Opaque"}, returns=None, enc="native", raises={"HedFileError": True},
         ghost={"init": dict(_CLI_GHOST)},
         ensures={
             "C18.restore_cmd.manager_for_the_data_directory_and_the_backup_directory_asked_for":
                 "managers == 1 and mgr_data_dir == the_args.data_dir and"
                 " (mgr_backups_root == the_args.backup_dir if the_args.backup_dir is not None and len(the_args.backup_dir) > 0 else mgr_backups_root is None)",
             "C18.restore_cmd.restores_the_named_backup_for_the_named_tasks_once":
                 "asked == 1 and asked_name == the_args.backup_name and asked_found and restores == 1 and restored_name == the_args.backup_name"
                 " and restored_tasks_ok and restore_after_ask",
             "exc:C18.restore_cmd.missing_backup_nothing_restored": "restores == 0",
         },
         assume=["get_parser().parse_args hands back some argument object; BackupManager(...) / get_backup / restore_backup are summarised as "
                 "recorded calls; restore_backup itself is assumed not to raise"])
