from pyvc.contract import contract, class_model

class_model("BackupManager", {"backups_dict": "Map[Str,Map[Str,Str]]", "backups_path": "Str", "data_root": "Str",
                              "backups_root": "Opaque"})

# pure path mapping (trusted: os.path / io_util.get_path_components); named by uninterpreted spec functions
contract("C18.get_file_key", file="hed/tools/remodeling/backup_manager.py", func="BackupManager.get_file_key",
         params={"self": "BackupManager", "file_name": "Str"}, returns="Str", enc="native", trusted=True,
         ensures={"key": "result == file_key_of(self.data_root, file_name)"})
contract("C18.get_backup_path", file="hed/tools/remodeling/backup_manager.py", func="BackupManager.get_backup_path",
         params={"self": "BackupManager", "backup_name": "Str", "file_name": "Str"}, returns="Str", enc="native", trusted=True,
         ensures={"path": "result == backup_path_of(self.backups_path, backup_name, file_key_of(self.data_root, file_name))"})

# C18: copy files first, write the visible record (backup_lock.json) last; never overwrite an existing backup
contract("C18.create_backup",
         file="hed/tools/remodeling/backup_manager.py", func="BackupManager.create_backup",
         params={"self": "BackupManager", "file_list": "List[Str]", "backup_name": "Opt[Str]", "verbose": "Bool"},
         returns="Bool", enc="native",
         modifies=["self.backups_dict"],
         ghost={"init": {"fs_copied": "empty_str_set()", "fs_record_written": "False", "fs_effects_after_record": "False",
                         "fs_effect_count": "0"}},
         locals={"backup": "Map[Str,Str]"},
         lets={"name": "backup_name if backup_name else 'default_back'"},
         ensures={
             "C18.never_overwrites_existing_backup": "implies(name in old(self.backups_dict), result == False and fs_effect_count == 0"
                                                     " and not fs_record_written)",
             "C18.record_written_last": "implies(result, fs_record_written and not fs_effects_after_record)",
             "C18.every_file_copied_before_record": "implies(result, all(backup_path_of(self.backups_path, name, file_key_of(self.data_root, file_list[k])) in fs_copied"
                                                    " for k in range(len(file_list))))",
             "C18.record_lists_every_file": "implies(result, all(file_key_of(self.data_root, file_list[k]) in self.backups_dict[name]"
                                            " for k in range(len(file_list))))",
             "C18.creates_iff_new_name": "result == (name not in old(self.backups_dict))",
         },
         loops={0: {"ghost": {"fs_copied": "Set[Str]", "fs_effect_count": "Int", "fs_effects_after_record": "Bool"},
                    "invariant": [
                        "not fs_record_written and not fs_effects_after_record",
                        "all(backup_path_of(self.backups_path, backup_name, file_key_of(self.data_root, file_list[k])) in fs_copied for k in range(_n))",
                        "all(file_key_of(self.data_root, file_list[k]) in backup for k in range(_n))",
                    ]}},
         assume=["shutil.copy2 completes the destination before returning", "json.dump output is invalid JSON until complete"])

contract("C18.get_task", file="hed/tools/remodeling/backup_manager.py", func="BackupManager.get_task",
         params={"task_names": "List[Str]", "file_path": "Str"}, returns="Str", enc="native",
         ensures={
             "C18.task.found_is_named": "implies(len(result) > 0, any(task_names[k] == result and ('task_' + result) in basename_of(file_path)"
                                        " for k in range(len(task_names))))",
             "C18.task.none_named_gives_empty": "implies(not any(('task_' + task_names[k]) in basename_of(file_path) for k in range(len(task_names))),"
                                                " result == '')",
         },
         loops={0: {"invariant": ["all(not (('task_' + task_names[k]) in base) for k in range(_n))"]}},
         assume=["a task named '' is returned as '' (indistinguishable from 'no task'); the clause allows it"])

contract("C18.get_backup_files", file="hed/tools/remodeling/backup_manager.py", func="BackupManager.get_backup_files",
         params={"self": "BackupManager", "backup_name": "Str", "original_paths": "Bool"}, returns="List[Str]", enc="native",
         trusted=True, raises={"HedFileError": "True"},
         ensures={"paths": "len(result) == len(backup_keys(self, backup_name)) and all(result[k] == "
                           "(original_path_of(self.data_root, backup_keys(self, backup_name)[k]) if original_paths else "
                           "backup_path_of(self.backups_path, backup_name, backup_keys(self, backup_name)[k])) for k in range(len(result)))"},
         assume=["dict.keys() of the stored backup record iterates in one fixed order (ghost list backup_keys)"])

# C18: restoring writes every selected backed-up file back to the path it came from, and nothing else
contract("C18.restore_backup",
         file="hed/tools/remodeling/backup_manager.py", func="BackupManager.restore_backup",
         params={"self": "BackupManager", "backup_name": "Str", "task_names": "List[Str]", "verbose": "Bool"},
         returns=None, enc="native",
         raises={"HedFileError": "True"},
         ghost={"init": {"fs_copied": "empty_str_set()", "fs_copy_src": "unknown_src_map()"}},
         lets={"keys": "backup_keys(self, backup_name)"},
         ensures={
             "C18.restore.only_recorded_originals": "forall_str(lambda p: implies(p in fs_copied, any(p == original_path_of(self.data_root, keys[k])"
                                                    " for k in range(len(keys)))))",
             "C18.restore.all_when_no_task_filter": "implies(len(task_names) == 0, all(original_path_of(self.data_root, keys[k]) in fs_copied"
                                                    " for k in range(len(keys))))",
         },
         loops={0: {"ghost": {"fs_copied": "Set[Str]"},
                    "invariant": [
                        "forall_str(lambda p: implies(p in fs_copied, any(p == data_files[k] for k in range(_n))))",
                        "implies(len(task_names) == 0, all(data_files[k] in fs_copied for k in range(_n)))",
                    ]}})

# C18 "remodeling always starts from the backup": with a backup manager, the table is read from the backup copy of the named file and from
# nowhere else; a file without a backed-up original is an error (HedFileError), never silently read from the working copy
from pyvc.contract import EXTERNS as _EX18
class_model("DispatcherB", {"backup_man": "Opt[BackupManager]", "backup_name": "Str"})


def _read_csv(interp, args, kwargs):
    """pd.read_csv(path, ...): the path read is recorded (ghost read_path); it may fail for a missing / malformed file"""
    from pyvc.vals import Opaque
    import z3 as _z
    ctx = interp.ctx
    ctx.ghost["read_path"] = args[0]
    ctx.ghost["reads"] = ctx.ghost.get("reads", 0) + 1 if isinstance(ctx.ghost.get("reads", 0), int) else ctx.ghost["reads"]
    ctx.may_raise(_z.Bool(ctx.fresh_name("read_fails")), "Exception", "pd.read_csv")
    return Opaque("DataFrame", fresh=True)


_EX18["pd.read_csv"] = _read_csv
_EX18["pandas.read_csv"] = _read_csv
contract("C18.get_data_file", file="hed/tools/remodeling/dispatcher.py", func="Dispatcher.get_data_file",
         params={"self": "DispatcherB", "file_designator": "Str"}, returns="Opaque", enc="native", self_class="DispatcherB",
         raises={"HedFileError": "True"},
         ghost={"init": {"read_path": "''"}},
         ensures={
             "C18.remodel.reads_the_backup_copy_only": "implies(self.backup_man is not None, read_path == backup_path_of(self.backup_man.backups_path,"
                                                       " self.backup_name, file_key_of(self.backup_man.data_root, file_designator)))",
             "C18.remodel.reads_the_named_file_without_backups": "implies(self.backup_man is None, read_path == file_designator)",
         },
         assume=["only the path form of file_designator is covered (a DataFrame is copied)"])

# C18 "never lists a backup whose recorded files are missing": the consistency check hands back, as its third value, exactly the recorded
# copies that are NOT among the files of the backup tree, and as its second the files of the tree that the record does not name -
# _get_backups refuses a backup for which either is non-empty
contract("C18.consistency_reports_missing_copies_and_extra_files", file="hed/tools/remodeling/backup_manager.py",
         func="BackupManager._check_backup_consistency",
         params={"self": "Opaque", "backup_name": "Opaque"}, returns="Tuple[Opaque,List[Str],List[Str]]", enc="native",
         locals={"backup_paths": "Set[Str]", "file_paths": "Set[Str]"},
         raises={"HedFileError": True, "FileNotFoundError": True},
         ghost={"update": [("assign:backup_paths", "g_recorded = backup_paths"), ("assign:file_paths", "g_present = file_paths")]},
         ensures={
             "C18.consistency.third_is_recorded_but_missing":
                 "forall_str(lambda p: (p in result[2]) == (p in g_recorded and p not in g_present))",
             "C18.consistency.second_is_present_but_unrecorded":
                 "forall_str(lambda p: (p in result[1]) == (p in g_present and p not in g_recorded))",
         },
         assume=["backup_paths / file_paths (built from os.path, json and the directory walk) are arbitrary sets of path texts: the clauses speak "
                 "about how the two are compared, not how they are obtained"])
