"""Trusted external models: file system, locks, time.  Effects are recorded in ghost state so that contracts can
state ordering disciplines (C18, C19).  Everything here is an assumption and is listed in the evidence."""
from pyvc.contract import class_model, EXTERNS
try:
    import z3
    from pyvc.vals import SV, Cell, Opaque, Unsupported, INT, BOOL, REAL, STR, TRef, TSet, sort_of
    from pyvc.strenc import is_str
except ImportError:
    z3 = None

class_model("File", {"path": "Str", "mode": "Str"})
class_model("PLock", {"held": "Bool", "filename": "Str"})

TRUSTED = [
    "os.path.join/realpath/dirname/basename/split are uninterpreted functions on strings",
    "shutil.copy/copy2/copyfile: not atomic, destination complete only when the call returns; may raise OSError",
    "os.replace within one directory is atomic; os.makedirs(exist_ok=True) creates nothing visible to readers",
    "open(..,'r') may raise FileNotFoundError; readline returns an arbitrary string",
    "portalocker.Lock(...) constructs WITHOUT acquiring; acquire() either holds the OS lock exclusively or raises "
    "LockException after the timeout; release() drops it",
    "json.dump writes the whole document or (on interruption) an invalid JSON prefix",
    "time.time() returns an arbitrary real",
]

if z3 is not None:
    _join = z3.Function("path_join", z3.StringSort(), z3.StringSort(), z3.StringSort())
    _realpath = z3.Function("realpath", z3.StringSort(), z3.StringSort())
    _dirname = z3.Function("dirname", z3.StringSort(), z3.StringSort())
    _basename = z3.Function("basename", z3.StringSort(), z3.StringSort())
    _servable = z3.Function("servable", z3.StringSort(), z3.BoolSort())


def _s(interp, v):
    """string argument -> native z3 term (opaque values become fresh strings)"""
    ctx = interp.ctx
    if isinstance(v, Opaque):
        return z3.Const(ctx.fresh_name("path"), z3.StringSort())
    return ctx.strs.to_native(v)


def _effect(interp, what):
    """account one file-system effect: nothing may follow the writing of the visible record"""
    g = interp.ctx.ghost
    if "fs_record_written" in g:
        rw = interp.ctx.term(g["fs_record_written"], BOOL)
        g["fs_effects_after_record"] = SV(BOOL, z3.Or(interp.ctx.term(g["fs_effects_after_record"], BOOL), rw))
    if "fs_effect_count" in g:
        g["fs_effect_count"] = SV(INT, interp.ctx.term(g["fs_effect_count"], INT) + 1)


def _join_model(interp, args, kwargs):
    parts = [_s(interp, a) for a in args]
    t = parts[0]
    for p in parts[1:]:
        t = _join(t, p)
        # the part after the last separator of join(a, b), for b without separator, is b
        interp.ctx.assume(_dirname(t) == parts[0] if len(parts) == 2 else z3.BoolVal(True))
    return SV(STR, t)


def _realpath_model(interp, args, kwargs):
    return SV(STR, _realpath(_s(interp, args[0])))


def _dirname_model(interp, args, kwargs):
    return SV(STR, _dirname(_s(interp, args[0])))


def _basename_model(interp, args, kwargs):
    return SV(STR, _basename(_s(interp, args[0])))


def _split_model(interp, args, kwargs):
    t = _s(interp, args[0])
    return (SV(STR, _dirname(t)), SV(STR, _basename(t)))


def _servable_spec(interp, args, kwargs):
    return SV(BOOL, _servable(_s(interp, args[0])))


def _servable_any(interp, args, kwargs):
    f = z3.Const(interp.ctx.fresh_name("folder"), z3.StringSort())
    return SV(BOOL, z3.Exists([f], _servable(_join(f, _basename(_s(interp, args[0]))))))


def _ufun(name, n):
    def f(interp, args, kwargs):
        fn = z3.Function(name, *([z3.StringSort()] * (n + 1)))
        return SV(STR, fn(*[_s(interp, a) for a in args]))
    return f


def _forall_str(interp, args, kwargs):
    """forall_str(lambda p: ...): quantification over all strings (specification only)"""
    ctx = interp.ctx
    # the bound variable is named by nesting depth, so that two instances of one clause text are the same term
    depth = getattr(ctx, "_forall_str_depth", 0)
    p = z3.Const(f"p_forall_str_{depth}", z3.StringSort())
    ctx._forall_str_depth = depth + 1
    try:
        body = interp.call(args[0], [SV(STR, p)], {})
    finally:
        ctx._forall_str_depth = depth
    return SV(BOOL, z3.ForAll([p], ctx.zbool(ctx.truth(body))))


def _src_map(interp, args, kwargs):
    from pyvc.vals import Ty
    ty = Ty("SrcMap")
    return SV(ty, z3.Const(interp.ctx.fresh_name("srcmap"), z3.ArraySort(z3.StringSort(), z3.StringSort())))


def _src_of(interp, args, kwargs):
    return SV(STR, z3.Select(args[0].t, _s(interp, args[1])))


def _str_replace(interp, args, kwargs):
    """str.replace(a, b) (all occurrences): uninterpreted, with the facts that hold for every python replace"""
    ctx = interp.ctx
    s_, a, b = (_s(interp, x) if not isinstance(x, Opaque) else _s(interp, x) for x in args[:3])
    f = z3.Function("replace_all", z3.StringSort(), z3.StringSort(), z3.StringSort(), z3.StringSort())
    r = f(s_, a, b)
    ctx.assume(z3.Implies(z3.Not(z3.Contains(s_, a)), r == s_))
    ctx.assume(z3.Implies(z3.And(z3.Length(a) > 0, z3.Not(z3.Contains(b, a)), z3.Length(a) == 1), z3.Not(z3.Contains(r, a))))
    ctx.assume(z3.Implies(z3.And(z3.Contains(s_, a), z3.Length(a) > 0, z3.Length(b) > 0), z3.Contains(r, b)))
    return SV(STR, r)


def _tag_view(interp, args, kwargs):
    """abstract view of a schema's tag section: case-folded form -> entry (or None)"""
    from pyvc.vals import TOpt, TRef
    ty = TOpt(TRef("TagEntry"))
    f = z3.Function("tag_view", z3.IntSort(), z3.StringSort(), sort_of(ty))
    return SV(ty, f(args[0].t, _s(interp, args[1])))


def _ulist(name, n, elem="Issue"):
    """uninterpreted list-valued function of n object/bool arguments (deterministic callee named in a caller's contract)"""
    def f(interp, args, kwargs):
        from pyvc.vals import TList, TRef
        ty = TList(TRef(elem))
        ctx = interp.ctx
        ts = []
        for a in args:
            t = ctx.type_of(a)
            if t is not None and t.name == "Opt":
                # an optional argument denotes its value here (the clause guards the None case): one symbol whatever the static type
                a = ctx.wrap(sort_of(t).val(ctx.term(a, t)), t.args[0])
                t = t.args[0]
            ts.append(ctx.term(a, t))
        fn = z3.Function(name, *[x.sort() for x in ts], sort_of(ty))
        return ctx.wrap(fn(*ts), ty).sym
    return f


def _float_parses(interp, args, kwargs):
    from pyvc.calls import _str2float_ok
    return SV(BOOL, _str2float_ok(_s(interp, args[0])))


def _float_of(interp, args, kwargs):
    from pyvc.calls import _str2float
    return SV(REAL, _str2float(_s(interp, args[0])))


def _entry_has_attribute(interp, args, kwargs):
    """HedSchemaEntry.has_attribute(key): key in self.attributes (return_value form not modelled)"""
    if kwargs.get("return_value") or len(args) > 2:
        raise Unsupported("has_attribute(return_value=True)")
    attrs = interp.field_read(args[0], "attributes")
    return SV(BOOL, interp.ctx.zbool(interp.contains(attrs, args[1])))


def _derivative_unit_of(interp, args, kwargs):
    from pyvc.vals import TOpt, TRef
    ty = TOpt(TRef("UnitEntry"))
    f = z3.Function("derivative_unit_of", z3.IntSort(), z3.StringSort(), sort_of(ty))
    return SV(ty, f(args[0].t, _s(interp, args[1])))


def _partition(right):
    def f(interp, args, kwargs):
        """s.partition(sep) / s.rpartition(sep) for a one-character literal sep (native encoding): exact"""
        ctx = interp.ctx
        t = _s(interp, args[0])
        sep = args[1]
        if not isinstance(sep, str) or len(sep) != 1:
            raise Unsupported("partition with a non-literal separator")
        sp = z3.StringVal(sep)
        # functions of (text, separator): two calls on the same text denote the same parts
        fa = z3.Function("rpart_a" if right else "part_a", z3.StringSort(), z3.StringSort(), z3.StringSort())
        fb = z3.Function("rpart_b" if right else "part_b", z3.StringSort(), z3.StringSort(), z3.StringSort())
        a, b = fa(t, sp), fb(t, sp)
        found = z3.Contains(t, sp)
        if right:
            ctx.assume(z3.If(found, z3.And(t == z3.Concat(a, sp, b), z3.Not(z3.Contains(b, sp))),
                             z3.And(a == z3.StringVal(""), b == t)))
        else:
            ctx.assume(z3.If(found, z3.And(t == z3.Concat(a, sp, b), z3.Not(z3.Contains(a, sp))),
                             z3.And(a == t, b == z3.StringVal(""))))
        mid = z3.If(found, sp, z3.StringVal(""))
        return (SV(STR, a), SV(STR, mid), SV(STR, b))
    return f


def _str_split(interp, args, kwargs):
    """s.split(sep) for a one-character literal sep, no maxsplit (native encoding): the result is a list whose members are exactly the
    sep-free fields of s (e is a field iff it has no sep and s == e, s starts with e+sep, s ends with sep+e or s contains sep+e+sep)"""
    from pyvc.vals import TList
    from pyvc.core import mem_fn
    ctx = interp.ctx
    maxsplit = args[2] if len(args) == 3 else kwargs.get("maxsplit")
    if len(args) not in (2, 3) or (set(kwargs) - {"maxsplit"}) or not isinstance(args[1], str) or len(args[1]) != 1 \
            or (maxsplit is not None and maxsplit != 1):
        raise Unsupported("str.split other than split(<one literal character>[, 1])")
    t = _s(interp, args[0])
    sp = z3.StringVal(args[1])
    ty = TList(STR)
    so = sort_of(ty)
    if maxsplit == 1:
        # s.split(c, 1): [s] when c does not occur, else [text before the first c, text after it]
        fa = z3.Function("part_a", z3.StringSort(), z3.StringSort(), z3.StringSort())
        fb = z3.Function("part_b", z3.StringSort(), z3.StringSort(), z3.StringSort())
        a, b = fa(t, sp), fb(t, sp)
        found = z3.Contains(t, sp)
        ctx.assume(z3.If(found, z3.And(t == z3.Concat(a, sp, b), z3.Not(z3.Contains(a, sp))), z3.And(a == t, b == z3.StringVal(""))))
        r1 = z3.Const(ctx.fresh_name("split1"), so)
        ctx.assume(so.len(r1) == z3.If(found, 2, 1))
        ctx.assume(z3.Select(so.data(r1), 0) == a)
        ctx.assume(z3.Implies(found, z3.Select(so.data(r1), 1) == b))
        e1 = z3.Const(ctx.fresh_name("fld"), z3.StringSort())
        ctx.assume(z3.ForAll([e1], mem_fn(ty)(r1, e1) == z3.Or(e1 == a, z3.And(found, e1 == b))))
        cell1 = interp.ctx.wrap(r1, ty)
        ctx.assume_type_inv(cell1, ty)
        return cell1
    f = z3.Function("split_of", z3.StringSort(), z3.StringSort(), so)
    r = f(t, sp)
    e = z3.Const(ctx.fresh_name("fld"), z3.StringSort())
    m = mem_fn(ty)
    field = z3.And(z3.Not(z3.Contains(e, sp)),
                   z3.Or(t == e, z3.PrefixOf(z3.Concat(e, sp), t), z3.SuffixOf(z3.Concat(sp, e), t), z3.Contains(t, z3.Concat(sp, e, sp))))
    ctx.assume(so.len(r) >= 1)
    ctx.assume(z3.ForAll([e], m(r, e) == field))
    k = z3.Int(ctx.fresh_name("k"))
    ctx.assume(z3.ForAll([k], z3.Implies(z3.And(0 <= k, k < so.len(r)), m(r, z3.Select(so.data(r), k)))))
    # positions: field k starts at split_off(s, sep, k); consecutive fields are one separator apart; the last one ends the text
    off = z3.Function("split_off", z3.StringSort(), z3.StringSort(), z3.IntSort(), z3.IntSort())
    fk = z3.Select(so.data(r), k)
    ctx.assume(off(t, sp, 0) == 0)
    ctx.assume(z3.ForAll([k], z3.Implies(z3.And(0 <= k, k < so.len(r)),
                                         z3.And(off(t, sp, k) >= 0, off(t, sp, k) + z3.Length(fk) <= z3.Length(t),
                                                off(t, sp, k + 1) == off(t, sp, k) + z3.Length(fk) + 1,
                                                z3.SubString(t, off(t, sp, k), z3.Length(fk)) == fk)), patterns=[fk]))
    ctx.assume(off(t, sp, so.len(r)) == z3.Length(t) + 1)
    cell = interp.ctx.wrap(r, ty)
    ctx.assume_type_inv(cell, ty)          # every member has a position (and every position holds a member)
    return cell


def _split_off(interp, args, kwargs):
    """split_off(s, sep, k): start position of the k-th field of s.split(sep) (specification only)"""
    from pyvc.vals import INT
    off = z3.Function("split_off", z3.StringSort(), z3.StringSort(), z3.IntSort(), z3.IntSort())
    return SV(INT, off(_s(interp, args[0]), _s(interp, args[1]), interp.ctx.term(args[2], INT)))


def _deepcopy(interp, args, kwargs):
    """copy.deepcopy(x, memo): None / bool / int / str are returned as they are; for a modelled object the result is memo[id(x)] when the
    memo has it, else an object allocated by this call (content not modelled).  The memo keeps its entries and may gain entries, every new
    one mapping to an object allocated by this call."""
    from pyvc.vals import Cell
    from pyvc.core import BIRTH
    ctx = interp.ctx
    x = args[0]
    memo = args[1] if len(args) > 1 else kwargs.get("memo")
    if x is None or isinstance(x, (bool, int, float, str)) or (isinstance(x, SV) and x.ty.name in ("Bool", "Int", "Real", "Str", "AStr")):
        return x
    if not (isinstance(x, SV) and (x.ty.name == "Ref" or (x.ty.name == "Opt" and x.ty.args[0].name == "Ref"))):
        return interp.opaque_call("copy.deepcopy", args, kwargs)
    rty = x.ty if x.ty.name == "Ref" else x.ty.args[0]
    key = x.t if x.ty.name == "Ref" else sort_of(x.ty).val(x.t)
    now0 = ctx.now
    new = interp.new_object(rty.args[0].name)
    from pyvc import contract as _C
    if _C.class_field(rty.args[0].name, "__str__") is not None and x.ty.name == "Ref":
        # a deep copy prints like its original (classes whose model has the text view __str__)
        interp.field_write(new, "__str__", interp.field_read(x, "__str__"))
    r = new.t
    if isinstance(memo, Cell) and memo.kind == "dict":
        if memo.sym is None:
            interp.symbolise(memo)
        mty = memo.sym.ty
        ms = sort_of(mty)
        m0 = memo.sym.t
        r = z3.If(z3.Select(ms.dom(m0), key), z3.Select(ms.val(m0), key), new.t)
        interp.mutate(memo, "copy.deepcopy(.., memo)")
        m1 = z3.Const(ctx.fresh_name("memo"), ms)
        k = z3.Int(ctx.fresh_name("k"))
        ctx.assume(z3.ForAll([k], z3.If(z3.Select(ms.dom(m0), k),
                                        z3.And(z3.Select(ms.dom(m1), k), z3.Select(ms.val(m1), k) == z3.Select(ms.val(m0), k)),
                                        z3.Implies(z3.Select(ms.dom(m1), k), BIRTH(z3.Select(ms.val(m1), k)) >= now0))))
        memo.sym = SV(mty, m1)
        interp.write_back(memo)
    now1 = z3.Int(ctx.fresh_name("now"))
    ctx.assume(now1 >= ctx.now)
    ctx.now = now1
    if x.ty.name == "Ref":
        return SV(rty, r)
    so = sort_of(x.ty)
    return SV(x.ty, z3.If(so.is_none(x.t), so.none, so.some(r)))


def _answered(name, opt_ty):
    def f(interp, args, kwargs):
        """uninterpreted function of (schema, tag, prefix): what the schema's find_tag_entry answers"""
        from pyvc.vals import TOpt, TRef
        ty = TOpt(TRef("TagEntry")) if opt_ty == "entry" else TOpt(STR)
        fn = z3.Function(name, z3.IntSort(), z3.IntSort(), z3.StringSort(), sort_of(ty))
        return SV(ty, fn(args[0].t, args[1].t, _s(interp, args[2])))
    return f


def _str_join(interp, args, kwargs):
    """sep.join(L) for a symbolic list of strings (native encoding): the result holds part j at join_off(result, j); parts are one separator
    apart; the text ends with the last part (exact characterisation of the positions, the way str.split is modelled)"""
    from pyvc.vals import TList, Cell
    ctx = interp.ctx
    sep = _s(interp, args[0])
    lst = args[1]
    if isinstance(lst, Cell) and lst.sym is None:
        parts = [_s(interp, x) for x in lst.conc]
        if not parts:
            return ""
        t = parts[0]
        for p_ in parts[1:]:
            t = z3.Concat(t, sep, p_)
        return SV(STR, t)
    if isinstance(lst, Opaque) or getattr(lst, "unknown", False) or (isinstance(lst, tuple) and lst and lst[0] == "genexp"):
        # parts the encoding knows nothing about (a generator over unmodelled values): the result is SOME text
        return SV(STR, z3.Const(ctx.fresh_name("joined"), z3.StringSort()))
    sv = lst.sym if isinstance(lst, Cell) else lst
    ty = sv.ty
    if ty != TList(STR):
        raise Unsupported("str.join of a list that is not a list of strings")
    so = sort_of(ty)
    f = z3.Function("join_of", z3.StringSort(), so, z3.StringSort())
    off = z3.Function("join_off", z3.StringSort(), so, z3.IntSort(), z3.IntSort())
    r = f(sep, sv.t)
    k = z3.Int(ctx.fresh_name("k"))
    pk = z3.Select(so.data(sv.t), k)
    n = so.len(sv.t)
    ctx.assume(off(sep, sv.t, 0) == 0)
    ctx.assume(z3.ForAll([k], z3.Implies(z3.And(0 <= k, k < n),
                                         z3.And(off(sep, sv.t, k + 1) == off(sep, sv.t, k) + z3.Length(pk) + z3.Length(sep),
                                                z3.SubString(r, off(sep, sv.t, k), z3.Length(pk)) == pk)), patterns=[pk]))
    ctx.assume(z3.If(n > 0, z3.Length(r) == off(sep, sv.t, n) - z3.Length(sep), r == z3.StringVal("")))
    return SV(STR, r)


def _join_off(interp, args, kwargs):
    """join_off(sep, L, j): start of part j inside sep.join(L) (specification only)"""
    from pyvc.vals import TList, Cell, INT
    lst = args[1]
    sv = lst.sym if isinstance(lst, Cell) else lst
    so = sort_of(TList(STR))
    off = z3.Function("join_off", z3.StringSort(), so, z3.IntSort(), z3.IntSort())
    return SV(INT, off(_s(interp, args[0]), sv.t, interp.ctx.term(args[2], INT)))


def _str_count_native(interp, args, kwargs):
    """s.count(c) for native strings: uninterpreted, with count >= 0 and count == 0 iff c does not occur"""
    ctx = interp.ctx
    t, c = _s(interp, args[0]), _s(interp, args[1])
    f = z3.Function("count_of", z3.StringSort(), z3.StringSort(), z3.IntSort())
    r = f(t, c)
    ctx.assume(r >= 0)
    ctx.assume((r == 0) == z3.Not(z3.Contains(t, c)))
    return SV(INT, r)


def _format_error_with_context(interp, args, kwargs):
    """ErrorHandler.format_error_with_context(handler, kind, ...) called through the class: for error-severity kinds the
    same single issue as format_error (the handler only adds context and drops warnings)"""
    from contracts.common import _format_error
    kind = args[1]
    entry = interp.engine.errtab.get(kind) if isinstance(kind, str) else None
    if entry is None or entry["severity"] != 1:
        raise Unsupported("format_error_with_context for a non-error kind")
    return _format_error(interp, list(args[1:]), kwargs)


def _struct_equal(interp, args, kwargs):
    """the structural == of HedGroup (uninterpreted reflexive relation, same symbol as the engine uses for `==`)"""
    f = z3.Function("struct_eq", z3.IntSort(), z3.IntSort(), z3.BoolSort())
    interp.ctx.assume(z3.Implies(args[0].t == args[1].t, f(args[0].t, args[1].t)))
    return SV(BOOL, f(args[0].t, args[1].t))


def _canon_of(interp, args, kwargs):
    from pyvc.vals import TRef
    f = z3.Function("canon_of", z3.IntSort(), z3.IntSort())
    return SV(TRef("HedGroup"), f(interp.ctx.term(args[0], TRef("HedGroup"))))


def _expansion_of(interp, args, kwargs):
    from pyvc.vals import TRef, TOpt
    ty = TOpt(TRef("HedGroup"))
    f = z3.Function("expansion_of", z3.IntSort(), z3.IntSort(), z3.StringSort(), sort_of(ty))
    return SV(ty, f(args[0].t, args[1].t, _s(interp, args[2])))


def _empty_str_set(interp, args, kwargs):
    return SV(TSet(STR), z3.K(z3.StringSort(), z3.BoolVal(False)))


def _bool_unknown(name):
    def f(interp, args, kwargs):
        return SV(BOOL, z3.Bool(interp.ctx.fresh_name(name)))
    return f


def _makedirs(interp, args, kwargs):
    _effect(interp, "mkdir")
    g = interp.ctx.ghost
    if "fs_mkdir_may_clash" in g:
        # os.makedirs without exist_ok=True raises FileExistsError when ANOTHER process creates the directory first (a test with
        # os.path.exists beforehand does not help: the other process may run between the test and the call)
        ok = kwargs.get("exist_ok", args[2] if len(args) > 2 else False)
        if ok is not True:
            g["fs_mkdir_may_clash"] = True
    return None


def _copy(interp, args, kwargs):
    ctx = interp.ctx
    dst = _s(interp, args[1])
    g = ctx.ghost
    _effect(interp, "copy")
    # a copy is not atomic: while it runs (or if it is interrupted) the destination exists but is incomplete.
    # C19 L2: that must never be a name the cache serves (version_pattern / library_data.json)
    if "fs_torn_servable" in g:
        ctx.assume(z3.Implies(_servable(dst), z3.Or(z3.SuffixOf(z3.StringVal(".xml"), dst),
                                                    z3.SuffixOf(z3.StringVal(".json"), dst))))
        g["fs_torn_servable"] = SV(BOOL, z3.Or(ctx.term(g["fs_torn_servable"], BOOL), _servable(dst)))
    if "fs_copy_src" in g:
        m = g["fs_copy_src"]
        g["fs_copy_src"] = SV(m.ty, z3.Store(m.t, dst, _s(interp, args[0])))
    if "fs_copied" in g:
        cur = g["fs_copied"]
        ty = TSet(STR)
        t = ctx.term(cur, ty)
        g["fs_copied"] = SV(ty, z3.Store(t, dst, z3.BoolVal(True)))
    return SV(STR, dst)


def _replace(interp, args, kwargs):
    _effect(interp, "replace")
    ctx = interp.ctx
    ctx.may_raise(z3.Bool(ctx.fresh_name("replace_fails")), "OSError", "os.replace") if interp.engine.exception_expected(ctx, "OSError") else None
    return None


def _remove(interp, args, kwargs):
    _effect(interp, "remove")
    g = interp.ctx.ghost
    if "fs_removed" in g:          # names unlinked so far (ghost set)
        cur = g["fs_removed"]
        g["fs_removed"] = interp.set_union(cur, interp.make_set([SV(STR, _s(interp, args[0]))])) if hasattr(interp, "make_set") else cur
    if "fs_remove_count" in g:
        g["fs_remove_count"] = SV(INT, interp.ctx.term(g["fs_remove_count"], INT) + 1)
    interp.ctx.may_raise(z3.Bool(interp.ctx.fresh_name("remove_fails")), "OSError", "os.remove") \
        if interp.engine.exception_expected(interp.ctx, "OSError") else None
    return None


def _open(interp, args, kwargs):
    ctx = interp.ctx
    mode = args[1] if len(args) > 1 else kwargs.get("mode", "r")
    f = interp.new_object("File")
    interp.field_write(f, "path", SV(STR, _s(interp, args[0])))
    interp.field_write(f, "mode", mode if isinstance(mode, str) else "r")
    if isinstance(mode, str) and mode.startswith("r"):
        ctx.may_raise(z3.Bool(ctx.fresh_name("file_missing")), "FileNotFoundError", "open(r)")
    else:
        _effect(interp, "open-w")
        g = ctx.ghost
        if "fs_non_truncating_opens" in g and not (isinstance(mode, str) and mode.startswith("w")):
            # 'a', 'r+', 'x' ... keep what the file held: the new content does not REPLACE the old one
            g["fs_non_truncating_opens"] = SV(INT, ctx.term(g["fs_non_truncating_opens"], INT) + 1)
        g = ctx.ghost
        if "fs_record_written" in g and "fs_record_open" in g:
            g["fs_record_open"] = SV(BOOL, z3.BoolVal(True))
    return f


def _readline(interp, args, kwargs):
    ctx = interp.ctx
    return SV(STR, z3.Const(ctx.fresh_name("line"), z3.StringSort()))


def _file_write(interp, args, kwargs):
    _effect(interp, "write")
    ctx = interp.ctx
    if interp.engine.exception_expected(ctx, "OSError"):
        ctx.may_raise(z3.Bool(ctx.fresh_name("write_fails")), "OSError", "write")
    return None


def _json_dump(interp, args, kwargs):
    ctx = interp.ctx
    g = ctx.ghost
    if "fs_record_written" in g:
        # C18: the record may only be written once every file has its completed copy
        if "fs_record_pre" in g:
            pre = g["fs_record_pre"]
            ctx.oblige("call-pre", "json.dump(record).all-copies-complete", ctx.zbool(ctx.truth(pre(interp, args[0]))),
                       info={"callee": "json.dump", "clause": "every recorded file has a completed copy"})
        _effect(interp, "write-record")
        g["fs_record_written"] = SV(BOOL, z3.BoolVal(True))
    return None


def _time(interp, args, kwargs):
    return SV(REAL, z3.Real(interp.ctx.fresh_name("now")))


def _lock_ctor(interp, args, kwargs):
    ctx = interp.ctx
    lk = interp.new_object("PLock")
    interp.field_write(lk, "held", False)       # constructing does NOT acquire
    interp.field_write(lk, "filename", SV(STR, _s(interp, args[0])))
    g = ctx.ghost
    if "lock_wait_is_the_short_constant" in g:
        # how long acquire() waits before it gives up: the contract wants the short documented constant, not a value taken from elsewhere
        t = kwargs.get("timeout", args[2] if len(args) > 2 else None)
        g["lock_wait_is_the_short_constant"] = isinstance(t, (int, float)) and not isinstance(t, bool) and 0 < t <= 5
    return lk


def _lock_acquire(interp, args, kwargs):
    ctx = interp.ctx
    lk = args[0]
    ctx.may_raise(z3.Bool(ctx.fresh_name("lock_timeout")), "LockException", "acquire")
    interp.field_write(lk, "held", True)
    return lk


def _lock_release(interp, args, kwargs):
    interp.field_write(args[0], "held", False)
    return None


if z3 is not None:
    EXTERNS.update({
        "os.path.join": _join_model, "os.path.realpath": _realpath_model, "os.path.dirname": _dirname_model,
        "os.path.basename": _basename_model, "os.path.split": _split_model,
        "os.path.isdir": _bool_unknown("isdir"), "os.path.exists": _bool_unknown("exists"),
        "os.path.isfile": _bool_unknown("isfile"),
        "os.makedirs": _makedirs, "shutil.copy2": _copy, "shutil.copy": _copy, "shutil.copyfile": _copy, "copyfile": _copy,
        "os.replace": _replace, "os.remove": _remove, "open": _open, "File.readline": _readline, "File.write": _file_write,
        "json.dump": _json_dump, "time.time": _time,
        "file_key_of": _ufun("file_key_of", 2), "backup_path_of": _ufun("backup_path_of", 3), "empty_str_set": _empty_str_set,
        "datetime.now": lambda interp, args, kwargs: Opaque("now", fresh=True),
        "string_issues_of": _ulist("string_issues_of", 3), "char_issues_of": _ulist("char_issues_of", 3),
        "canonical_issues_of": _ulist("canonical_issues_of", 1), "tag_rule_issues_of": _ulist("tag_rule_issues_of", 3),
        "def_issues_of": _ulist("def_issues_of", 2), "all_tags_of": _ulist("all_tags_of", 1, "HedTag"), "direct_tags_of": _ulist("direct_tags_of", 1, "HedTag"),
        "text_char_issues_of": _ulist("text_char_issues_of", 2), "delimiter_issues_of": _ulist("delimiter_issues_of", 1),
        "slash_issues_of": _ulist("slash_issues_of", 1), "value_rule_issues_of": _ulist("value_rule_issues_of", 2), "ext_char_issues_of": _ulist("ext_char_issues_of", 2),
        "derivative_unit_of": _derivative_unit_of, "float_parses": _float_parses, "float_of": _float_of, "SchemaEntry.has_attribute": _entry_has_attribute,
        "UnitClassEntry.has_attribute": _entry_has_attribute, "UnitEntry.has_attribute": _entry_has_attribute,
        "struct_equal": _struct_equal, "canon_of": _canon_of, "expansion_of": _expansion_of,
        "def_tags_of": _ulist("def_tags_of", 1, "HedTag"),
        "tag_view": _tag_view, "basic_issues_of": _ulist("basic_issues_of", 3), "full_issues_of": _ulist("full_issues_of", 2),
        "str.rpartition": _partition(True), "str.partition": _partition(False),
        "str.count": _str_count_native, "count_of": _str_count_native,
        "ErrorHandler.format_error_with_context": _format_error_with_context,
        "str.replace": _str_replace, "str.split": _str_split, "str.join": _str_join, "join_off": _join_off, "answered_entry": _answered("answered_entry", "entry"), "answered_remainder": _answered("answered_remainder", "rem"), "split_off": _split_off, "copy.deepcopy": _deepcopy, "replace_all": _str_replace,
        "forall_str": _forall_str, "dirname_of": _dirname_model, "commonpath2": _ufun("commonpath2", 2),
        "os.path.commonpath": lambda interp, args, kwargs: _ufun("commonpath2", 2)(interp, list(interp.iter_items_concrete(args[0])), {}), "basename_of": _basename_model, "original_path_of": _ufun("original_path_of", 2),
        "backup_keys": lambda interp, args, kwargs: interp.ctx.wrap(z3.Function("backup_keys", z3.IntSort(), z3.StringSort(), sort_of(__import__("pyvc.vals", fromlist=["TList"]).TList(STR)))(args[0].t, _s(interp, args[1])), __import__("pyvc.vals", fromlist=["TList"]).TList(STR)), "unknown_src_map": _src_map, "src_of": _src_of,
        "servable": _servable_spec, "servable_in_any_folder": _servable_any, "os.listdir": lambda interp, args, kwargs: Opaque("os.listdir()", fresh=True),
        "portalocker.Lock": _lock_ctor, "PLock.acquire": _lock_acquire, "PLock.release": _lock_release,
    })
