from pyvc.contract import contract, class_model

# C12: "asking for errors only returns exactly the error-severity subset"
contract("C12.filter_issues_by_severity",
         file="hed/errors/error_reporter.py", func="ErrorHandler.filter_issues_by_severity",
         params={"issues_list": "List[Issue]", "severity": "Int"}, returns="List[Issue]", enc="native",
         ensures={
             "C12.filter.only_allowed": "all(result[k]['severity'] <= severity for k in range(len(result)))",
             "C12.filter.nothing_lost": "all(implies(issues_list[i]['severity'] <= severity,"
                                        " any(result[k] is issues_list[i] for k in range(len(result))))"
                                        " for i in range(len(issues_list)))",
             "C12.filter.nothing_invented": "all(any(result[k] is issues_list[i] for i in range(len(issues_list)))"
                                            " for k in range(len(result)))",
             "C12.filter.no_longer": "len(result) <= len(issues_list)",
             "C12.filter.subset_with_allowed_severity": "all_in(result, lambda x: x.severity <= severity and x in issues_list)",
             "C12.filter.every_allowed_issue_kept": "all_in(issues_list, lambda x: implies(x.severity <= severity, x in result))",
         },
         bounded={"cases": "rt.gens.issue_lists", "adapter": "rt.adapters.issues_as_objects", "share": True})

# trusted helper: locating the tag of an issue in the validated text (HedString._get_org_span is C02/C07 territory).
# Its result is named by the ghost fields span_start/span_end of the Issue model.
contract("C12.get_tag_span_to_error_object",
         file="hed/errors/error_reporter.py", func="ErrorHandler._get_tag_span_to_error_object",
         params={"error_object": "Issue"}, returns="Tuple[Opt[Int],Opt[Int]]", enc="native", trusted=True,
         ensures={"span": "result[0] == error_object.span_start and result[1] == error_object.span_end",
                  "both": "(error_object.span_start is None) == (error_object.span_end is None)"})

# C12: offsets lie inside the text span of the tag and select the sub-fragment named by the tag-relative indices
contract("C12.update_error_with_char_pos",
         file="hed/errors/error_reporter.py", func="ErrorHandler._update_error_with_char_pos",
         params={"error_object": "Issue"}, returns=None, enc="native",
         requires=["issue_wf(error_object)"],
         modifies=["error_object.char_index", "error_object.char_index_end", "error_object.has_char_index",
                   "error_object.has_char_index_end", "error_object.message"],
         ghost={"init": {"suffix_added": "0"},
                "update": [("error_object['message'] += f'  Problem spans string indexes: {new_start}, {new_end}'",
                            "suffix_added = suffix_added + 1")]},
         lets={"s": "old(error_object.span_start)", "e": "old(error_object.span_end)",
               "a": "old(error_object.index_in_tag) if old(error_object.has_index_in_tag) else 0"},
         ensures={
             "C12.offsets.inside_tag_span": "implies(s is not None, error_object.has_char_index and error_object.has_char_index_end"
                                            " and s <= error_object.char_index and error_object.char_index <= error_object.char_index_end"
                                            " and error_object.char_index_end <= e)",
             "C12.offsets.select_fragment": "implies(s is not None and not (old(error_object.has_source_tag) and old(error_object.source_tag._tag)),"
                                            " error_object.char_index == s + a and error_object.char_index_end == "
                                            "(s + old(error_object.index_in_tag_end) if old(error_object.has_index_in_tag_end) else e))",
             # "the location suffix appears in the message once": a second decoration must not append it again
             "C12.suffix.appended_only_on_first_decoration": "suffix_added <= 1 and implies(old(error_object.has_char_index), suffix_added == 0)"
                                                             " and implies(s is not None and not old(error_object.has_char_index), suffix_added == 1)",
             "C12.offsets.untouched_when_not_located": "implies(s is None, error_object.has_char_index == old(error_object.has_char_index)"
                                                       " and error_object.char_index == old(error_object.char_index))",
         })

contract("C12.add_context_to_errors", file="hed/errors/error_reporter.py", func="ErrorHandler._add_context_to_errors",
         params={"error_object": "Issue", "error_context_to_add": "Opaque"}, returns="Opaque", enc="native", trusted=True,
         assume=["_add_context_to_errors only adds context keys (file, row, column, string) to the issue dict; it does not "
                 "touch code, message, severity or the index fields"])

class_model("ErrorHandler", {"_check_for_warnings": "Bool", "error_context": "Opaque"})

# C12: decoration keeps every error, drops warnings only when asked to, invents nothing
contract("C12.add_context_and_filter", file="hed/errors/error_reporter.py", func="ErrorHandler.add_context_and_filter",
         params={"self": "ErrorHandler", "issues": "List[Issue]"}, returns=None, enc="native",
         requires=["all_in(issues, lambda x: issue_wf(x))"],
         modifies=["issues", "heap:Issue.char_index", "heap:Issue.char_index_end", "heap:Issue.has_char_index",
                   "heap:Issue.has_char_index_end", "heap:Issue.message"],
         ensures={
             "C12.decorate.errors_always_kept": "all_in(old(issues), lambda x: implies(x.severity <= 1 or self._check_for_warnings, x in issues))",
             "C12.decorate.nothing_invented": "all_in(issues, lambda x: x in old(issues))",
             "C12.decorate.errors_only_when_asked": "implies(not self._check_for_warnings, all_in(issues, lambda x: x.severity <= 1))",
         },
         loops={0: {"invariant": ["all_in(issues, lambda x: issue_wf(x))"]}})

# C12 "points at the offending text": the REAL sub-tag wrapper of @hed_tag_error (the function format_error dispatches to for every rule
# that names a fragment of a tag) hands the message function the fragment tag.tag[index_in_tag:index_in_tag_end] of the text AS WRITTEN -
# the same text the indices are relative to - and stores exactly those indices and the tag in the issue.
from pyvc.contract import EXTERNS as _EX


def _create_error_object(interp, args, kwargs):
    """ErrorHandler._create_error_object(code, message, severity, **kw): the issue dict {'code','message','severity'} + kw (trusted model
    of a three-line function; dict keys appear as fields / has_<key> views of the Issue model)"""
    obj = interp.new_object("Issue")
    W = interp.field_write
    W(obj, "code", args[0])
    W(obj, "message", args[1])
    W(obj, "severity", args[2])
    for f in ("has_source_tag", "has_index_in_tag", "has_index_in_tag_end", "has_char_index", "has_char_index_end", "has_msg_char_index"):
        W(obj, f, False)
    for k, v in kwargs.items():
        if k == "**":
            continue
        W(obj, k, v)
        W(obj, "has_" + k, True)
    return obj


_EX["ErrorHandler._create_error_object"] = _create_error_object
END = "(len(tag.tag) if index_in_tag_end is None else index_in_tag_end)"
contract("C12.sub_tag_wrapper", file="hed/errors/error_reporter.py", func="hed_tag_error.inner_decorator.wrapper#0",
         params={"tag": "HedTag", "index_in_tag": "Int", "index_in_tag_end": "Opt[Int]", "args": "Opaque", "severity": "Int", "kwargs": "Opaque"},
         returns="Issue", enc="native", also=["C01"],
         ghost={"free": {"func": "Recorder", "actual_code": "Str", "default_severity": "Int"}, "init": {"calls_func": "0"}, "no_frame": True},
         requires=["0 <= index_in_tag", "index_in_tag <= " + END, END + " <= len(tag.tag)"],
         ensures={
             "C12.subtag.message_quotes_the_fragment_the_indices_select": "calls_func == 1 and called_func[1] == tag.tag[index_in_tag:" + END + "]",
             "C12.subtag.message_names_the_tag_as_written": "called_func[0] == tag.org_tag",
             "C12.subtag.issue_carries_indices_and_tag": "result.has_index_in_tag and result.index_in_tag == index_in_tag and result.has_index_in_tag_end"
                                                         " and result.index_in_tag_end == " + END + " and result.has_source_tag and result.source_tag is tag",
             "C12.subtag.published_code_and_severity": "result.code == actual_code and result.severity == severity",
         },
         assume=["_create_error_object modelled (issue dict as Issue object); the message function is an unknown callable whose arguments are recorded"])

contract("C12.whole_tag_wrapper", file="hed/errors/error_reporter.py", func="hed_tag_error.inner_decorator.wrapper#1",
         params={"tag": "HedTag", "args": "Opaque", "severity": "Int", "kwargs": "Opaque"}, returns="Issue", enc="native", also=["C01"],
         ghost={"free": {"func": "Recorder", "actual_code": "Str", "default_severity": "Int"}, "init": {"calls_func": "0"}, "no_frame": True},
         ensures={
             "C12.tag.message_names_the_tag_as_written": "calls_func == 1 and called_func[0] == tag.org_tag",
             "C12.tag.issue_carries_the_tag": "result.has_source_tag and result.source_tag is tag and not result.has_index_in_tag",
             "C12.tag.published_code_and_severity": "result.code == actual_code and result.severity == severity",
         },
         assume=["only the HedTag form of the first argument is covered (groups and plain values are exercised by the bounded workload)"])

# C12/C07 "points at the offending text" for row strings built from cell strings: the combined text holds every cell text VERBATIM (no
# trimming) at the offset the span translation uses (one comma between cells), and remembers the cells it came from
contract("C12.hed_string_init_from_contents", file="hed/models/hed_string.py", func="HedString.__init__",
         params={"self": "HedString", "hed_string": "Str", "hed_schema": "Opaque", "def_dict": "Opaque", "_contents": "Opaque"},
         returns=None, enc="native", trusted=True,
         modifies=["self._hed_string"],
         ensures={"text": "self._hed_string == hed_string"},
         assume=["HedString.__init__(text, _contents=...) stores the text it is given (constructor body not verified here)"])
contract("C12.from_hed_strings", file="hed/models/hed_string.py", func="HedString.from_hed_strings",
         params={"cls": "Opaque", "hed_strings": "List[HedString]"}, returns="HedString", enc="native", also=["C07"],
         raises={"TypeError": "len(hed_strings) == 0"},
         lets={"texts": "old([p._hed_string for p in hed_strings])"},
         ensures={
             "C12.join.every_cell_text_verbatim_at_its_offset":
                 "all(result._hed_string[join_off(',', texts, j):join_off(',', texts, j) + len(hed_strings[j]._hed_string)] == hed_strings[j]._hed_string"
                 " for j in range(len(hed_strings)))",
             "C12.join.length_is_cells_plus_commas": "len(result._hed_string) == join_off(',', texts, len(hed_strings)) - 1",
             "C12.join.remembers_its_cells": "len(result._from_strings) == len(hed_strings)"
                                             " and all(result._from_strings[j] is hed_strings[j] for j in range(len(hed_strings)))",
             "C12.join.is_a_new_object": "fresh(result)",
         })

# C07/C12 "each labelled with the ... row ... and the column it came from": the context value pushed is kept as given - also 0 (the first column of
# a header-less spreadsheet, row 0) and '' ; only a missing value (None) is replaced by the neutral value of its kind
class_model("ErrorHandlerStack", {"error_context": "Opaque"})
contract("C12.push_error_context", file="hed/errors/error_reporter.py", func="ErrorHandler.push_error_context",
         params={"self": "ErrorHandlerStack", "context_type": "Str", "context": "Opt[Int]"}, returns=None, enc="native",
         self_class="ErrorHandlerStack", also=["C07"],
         ghost={"no_frame": True, "init": {"pushes": "0"},
                "update": [("self.error_context.append((context_type, context))", "pushed = context"),
                           ("self.error_context.append((context_type, context))", "pushes = pushes + 1")]},
         ensures={"C12.context.given_value_is_kept_also_zero": "implies(context is not None, pushes == 1 and pushed == context)",
                  "C12.context.missing_value_is_neutral": "implies(context is None, pushes == 1 and (pushed == 0 or pushed == ''))"},
         assume=["only numeric context values (row / column numbers) are covered by the parameter type; the stack itself is opaque"])

# C12 "sorting ... orders by file, then sidecar column and key, then row" at the entry points that sort: what the entry point hands back IS
# the sorted list - the sort is the last thing that happens to it, and the only other ways out are the early outs known here
# (decided on the statement list of the real function: back end "dataflow")
for _cid, _file, _fn, _var, _early in (
        ("C12.sidecar_entry_point_hands_back_the_sorted_list", "hed/validator/sidecar_validator.py", "SidecarValidator.validate", "issues", 1),
        ("C12.table_entry_point_hands_back_the_sorted_list", "hed/validator/spreadsheet_validator.py", "SpreadsheetValidator.validate",
         "issues", 0),
        ("C12.schema_compliance_hands_back_the_sorted_list", "hed/schema/schema_compliance.py", "check_compliance", "issues_list", 0)):
    contract(_cid, file=_file, func=_fn, params={}, returns="Opaque", enc="native", prop="C12",
             ghost={"dataflow_only": True, "no_frame": True,
                    "final_value": {"var": _var, "call": "sort_issues", "early_returns": _early}}, ensures={})
