from pyvc.contract import contract, class_model

# C12: "asking for errors only returns exactly the error-severity subset"
contract("C12.filter_issues_by_severity",
         file="hed/errors/error_reporter.py", func="ErrorHandler.filter_issues_by_severity",
         params={"issues_list": "List[Issue]", "severity": "Int"}, returns="List[Issue]", enc="native",
         ensures={
             "C12.filter.only_allowed": "all(result[k]['severity'] <= severity for k in range(len(result)))",
             "C12.filter.nothing_lost": "all(implies(issues_list[i]['severity'] <= severity,"
                                        " any(result[k] is issues_list[i] for k in range(len(result))))"
                                        " for i in range(len(issues_list)))",
             "C12.filter.nothing_invented": "all(any(result[k] is issues_list[i] for i in range(len(issues_list)))"
                                            " for k in range(len(result)))",
             "C12.filter.no_longer": "len(result) <= len(issues_list)",
             "C12.filter.subset_with_allowed_severity": "all_in(result, lambda x: x.severity <= severity and x in issues_list)",
             "C12.filter.every_allowed_issue_kept": "all_in(issues_list, lambda x: implies(x.severity <= severity, x in result))",
         },
         bounded={"cases": "rt.gens.issue_lists", "adapter": "rt.adapters.issues_as_objects", "share": True})

# trusted helper: locating the tag of an issue in the validated text (HedString._get_org_span is C02/C07 territory).
# Its result is named by the ghost fields span_start/span_end of the Issue model.
contract("C12.get_tag_span_to_error_object",
         file="hed/errors/error_reporter.py", func="ErrorHandler._get_tag_span_to_error_object",
         params={"error_object": "Issue"}, returns="Tuple[Opt[Int],Opt[Int]]", enc="native", trusted=True,
         ensures={"span": "result[0] == error_object.span_start and result[1] == error_object.span_end",
                  "both": "(error_object.span_start is None) == (error_object.span_end is None)"})

# C12: offsets lie inside the text span of the tag and select the sub-fragment named by the tag-relative indices
contract("C12.update_error_with_char_pos",
         file="hed/errors/error_reporter.py", func="ErrorHandler._update_error_with_char_pos",
         params={"error_object": "Issue"}, returns=None, enc="native",
         requires=["issue_wf(error_object)"],
         modifies=["error_object.char_index", "error_object.char_index_end", "error_object.has_char_index",
                   "error_object.has_char_index_end", "error_object.message"],
         ghost={"init": {"suffix_added": "0"},
                "update": [("error_object['message'] += f'  Problem spans string indexes: {new_start}, {new_end}'",
                            "suffix_added = suffix_added + 1")]},
         lets={"s": "old(error_object.span_start)", "e": "old(error_object.span_end)",
               "a": "old(error_object.index_in_tag) if old(error_object.has_index_in_tag) else 0"},
         ensures={
             "C12.offsets.inside_tag_span": "implies(s is not None, error_object.has_char_index and error_object.has_char_index_end"
                                            " and s <= error_object.char_index and error_object.char_index <= error_object.char_index_end"
                                            " and error_object.char_index_end <= e)",
             "C12.offsets.select_fragment": "implies(s is not None and not (old(error_object.has_source_tag) and old(error_object.source_tag._tag)),"
                                            " error_object.char_index == s + a and error_object.char_index_end == "
                                            "(s + old(error_object.index_in_tag_end) if old(error_object.has_index_in_tag_end) else e))",
             # "the location suffix appears in the message once": a second decoration must not append it again
             "C12.suffix.appended_only_on_first_decoration": "suffix_added <= 1 and implies(old(error_object.has_char_index), suffix_added == 0)"
                                                             " and implies(s is not None and not old(error_object.has_char_index), suffix_added == 1)",
             "C12.offsets.untouched_when_not_located": "implies(s is None, error_object.has_char_index == old(error_object.has_char_index)"
                                                       " and error_object.char_index == old(error_object.char_index))",
         })

contract("C12.add_context_to_errors", file="hed/errors/error_reporter.py", func="ErrorHandler._add_context_to_errors",
         params={"error_object": "Issue", "error_context_to_add": "Opaque"}, returns="Opaque", enc="native", trusted=True,
         assume=["_add_context_to_errors only adds context keys (file, row, column, string) to the issue dict; it does not "
                 "touch code, message, severity or the index fields"])

class_model("ErrorHandler", {"_check_for_warnings": "Bool", "error_context": "Opaque"})

# C12: decoration keeps every error, drops warnings only when asked to, invents nothing
contract("C12.add_context_and_filter", file="hed/errors/error_reporter.py", func="ErrorHandler.add_context_and_filter",
         params={"self": "ErrorHandler", "issues": "List[Issue]"}, returns=None, enc="native",
         requires=["all_in(issues, lambda x: issue_wf(x))"],
         modifies=["issues", "heap:Issue.char_index", "heap:Issue.char_index_end", "heap:Issue.has_char_index",
                   "heap:Issue.has_char_index_end", "heap:Issue.message"],
         ensures={
             "C12.decorate.errors_always_kept": "all_in(old(issues), lambda x: implies(x.severity <= 1 or self._check_for_warnings, x in issues))",
             "C12.decorate.nothing_invented": "all_in(issues, lambda x: x in old(issues))",
             "C12.decorate.errors_only_when_asked": "implies(not self._check_for_warnings, all_in(issues, lambda x: x.severity <= 1))",
         },
         loops={0: {"invariant": ["all_in(issues, lambda x: issue_wf(x))"]}})
