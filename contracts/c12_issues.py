from pyvc.contract import contract

# C12: "asking for errors only returns exactly the error-severity subset"
contract("C12.filter_issues_by_severity",
         file="hed/errors/error_reporter.py", func="ErrorHandler.filter_issues_by_severity",
         params={"issues_list": "List[Issue]", "severity": "Int"}, returns="List[Issue]", enc="native",
         ensures={
             "C12.filter.only_allowed": "all(result[k]['severity'] <= severity for k in range(len(result)))",
             "C12.filter.nothing_lost": "all(implies(issues_list[i]['severity'] <= severity,"
                                        " any(result[k] is issues_list[i] for k in range(len(result))))"
                                        " for i in range(len(issues_list)))",
             "C12.filter.nothing_invented": "all(any(result[k] is issues_list[i] for i in range(len(issues_list)))"
                                            " for k in range(len(result)))",
             "C12.filter.no_longer": "len(result) <= len(issues_list)",
         },
         bounded={"cases": "rt.gens.issue_lists", "adapter": "rt.adapters.issues_as_objects", "share": True})

# trusted helper: locating the tag of an issue in the validated text (HedString._get_org_span is C02/C07 territory).
# Its result is named by the ghost fields span_start/span_end of the Issue model.
contract("C12.get_tag_span_to_error_object",
         file="hed/errors/error_reporter.py", func="ErrorHandler._get_tag_span_to_error_object",
         params={"error_object": "Issue"}, returns="Tuple[Opt[Int],Opt[Int]]", enc="native", trusted=True,
         ensures={"span": "result[0] == error_object.span_start and result[1] == error_object.span_end",
                  "both": "(error_object.span_start is None) == (error_object.span_end is None)"})

# C12: offsets lie inside the text span of the tag and select the sub-fragment named by the tag-relative indices
contract("C12.update_error_with_char_pos",
         file="hed/errors/error_reporter.py", func="ErrorHandler._update_error_with_char_pos",
         params={"error_object": "Issue"}, returns=None, enc="native",
         requires=[
             "(error_object.span_start is None) == (error_object.span_end is None)",
             "implies(error_object.span_start is not None, 0 <= error_object.span_start <= error_object.span_end)",
             # established at every format_error call site (call-pre obligations of the sub-tag wrapper):
             "implies(error_object.has_index_in_tag, 0 <= error_object.index_in_tag)",
             "implies(error_object.has_index_in_tag and error_object.has_index_in_tag_end and error_object.span_start is not None,"
             " error_object.index_in_tag <= error_object.index_in_tag_end"
             " and error_object.index_in_tag_end <= error_object.span_end - error_object.span_start)",
             "implies(error_object.has_index_in_tag and not error_object.has_index_in_tag_end and error_object.span_start is not None,"
             " error_object.index_in_tag <= error_object.span_end - error_object.span_start)",
             "implies(error_object.has_index_in_tag_end, error_object.has_index_in_tag and error_object.index_in_tag_end is not None)",
             "implies(error_object.has_source_tag, error_object.source_tag is not None)",
         ],
         modifies=["error_object.char_index", "error_object.char_index_end", "error_object.has_char_index",
                   "error_object.has_char_index_end", "error_object.message"],
         ghost={"init": {"suffix_added": "0"},
                "update": [("error_object['message'] += f'  Problem spans string indexes: {new_start}, {new_end}'",
                            "suffix_added = suffix_added + 1")]},
         lets={"s": "old(error_object.span_start)", "e": "old(error_object.span_end)",
               "a": "old(error_object.index_in_tag) if old(error_object.has_index_in_tag) else 0"},
         ensures={
             "C12.offsets.inside_tag_span": "implies(s is not None, error_object.has_char_index and error_object.has_char_index_end"
                                            " and s <= error_object.char_index and error_object.char_index <= error_object.char_index_end"
                                            " and error_object.char_index_end <= e)",
             "C12.offsets.select_fragment": "implies(s is not None and not (old(error_object.has_source_tag) and old(error_object.source_tag._tag)),"
                                            " error_object.char_index == s + a and error_object.char_index_end == "
                                            "(s + old(error_object.index_in_tag_end) if old(error_object.has_index_in_tag_end) else e))",
             # "the location suffix appears in the message once": a second decoration must not append it again
             "C12.suffix.appended_only_on_first_decoration": "suffix_added <= 1 and implies(old(error_object.has_char_index), suffix_added == 0)"
                                                             " and implies(s is not None and not old(error_object.has_char_index), suffix_added == 1)",
             "C12.offsets.untouched_when_not_located": "implies(s is None, error_object.has_char_index == old(error_object.has_char_index)"
                                                       " and error_object.char_index == old(error_object.char_index))",
         })
