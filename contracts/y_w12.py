"""Contracts of writer w12 (third pass; C06, C07, C08): tabular model code that had no proved contract."""
from pyvc.contract import contract, class_model, EXTERNS, CLASSES

try:
    import z3
    from pyvc.vals import SV, Cell, Opaque, Unsupported, INT, BOOL, STR
except ImportError:
    z3 = None

BI = "hed/models/base_input.py"
CMP = "hed/models/column_mapper.py"
TI = "hed/models/tabular_input.py"

# ---- C06 "gives the same answer every time it is asked" (T line: discharges the trusted summary C06.reset_mapper): the mapper handed in IS
# the one the table keeps; when the table has a header, that mapper (and no other) is told the table's own columns, once
class_model("ColumnsW12", {})
class_model("FrameW12", {"columns": "ColumnsW12"})
# (the discharge test wants the summary's own parameter types: the two fields of the table object that reset_mapper reads are ADDED to the
# existing model TabularInputM - nothing of it is replaced)
CLASSES["TabularInputM"]["fields"].setdefault("_dataframe", "Opt[FrameW12]")
CLASSES["TabularInputM"]["fields"].setdefault("_has_column_names", "Bool")
contract("C06.w12.set_column_map_view", file=CMP, func="ColumnMapper.set_column_map", params={"self": "ColumnMapper", "new_column_map": "ColumnsW12"},
         returns=None, enc="native", trusted=True, ensures={},
         ghost={"sets": {"g_maps_set": "g_maps_set + 1", "g_map_of": "self", "g_map_given": "new_column_map"}},
         assume=["summary of ColumnMapper.set_column_map for BaseInput.reset_mapper: the call, its receiver and its argument are remembered "
                 "(ghost g_maps_set, g_map_of, g_map_given); what it does to the mapper's own maps is not stated"])
contract("C06.reset_mapper_keeps_the_mapper_given_and_tells_it_the_columns", file=BI, func="BaseInput.reset_mapper",
         params={"self": "TabularInputM", "new_mapper": "ColumnMapper"}, returns=None, enc="native", self_class="TabularInputM",
         modifies=["self._mapper"],
         ghost={"not_at_call_sites": True, "discharges": "C06.reset_mapper", "init": {"g_maps_set": "0"}},
         ensures={
             "set": "self._mapper is new_mapper",
             "C06.reset.header_columns_are_told_to_that_mapper_once":
                 "implies(self._dataframe is not None and self._has_column_names,"
                 " g_maps_set == 1 and g_map_of is new_mapper and g_map_given is self._dataframe.columns)",
             "C06.reset.no_header_no_column_map": "implies(self._dataframe is None or not self._has_column_names, g_maps_set == 0)",
         })

# ---- C06 "the categorical entry selected by each categorical cell ... each value template": the column descriptions a mapper works from are
# those of ITS sidecar (the very dictionary, not a stale copy), and none at all without a sidecar
class_model("ColumnDataW12", {})
class_model("SchemaW12", {})
class_model("ExtraDefsW12", {})
class_model("SidecarW12", {"column_data": "Map[Str,ColumnDataW12]"}, bases=["SidecarM"])
class_model("MapperW12", {"_sidecar": "Opt[SidecarW12]", "_tag_columns": "Opt[List[Str]]", "_optional_tag_columns": "Opt[List[Str]]"})
contract("C06.mapper_column_descriptions_are_its_sidecars", file=CMP, func="ColumnMapper.sidecar_column_data",
         params={"self": "MapperW12"}, returns="Opaque", enc="native", self_class="MapperW12", modifies=[],
         ghost={"not_at_call_sites": True},
         ensures={
             "C06.columns.with_a_sidecar_its_column_data": "implies(self._sidecar is not None, result is self._sidecar.column_data)",
             "C06.columns.without_a_sidecar_none": "implies(self._sidecar is None, len(result) == 0)",
         })

# ---- C06 "the union of: the HED column cell, ...": the columns named as tag columns are stored as given (none when omitted), and the final
# column map is rebuilt - after both lists are stored - exactly when asked
contract("C06.w12.finalize_mapping_view", file=CMP, func="ColumnMapper._finalize_mapping", params={"self": "MapperW12"},
         returns=None, enc="native", trusted=True, self_class="MapperW12", ensures={},
         ghost={"sets": {"g_finalized": "g_finalized + 1", "g_tags_then": "self._tag_columns", "g_opt_then": "self._optional_tag_columns"}},
         assume=["summary of ColumnMapper._finalize_mapping for set_tag_columns: the call and the tag-column lists it sees are remembered "
                 "(ghost g_finalized, g_tags_then, g_opt_then); the rebuilt map itself is not stated"])
contract("C06.tag_columns_stored_as_given_then_map_rebuilt", file=CMP, func="ColumnMapper.set_tag_columns",
         params={"self": "MapperW12", "tag_columns": "Opt[List[Str]]", "optional_tag_columns": "Opt[List[Str]]", "finalize_mapping": "Bool"},
         returns=None, enc="native", self_class="MapperW12", modifies=["self._tag_columns", "self._optional_tag_columns"],
         ghost={"not_at_call_sites": True, "init": {"g_finalized": "0"}},
         ensures={
             "C06.tags.given_list_is_stored": "implies(tag_columns is not None, self._tag_columns == tag_columns)",
             "C06.tags.omitted_means_none": "implies(tag_columns is None, self._tag_columns is not None and len(self._tag_columns) == 0)",
             "C06.tags.given_optional_list_is_stored": "implies(optional_tag_columns is not None, self._optional_tag_columns == optional_tag_columns)",
             "C06.tags.omitted_optional_means_none": "implies(optional_tag_columns is None, self._optional_tag_columns is not None and len(self._optional_tag_columns) == 0)",
             "C06.tags.map_rebuilt_once_when_asked_from_the_new_lists":
                 "implies(finalize_mapping, g_finalized == 1 and g_tags_then == self._tag_columns and g_opt_then == self._optional_tag_columns)",
             "C06.tags.map_not_rebuilt_otherwise": "implies(not finalize_mapping, g_finalized == 0)",
         })

# ---- C07 "it reports exactly the error codes that string-level validation reports" (definitions in force) / C06: the definitions of a mapper
# with a sidecar are those its sidecar answers for the SAME schema and extra dictionaries; only without a sidecar a new dictionary is made
contract("C07.w12.sidecar_def_dict_view", file="hed/models/sidecar.py", func="Sidecar.get_def_dict",
         params={"self": "SidecarW12", "hed_schema": "Opt[SchemaW12]", "extra_def_dicts": "Opt[ExtraDefsW12]"}, returns="DefinitionDict",
         enc="native", trusted=True, self_class="SidecarW12", ensures={},
         ghost={"sets": {"g_dd_asked": "g_dd_asked + 1", "g_dd_of": "self", "g_dd_schema": "hed_schema", "g_dd_extra": "extra_def_dicts",
                         "g_dd_answer": "result"}},
         assume=["summary of Sidecar.get_def_dict for its callers in ColumnMapper / TabularInput: the call, its receiver, its arguments and its "
                 "answer are remembered (ghost g_dd_*); the dictionary's contents are not stated"])
DD_ENS = {
    "C07.defs.with_a_sidecar_its_answer_for_the_same_schema_and_extras":
        "implies(self._sidecar is not None, g_dd_asked == 1 and g_dd_of is self._sidecar and result is g_dd_answer"
        " and ((hed_schema is None and g_dd_schema is None) or g_dd_schema is hed_schema)"
        " and ((extra_def_dicts is None and g_dd_extra is None) or g_dd_extra is extra_def_dicts))",
    "C07.defs.without_a_sidecar_a_new_dictionary": "implies(self._sidecar is None, g_dd_asked == 0 and fresh(result))",
}
contract("C07.mapper_definitions_are_its_sidecars", file=CMP, func="ColumnMapper.get_def_dict",
         params={"self": "MapperW12", "hed_schema": "Opt[SchemaW12]", "extra_def_dicts": "Opt[ExtraDefsW12]"}, returns="DefinitionDict",
         enc="native", self_class="MapperW12", modifies=[], ghost={"not_at_call_sites": True, "init": {"g_dd_asked": "0"}}, ensures=DD_ENS)
class_model("TabularW12", {"_sidecar": "Opt[SidecarW12]"})
contract("C07.table_definitions_are_its_sidecars", file=TI, func="TabularInput.get_def_dict",
         params={"self": "TabularW12", "hed_schema": "Opt[SchemaW12]", "extra_def_dicts": "Opt[ExtraDefsW12]"}, returns="DefinitionDict",
         enc="native", self_class="TabularW12", modifies=[], ghost={"not_at_call_sites": True, "init": {"g_dd_asked": "0"}},
         ensures=dict(DD_ENS, **{"C07.defs.without_a_sidecar_a_new_dictionary": "implies(self._sidecar is None, g_dd_asked == 0)"}),
         assume=["super().get_def_dict(...) (BaseInput.get_def_dict: a new DefinitionDict) is opaque to the verifier: without a sidecar only "
                 "'the sidecar is not asked' is proved"])

# ---- C06 "Assembly ... gives the same answer every time" / T line ColumnMapper.__init__ (trusted view C06.column_mapper_init, field built_from):
# the view field is not a field of the code, so its clause cannot be proved verbatim (no `discharges`); proved instead, of the real body: the
# sidecar the new mapper is bound to IS the one given (none when none is given), the column lists are stored as given (empty when omitted),
# 'n/a' and 'nan' are the absent-cell patterns, and the final map is built once, AFTER the sidecar and the lists are in place
class_model("MapperInitW12", {"_final_column_map": "Opaque", "_no_mapping_info": "Bool", "_column_map": "Opaque", "_reverse_column_map": "Opaque",
                              "_warn_on_missing_column": "Bool", "_tag_columns": "Opt[List[Str]]", "_optional_tag_columns": "Opt[List[Str]]",
                              "_column_prefix_dictionary": "Opt[Map[Str,Str]]", "_na_patterns": "List[Str]"}, bases=["MapperSidecarW7"])
contract("C06.w12.finalize_mapping_at_init_view", file=CMP, func="ColumnMapper._finalize_mapping", params={"self": "MapperInitW12"},
         returns=None, enc="native", trusted=True, self_class="MapperInitW12", ensures={},
         ghost={"sets": {"g_finalized": "g_finalized + 1", "g_tags_then": "self._tag_columns", "g_opt_then": "self._optional_tag_columns",
                         "g_prefix_then": "self._column_prefix_dictionary", "g_sidecar_then": "self._sidecar"}},
         assume=["summary of ColumnMapper._finalize_mapping for ColumnMapper.__init__: the call and the sidecar / column lists it sees are remembered "
                 "(ghost g_finalized, g_*_then); the map it builds is not stated"])
contract("C06.new_mapper_is_bound_to_the_sidecar_given_before_its_map_is_built", file=CMP, func="ColumnMapper.__init__",
         params={"self": "MapperInitW12", "sidecar": "Opt[SidecarM]", "tag_columns": "Opt[List[Str]]", "column_prefix_dictionary": "Opt[Map[Str,Str]]",
                 "optional_tag_columns": "Opt[List[Str]]", "warn_on_missing_column": "Bool"}, returns=None, enc="native", self_class="MapperInitW12",
         modifies=["self._final_column_map", "self._no_mapping_info", "self._column_map", "self._reverse_column_map", "self._warn_on_missing_column",
                   "self._tag_columns", "self._optional_tag_columns", "self._column_prefix_dictionary", "self._na_patterns", "self._sidecar"],
         ghost={"not_at_call_sites": True, "init": {"g_finalized": "0"}},
         ensures={
             "C06.init.bound_to_the_sidecar_given": "(sidecar is None and self._sidecar is None) or (sidecar is not None and self._sidecar is sidecar)",
             "C06.init.tag_columns_as_given": "implies(tag_columns is not None, self._tag_columns == tag_columns)",
             "C06.init.no_tag_columns_by_default": "implies(tag_columns is None, self._tag_columns is not None and len(self._tag_columns) == 0)",
             "C06.init.optional_tag_columns_as_given": "implies(optional_tag_columns is not None, self._optional_tag_columns == optional_tag_columns)",
             "C06.init.no_optional_tag_columns_by_default":
                 "implies(optional_tag_columns is None, self._optional_tag_columns is not None and len(self._optional_tag_columns) == 0)",
             "C06.init.prefix_columns_as_given": "implies(column_prefix_dictionary is not None, self._column_prefix_dictionary == column_prefix_dictionary)",
             "C06.init.no_prefix_columns_by_default":
                 "implies(column_prefix_dictionary is None, self._column_prefix_dictionary is not None)",
             "C06.init.absent_cell_patterns": "len(self._na_patterns) == 2 and self._na_patterns[0] == 'n/a' and self._na_patterns[1] == 'nan'",
             "C06.init.missing_column_warning_as_asked": "self._warn_on_missing_column == warn_on_missing_column",
             "C06.init.map_built_once_after_sidecar_and_lists_are_in_place":
                 "g_finalized == 1 and g_tags_then == self._tag_columns and g_opt_then == self._optional_tag_columns"
                 " and g_prefix_then == self._column_prefix_dictionary"
                 " and ((g_sidecar_then is None and self._sidecar is None) or (g_sidecar_then is not None and g_sidecar_then is self._sidecar))",
         },
         assume=["that the default prefix dictionary is EMPTY is not stated (emptiness of an optional map is undecided by the engine): only that it "
                 "is a dictionary, not None; ColumnMapper._set_sidecar is used through its proved contract (x_w7)"])

# ---- C08 "HED entries are strings or string-valued maps, a value column has exactly one '#', a categorical entry has none": the kind of a column
# description is the kind GIVEN when one is given, else the kind detected - strictly - from its own sidecar entry; its name is the name given.
# The lenient re-reading used by the validator (_get_unvalidated_data) is made on a COPY: the description itself keeps its kind
class_model("ColumnEntryW12", {"column_name": "Opt[Str]", "_source": "Opt[JsonEntryW2]", "source_dict": "JsonEntryW2", "column_type": "Opt[Str]"},
            bases=["ColumnMetadata"])
contract("C08.column_kind_is_the_one_given_else_detected_strictly", file="hed/models/column_metadata.py", func="ColumnMetadata.__init__",
         params={"self": "ColumnEntryW12", "column_type": "Opt[Str]", "name": "Opt[Str]", "source": "Opt[JsonEntryW2]"}, returns=None, enc="native",
         self_class="ColumnEntryW12", modifies=["self.column_name", "self._source", "self.column_type"], ghost={"not_at_call_sites": True},
         ensures={
             "C08.kind.name_as_given": "self.column_name == name",
             "C08.kind.source_as_given": "(source is None and self._source is None) or (source is not None and self._source is source)",
             "C08.kind.given_kind_is_kept": "implies(column_type is not None, self.column_type == column_type)",
             "C08.kind.otherwise_detected_strictly_from_its_entry": "implies(column_type is None, self.column_type == column_kind_of(self.source_dict, True))",
         },
         assume=["the property source_dict (the entry of the column in its source) is a field of the model: that it is read AFTER the source and the "
                 "name are stored is not covered; _detect_column_type is its trusted view column_kind_of (x_w2)"])
contract("C08.lenient_kind_is_read_on_a_copy", file="hed/models/column_metadata.py", func="ColumnMetadata._get_unvalidated_data",
         params={"self": "ColumnEntryW12"}, returns="ColumnEntryW12", enc="native", self_class="ColumnEntryW12", modifies=[],
         ghost={"not_at_call_sites": True},
         ensures={
             "C08.lenient.a_copy_is_handed_out": "fresh(result) and result is not self",
             "C08.lenient.copy_kind_detected_leniently_from_its_own_entry": "result.column_type == column_kind_of(result.source_dict, False)",
         },
         assume=["copy.deepcopy of a modelled object is a new object whose fields are unconstrained in the engine's model: that the copy keeps the "
                 "name and the source is not stated; that the description itself is not written is the frame (modifies nothing)"])

# ---- C06 "gives the same answer every time it is asked, and changes neither the table nor the sidecar" / C08: a new sidecar holds what
# load_sidecar_files answers for the files GIVEN, under the name given, and starts with NO remembered definitions and no extraction issues;
# its definitions are extracted at most once - with the schema asked for - and then kept: a later request never replaces them
SC = "hed/models/sidecar.py"
class_model("FilesW12", {})
class_model("LoadedW12", {})
class_model("SidecarNewW12", {"name": "Opt[Str]", "loaded_dict": "Opt[LoadedW12]", "_def_dict": "Opt[DefinitionDict]",
                              "_extract_definition_issues": "List[Issue]"})
contract("C08.w12.load_sidecar_files_view", file=SC, func="Sidecar.load_sidecar_files", params={"self": "SidecarNewW12", "files": "FilesW12"},
         returns="LoadedW12", enc="native", trusted=True, self_class="SidecarNewW12", ensures={},
         ghost={"sets": {"g_loads": "g_loads + 1", "g_load_files": "files", "g_load_answer": "result"}},
         assume=["summary of Sidecar.load_sidecar_files for Sidecar.__init__: the call, its argument and its answer are remembered (ghost g_loads, "
                 "g_load_files, g_load_answer); the merge itself is proved as C16.later_files_override_earlier_ones_column_by_column; that it may "
                 "set self.name from a file name is not modelled"])
contract("C08.new_sidecar_holds_the_files_given_and_no_remembered_definitions", file=SC, func="Sidecar.__init__",
         params={"self": "SidecarNewW12", "files": "FilesW12", "name": "Opt[Str]"}, returns=None, enc="native", self_class="SidecarNewW12",
         modifies=["self.name", "self.loaded_dict", "self._def_dict", "self._extract_definition_issues"],
         ghost={"not_at_call_sites": True, "init": {"g_loads": "0"}},
         ensures={
             "C08.new.loaded_once_from_the_files_given": "g_loads == 1 and g_load_files is files and self.loaded_dict is g_load_answer",
             "C08.new.name_as_given": "self.name == name",
             "C06.new.no_remembered_definitions": "self._def_dict is None",
             "C08.new.no_extraction_issues_yet": "len(self._extract_definition_issues) == 0",
         })
contract("C08.w12.extract_definitions_view", file=SC, func="Sidecar.extract_definitions",
         params={"self": "SidecarNewW12", "hed_schema": "SchemaW12", "error_handler": "Opaque"},
         returns="DefinitionDict", enc="native", trusted=True, self_class="SidecarNewW12", ensures={"new": "fresh(result)"},
         ghost={"sets": {"g_extracted": "g_extracted + 1", "g_extract_schema": "hed_schema", "g_extract_answer": "result"}},
         assume=["summary of Sidecar.extract_definitions for Sidecar.get_def_dict: a new dictionary; the call, its schema and its answer are "
                 "remembered (ghost g_extracted, g_extract_schema, g_extract_answer); the issues it records on the sidecar are not modelled here"])
contract("C06.sidecar_definitions_are_extracted_once_and_kept", file=SC, func="Sidecar.get_def_dict",
         params={"self": "SidecarNewW12", "hed_schema": "Opt[SchemaW12]", "extra_def_dicts": "Opt[ExtraDefsW12]"}, returns="DefinitionDict",
         enc="native", self_class="SidecarNewW12", modifies=["self._def_dict"],
         ghost={"not_at_call_sites": True, "init": {"g_extracted": "0"}},
         ensures={
             "C06.defs.remembered_definitions_are_kept": "implies(old(self._def_dict) is not None, g_extracted == 0 and self._def_dict is old(self._def_dict))",
             "C06.defs.extracted_once_with_the_schema_asked":
                 "implies(old(self._def_dict) is None and hed_schema is not None,"
                 " g_extracted == 1 and g_extract_schema is hed_schema and self._def_dict is g_extract_answer)",
             "C06.defs.no_schema_no_extraction": "implies(old(self._def_dict) is None and hed_schema is None, g_extracted == 0 and self._def_dict is None)",
             "C06.defs.answer_is_a_new_dictionary": "fresh(result)",
         },
         assume=["the property def_dict (reads _def_dict) and isinstance(extra_def_dicts, list) are opaque to the verifier: WHICH dictionaries are "
                 "combined into the answer is not stated, only that the answer is a new DefinitionDict and what happens to the remembered one"])


# ---- C07 "each labelled with ... the column it came from": the column names a table reports are those of its own data frame, in the frame's
# order, as a NEW list (a caller cannot reorder the frame's header through it) - and none when there is no frame or no header line
class_model("HeaderFrameW12", {"columns": "List[Str]"})
class_model("HeaderInputW12", {"_dataframe": "Opt[HeaderFrameW12]", "_has_column_names": "Bool"})
contract("C07.reported_columns_are_the_frames_own_header", file=BI, func="BaseInput.columns", params={"self": "HeaderInputW12"},
         returns="List[Str]", enc="native", self_class="HeaderInputW12", modifies=[], ghost={"not_at_call_sites": True},
         ensures={
             "C07.columns.header_of_the_frame_in_order": "implies(self._dataframe is not None and self._has_column_names, result == self._dataframe.columns)",
             "C07.columns.none_without_frame_or_header": "implies(self._dataframe is None or not self._has_column_names, len(result) == 0)",
             "C07.columns.a_new_list": "implies(self._dataframe is not None and self._has_column_names, result is not self._dataframe.columns)",
         })

# ---- C07 "Validating an events or spreadsheet file never raises for readable input ... the 1-based file row (header counted)": a named file is
# opened by the reader of ITS kind - the Excel reader for an Excel extension, the text reader for a text extension, told to take line 0 as
# the header exactly when the caller says the file has column names - with the very file given; no file name, or an extension of neither
# kind, is refused with a HedFileError and nothing is read
class_model("OpenInputW12", {"EXCEL_EXTENSION": "List[Str]", "TEXT_EXTENSION": "List[Str]", "name": "Opaque", "_dataframe": "Opaque",
                             "_has_column_names": "Bool"})
contract("C07.w12.load_excel_view", file=BI, func="BaseInput._load_excel_file", params={"self": "OpenInputW12", "file": "Str", "has_column_names": "Bool"},
         returns=None, enc="native", trusted=True, self_class="OpenInputW12", ensures={}, modifies=["self._dataframe"], raises={"HedFileError": "True"},
         ghost={"sets": {"g_excel": "g_excel + 1", "g_excel_file": "file", "g_excel_names": "has_column_names"}},
         assume=["summary of BaseInput._load_excel_file for _open_dataframe_file: the call and its arguments are remembered (ghost g_excel*)"])
contract("C07.w12.load_text_view", file=BI, func="BaseInput._load_text_file", params={"self": "OpenInputW12", "file": "Str", "pandas_header": "Opt[Int]"},
         returns=None, enc="native", trusted=True, self_class="OpenInputW12", ensures={}, modifies=["self._dataframe"], raises={"HedFileError": "True"},
         ghost={"sets": {"g_text": "g_text + 1", "g_text_file": "file", "g_text_header": "pandas_header"}},
         assume=["summary of BaseInput._load_text_file for _open_dataframe_file: the call and its arguments are remembered (ghost g_text*); its body "
                 "is proved as C06.text_file_read_as_text_with_missing_cells_as_na (x_w7)"])
XL = "input_type in self.EXCEL_EXTENSION"
TX = "input_type in self.TEXT_EXTENSION"
contract("C07.named_file_is_opened_by_the_reader_of_its_kind", file=BI, func="BaseInput._open_dataframe_file",
         params={"self": "OpenInputW12", "file": "Str", "has_column_names": "Bool", "input_type": "Str"}, returns=None, enc="native",
         self_class="OpenInputW12", modifies=["self._dataframe"],
         raises={"HedFileError": "True"},
         ghost={"not_at_call_sites": True, "init": {"g_excel": "0", "g_text": "0", "g_text_header": "None", "g_text_file": "''", "g_excel_file": "''", "g_excel_names": "False"}},
         ensures={
             "C07.open.excel_extension_excel_reader_with_this_file": "implies(len(file) > 0 and " + XL + ","
                 " g_excel == 1 and g_text == 0 and g_excel_file == file and g_excel_names == has_column_names)",
             "C07.open.text_extension_text_reader_with_this_file": "implies(len(file) > 0 and not (" + XL + ") and " + TX + ","
                 " g_text == 1 and g_excel == 0 and g_text_file == file)",
             "C07.open.line_0_is_the_header_exactly_when_the_file_has_column_names": "implies(len(file) > 0 and not (" + XL + ") and " + TX + ","
                 " (has_column_names and g_text_header is not None and g_text_header == 0) or (not has_column_names and g_text_header is None))",
             "C07.open.normal_return_means_something_was_read": "len(file) > 0 and (" + XL + " or " + TX + ")",
         },
         assume=["the file-NAME form of `file` is covered (a DataFrame / an open file object is not); the readers are summarised (trusted views); "
                 "which HedFileError code is raised is not stated, only that refusing is the ONLY way nothing is read (a normal return implies a "
                 "non-empty name with a known extension and exactly one reader call)"])

# ---- C07 "Validating an events or spreadsheet file never raises for readable input ... each labelled with the 1-based file row (header counted)":
# an Excel file is read from the very file given, the worksheet is the one NAMED at construction looked up in THAT workbook (after it is
# stored), the table is built from that worksheet with the caller's header flag, and whatever goes wrong surfaces as a HedFileError
class_model("WorkbookW12", {})
class_model("WorksheetW12", {})
class_model("SheetFrameW12", {})
class_model("ExcelInputW12", {"_loaded_workbook": "Opt[WorkbookW12]", "_worksheet_name": "Opt[Str]", "_dataframe": "Opt[SheetFrameW12]", "name": "Opaque"})
if z3 is not None:
    def _load_workbook_w12(interp, args, kwargs):
        """openpyxl.load_workbook(file): a new workbook object; the call and its file are remembered (ghost g_wb_loads, g_wb_file, g_wb)"""
        g = interp.ctx.ghost
        g["g_wb_loads"] = SV(INT, interp.ctx.term(g.get("g_wb_loads", 0), INT) + 1)
        g["g_wb_file"] = args[0]
        obj = interp.new_object("WorkbookW12")
        g["g_wb"] = obj
        return obj
    EXTERNS["openpyxl.load_workbook"] = _load_workbook_w12
contract("C07.w12.get_worksheet_view", file=BI, func="BaseInput.get_worksheet", params={"self": "ExcelInputW12", "worksheet_name": "Opt[Str]"},
         returns="WorksheetW12", enc="native", trusted=True, self_class="ExcelInputW12", ensures={}, modifies=[],
         ghost={"sets": {"g_sheets": "g_sheets + 1", "g_sheet_name": "worksheet_name", "g_sheet_wb_then": "self._loaded_workbook", "g_sheet": "result"}},
         assume=["summary of BaseInput.get_worksheet for _load_excel_file: the call, the name asked for, the workbook loaded at that moment and the "
                 "answer are remembered (ghost g_sheet*)"])
contract("C07.w12.frame_from_worksheet_view", file=BI, func="BaseInput._get_dataframe_from_worksheet",
         params={"worksheet": "WorksheetW12", "has_headers": "Bool"}, returns="SheetFrameW12", enc="native", trusted=True, ensures={},
         self_class="ExcelInputW12",
         ghost={"sets": {"g_frames": "g_frames + 1", "g_frame_sheet": "worksheet", "g_frame_headers": "has_headers", "g_frame": "result"}},
         assume=["summary of BaseInput._get_dataframe_from_worksheet (pandas) for _load_excel_file: the call, its arguments and its answer are "
                 "remembered (ghost g_frame*)"])
contract("C07.excel_table_is_the_named_worksheet_of_the_file_given", file=BI, func="BaseInput._load_excel_file",
         params={"self": "ExcelInputW12", "file": "Str", "has_column_names": "Bool"}, returns=None, enc="native", self_class="ExcelInputW12",
         modifies=["self._loaded_workbook", "self._dataframe"], raises={"HedFileError": "True"},
         ghost={"not_at_call_sites": True, "init": {"g_wb_loads": "0", "g_sheets": "0", "g_frames": "0"}},
         ensures={
             "C07.excel.workbook_of_the_file_given_is_kept": "g_wb_loads == 1 and g_wb_file == file and self._loaded_workbook is g_wb",
             "C07.excel.worksheet_named_at_construction_from_that_workbook":
                 "g_sheets == 1 and g_sheet_wb_then is g_wb and ((self._worksheet_name is None and g_sheet_name is None)"
                 " or (self._worksheet_name is not None and g_sheet_name is not None and g_sheet_name == self._worksheet_name))",
             "C07.excel.table_built_from_that_worksheet_with_the_callers_header_flag":
                 "g_frames == 1 and g_frame_sheet is g_sheet and g_frame_headers == has_column_names and self._dataframe is g_frame",
         },
         assume=["openpyxl.load_workbook is modelled as a call that hands out a new workbook (it may raise: then HedFileError, admitted); "
                 "get_worksheet / _get_dataframe_from_worksheet are summarised (trusted views)"])

# ---- C06 "each value template with '#' replaced by the cell text": a prefix column becomes a value column whose template ALWAYS ends in '/#'
# (a prefix 'Label/' and a prefix 'Label' both give 'Label/#'), every prefix column on its own (none skipped, none leaking into the next)
if z3 is not None:
    def _must_w12(interp, args, kwargs):
        """must_w12(label, cond): an obligation raised from a ghost update (anchored at a statement of the verified function)"""
        ctx = interp.ctx
        ctx.oblige("call-pre", args[0], ctx.zbool(ctx.truth(args[1])), top=True, info={"callee": "ghost-anchor", "clause": args[0]})
        return True
    EXTERNS["must_w12"] = _must_w12
contract("C06.prefix_column_template_ends_in_slash_placeholder", file=CMP, func="ColumnMapper._add_value_columns",
         params={"final_map": "Opaque", "column_prefix_dictionary": "Map[Str,Str]"}, returns=None, enc="native", unwind="havoc",
         modifies=["final_map", "havoc:final_map"],     # (the havocked loop state names the map "havoc:final_map")
         ghost={"not_at_call_sites": True, "no_frame": True,
                "update": [("assign:new_def", "g_tpl = must_w12('C06.prefix.template_is_the_prefix_then_slash_placeholder', prefix.endswith('/#'))")]},
         ensures={},
         assume=["the loop over the prefix dictionary is explored as one arbitrary iteration (an arbitrary column and prefix text); that no column "
                 "is skipped is C06.prefix_columns_each_on_its_own; ColumnMetadata(...) is an opaque construction"])
contract("C06.prefix_columns_each_on_its_own", file=CMP, func="ColumnMapper._add_value_columns", params={}, returns="Opaque", enc="native",
         ghost={"dataflow_only": True, "no_frame": True, "independent_iterations": {0: ["final_map"]}}, ensures={})

# ---- C06 "the union of: the HED column cell, ..." / C07 "the column it came from": the tag columns (and prefix columns) asked for are matched
# against the file's header one by one - none skipped, none influenced by the one before - and only extend the answer
contract("C06.tag_columns_each_matched_on_its_own", file=CMP, func="ColumnMapper._convert_to_names", params={}, returns="Opaque", enc="native",
         ghost={"dataflow_only": True, "no_frame": True, "independent_iterations": {0: ["converted_names"]}}, ensures={})
contract("C06.prefix_columns_each_matched_on_its_own", file=CMP, func="ColumnMapper._convert_to_names_dict", params={}, returns="Opaque", enc="native",
         ghost={"dataflow_only": True, "no_frame": True, "independent_iterations": {0: ["converted_dict"]}}, ensures={})

# ---- C06 "Assembly ... changes neither the table nor the sidecar": the description a file column works with is a COPY of the sidecar's entry
# of that name (the column name is written on the copy, never on the sidecar's own object), looked up under the column's own name; every
# column of the header is handled on its own
contract("C06.file_columns_work_on_copies_of_the_sidecar_entries", file=CMP, func="ColumnMapper._get_sidecar_basic_map",
         params={"column_map": "Map[Int,Opt[Str]]", "column_data": "Map[Str,ColumnEntryW12]"}, returns="Opaque", enc="native", unwind="havoc",
         locals={"basic_final_map": "Map[Str,ColumnEntryW12]", "unhandled_cols": "List[Str]"},
         ghost={"not_at_call_sites": True, "no_frame": True,
                "update": [("column_entry.column_name = column_name",
                            "g_copy = must_w12('C06.copy.entry_is_a_copy_named_after_its_column', fresh(column_entry) and column_name in column_data"
                            " and column_entry.column_name == column_name)")]},
         ensures={},
         assume=["the loop over the header is explored as one arbitrary iteration; copy.deepcopy of a modelled object is a new object (its fields are "
                 "unconstrained in the engine's model, so that the copy EQUALS the entry is not stated); that the sidecar's own entries are not "
                 "written follows from the only attribute write being on that new object (clause fresh(column_entry))"])
contract("C06.header_columns_each_on_its_own", file=CMP, func="ColumnMapper._get_sidecar_basic_map", params={}, returns="Opaque", enc="native",
         ghost={"dataflow_only": True, "no_frame": True, "independent_iterations": {0: ["basic_final_map", "unhandled_cols"]}}, ensures={})


# ---- C07 "plus the column-structure ... issues" / C06 "gives the same answer every time": a new table object opens the very file given with
# the caller's header flag and the kind asked for (the file's own extension only when no kind is given), starts without a stale frame or
# workbook, refuses blank / duplicate column names with a HedFileError exactly when blank names are not allowed and some name is blank, and
# otherwise ends by attaching the mapper GIVEN (a new default one only when none is given) - after the file is open, so that the mapper is
# told the file's columns
class_model("InitInputW12", {"_mapper": "Opt[ColumnMapper]", "_has_column_names": "Bool", "_name": "Opt[Str]", "name": "Opt[Str]",
                             "_loaded_workbook": "Opt[WorkbookW12]", "_worksheet_name": "Opt[Str]", "_dataframe": "Opt[SheetFrameW12]",
                             "columns": "List[Opt[Str]]"})
contract("C07.w12.open_dataframe_file_view", file=BI, func="BaseInput._open_dataframe_file",
         params={"self": "InitInputW12", "file": "Str", "has_column_names": "Bool", "input_type": "Opt[Str]"}, returns=None, enc="native",
         trusted=True, self_class="InitInputW12", ensures={}, modifies=["self._dataframe", "self._has_column_names", "self._loaded_workbook"],
         raises={"HedFileError": "True"},
         ghost={"sets": {"g_opens": "g_opens + 1", "g_open_file": "file", "g_open_names": "has_column_names", "g_open_type": "input_type",
                         "g_resets_then": "g_resets"}},
         assume=["summary of BaseInput._open_dataframe_file for BaseInput.__init__: the call and its arguments are remembered (ghost g_open*); its "
                 "dispatch is proved as C07.named_file_is_opened_by_the_reader_of_its_kind"])
contract("C07.w12.reset_mapper_at_init_view", file=BI, func="BaseInput.reset_mapper", params={"self": "InitInputW12", "new_mapper": "ColumnMapper"},
         returns=None, enc="native", trusted=True, self_class="InitInputW12", modifies=["self._mapper"], ensures={"set": "self._mapper is new_mapper"},
         ghost={"sets": {"g_resets": "g_resets + 1", "g_reset_mapper": "new_mapper", "g_opens_then": "g_opens"}},
         assume=["summary of BaseInput.reset_mapper for BaseInput.__init__ (clause `set` is proved of the body: "
                 "C06.reset_mapper_keeps_the_mapper_given_and_tells_it_the_columns); the call and its argument are remembered (ghost g_reset*)"])
if z3 is not None:
    def _splitext_w12(interp, args, kwargs):
        """os.path.splitext(p): (root, ext) as two deterministic, otherwise unconstrained, functions of the path text"""
        p = interp.ctx.strs.to_native(args[0])
        root = z3.Function("splitext_root_w12", z3.StringSort(), z3.StringSort())
        ext = z3.Function("splitext_ext_w12", z3.StringSort(), z3.StringSort())
        return (interp.ctx.wrap(root(p), STR), interp.ctx.wrap(ext(p), STR))
    EXTERNS.setdefault("os.path.splitext", _splitext_w12)
BLANK12 = "any(self.columns[k] is None or len(self.columns[k]) == 0 or self.columns[k].startswith('Unnamed: ') for k in range(len(self.columns)))"
# (C07.new_table_opens_the_file_given_then_attaches_the_mapper_given on BaseInput.__init__ was withdrawn at registration: one breakage of the
# function was not noticed and another made the prover run out of memory; nothing of it is claimed)

