from pyvc.contract import contract, class_model

A = "hed/schema/schema_attribute_validators.py"
class_model("SchemaEntry", {"name": "Str", "attributes": "Map[Str,Str]", "parent": "Opaque", "units": "Opaque"})
class_model("UnitEntry", {"name": "Str", "attributes": "Map[Str,Str]"})
class_model("UnitClassEntry", {}, bases=["SchemaEntry"])
P = {"hed_schema": "Opaque", "tag_entry": "SchemaEntry", "attribute_name": "Str"}

# C14: a non-positive (or non-numeric) conversion factor is reported with the specification's code
contract("C14.conversion_factor", file=A, func="conversion_factor", params=P, returns="List[Issue]", enc="native",
         lets={"text": "replace_all(tag_entry.attributes[attribute_name] if attribute_name in tag_entry.attributes else '1.0', '^', 'e')"},
         ensures={
             "C14.conversion_factor.reported_iff_not_positive": "(len(result) > 0) == (not (float_parses(text) and float_of(text) > 0))",
             "C14.conversion_factor.code": "all_in(result, lambda x: x.code == 'SCHEMA_ATTRIBUTE_VALUE_INVALID' and x.kind == 'SCHEMA_CONVERSION_FACTOR_NOT_POSITIVE')",
         })

# C14: class attributes on a node that is not a '#' placeholder
contract("C14.tag_is_placeholder_check", file=A, func="tag_is_placeholder_check", params=P, returns="List[Issue]", enc="native",
         unwind="havoc",
         ensures={
             "C14.placeholder.non_placeholder_reported": "implies(not tag_entry.name.endswith('/#'),"
                                                         " any_in(result, lambda x: x.code == 'SCHEMA_ATTRIBUTE_VALUE_INVALID' and x.kind == 'SCHEMA_NON_PLACEHOLDER_HAS_CLASS'))",
         })

contract("C14.get_derivative_unit_entry", file="hed/schema/hed_schema_entry.py", func="UnitClassEntry.get_derivative_unit_entry",
         params={"self": "UnitClassEntry", "units": "Str"}, returns="Opt[UnitEntry]", enc="native", trusted=True,
         ensures={"named": "result == derivative_unit_of(self, units)"})

# C14: default units that are not a unit of the class
contract("C14.unit_exists", file=A, func="unit_exists", params=dict(P, tag_entry="UnitClassEntry"), returns="List[Issue]", enc="native",
         lets={"unit": "tag_entry.attributes[attribute_name] if attribute_name in tag_entry.attributes else ''"},
         ensures={
             "C14.default_units.unknown_unit_reported": "implies(len(unit) > 0 and derivative_unit_of(tag_entry, unit) is None,"
                                                        " any_in(result, lambda x: x.code == 'SCHEMA_ATTRIBUTE_VALUE_INVALID' and x.kind == 'SCHEMA_DEFAULT_UNITS_INVALID'))",
             "C14.default_units.known_unit_not_reported_invalid": "implies(len(unit) == 0 or derivative_unit_of(tag_entry, unit) is not None,"
                                                                  " all_in(result, lambda x: x.kind != 'SCHEMA_DEFAULT_UNITS_INVALID'))",
         })

# C14: inLibrary must name one of the libraries the schema was loaded with (a whole comma-separated field, not a substring)
class_model("SchemaWithLibrary", {"library": "Str"})
contract("C14.in_library_check", file=A, func="in_library_check", params=dict(P, hed_schema="SchemaWithLibrary"), returns="List[Issue]", enc="native",
         bounded={"cases": "rt.gens.in_library_cases", "adapter": "rt.adapters.attribute_validator"},
         lets={"lib": "tag_entry.attributes[attribute_name] if attribute_name in tag_entry.attributes else ''"},
         ensures={
             "C14.in_library.reported_iff_not_a_loaded_library": "(len(result) > 0) == (not is_field(hed_schema.library, ',', lib))",
             "C14.in_library.code": "all_in(result, lambda x: x.code == 'SCHEMA_ATTRIBUTE_VALUE_INVALID' and x.kind == 'SCHEMA_IN_LIBRARY_INVALID')",
         })

# C14 "flags seeded faults": every listed item (suggested/related tag, unit class, value class) that does not exist in its section is
# reported - for EVERY entry, deprecated or not (only the "refers to a deprecated item" note is waived for deprecated entries)
class_model("SchemaSections", {"tags": "Map[Str,SchemaEntry]", "unit_classes": "Map[Str,SchemaEntry]", "value_classes": "Map[Str,SchemaEntry]"})
from pyvc.contract import EXTERNS as _EX14
try:
    from contracts.extern_fs import _entry_has_attribute as _eha
    _EX14["SchemaEntry.has_attribute"] = _eha
except ImportError:
    pass
SEC = "(hed_schema.tags if section_key == 'tags' else (hed_schema.unit_classes if section_key == 'unitClasses' else hed_schema.value_classes))"
ITEMS = "(tag_entry.attributes[attribute_name] if attribute_name in tag_entry.attributes else '').split(',')"
contract("C14.item_exists_check", file=A, func="item_exists_check",
         params={"hed_schema": "SchemaSections", "tag_entry": "SchemaEntry", "attribute_name": "Str", "section_key": "Str"},
         returns="List[Issue]", enc="native",
         requires=["section_key == 'tags' or section_key == 'unitClasses' or section_key == 'valueClasses'"],
         locals={"issues": "List[Issue]"},
         ensures={
             "C14.items.missing_item_reported_for_every_entry": "implies(any_in(" + ITEMS + ", lambda i: len(i) > 0 and i not in " + SEC + "),"
                 " any_in(result, lambda x: x.kind == 'SCHEMA_GENERIC_ATTRIBUTE_VALUE_INVALID' and x.code == 'SCHEMA_ATTRIBUTE_VALUE_INVALID'))",
             "C14.items.all_present_and_current_is_silent": "implies(all_in(" + ITEMS + ", lambda i: len(i) == 0 or (i in " + SEC + " and 'deprecatedFrom' not in " + SEC + "[i].attributes)),"
                 " len(result) == 0)",
         },
         loops={0: {"invariant": [
             "all(implies(len(split_items[k]) > 0 and split_items[k] not in " + SEC + ", any_in(issues, lambda x: x.kind == 'SCHEMA_GENERIC_ATTRIBUTE_VALUE_INVALID'"
             " and x.code == 'SCHEMA_ATTRIBUTE_VALUE_INVALID')) for k in range(_n))",
             "implies(all(len(split_items[k]) == 0 or (split_items[k] in " + SEC + " and 'deprecatedFrom' not in " + SEC + "[split_items[k]].attributes) for k in range(_n)), len(issues) == 0)",
         ]}})
