from pyvc.contract import contract, class_model

# C17: operations are pure functions of their parameters and the input table.
# Table values are pandas (opaque to the encoding); what is decided without bound is
#  (a) the FRAME: every in-place update made by do_op targets an object allocated inside the call
#      (pandas effect table: pyvc/methods.py opaque_method), so neither df, nor the operation object, nor the caller's
#      parameter lists change  => repeated / reordered processing sees the same operation;
#  (b) None-safety under the operation's own JSON schema: __init__ establishes the class invariant that do_op needs.
P = {"dispatcher": "Opaque", "df": "Opaque", "name": "Opaque", "sidecar": "Opaque"}
FRAME = {"C17.frame.no_caller_visible_mutation": "True"}


def op(cid, file, cls, fields, requires=(), raises=None):
    class_model(cls, fields)
    contract(cid, file=f"hed/tools/remodeling/operations/{file}", func=f"{cls}.do_op",
             params=dict(P, self=cls), returns="Opaque", enc="native", requires=list(requires),
             raises=raises or {"ValueError": "True", "KeyError": "True"}, ensures=FRAME, unwind="havoc",
             assume=["loops are explored as one arbitrary iteration from a havocked state (frame / None-safety obligations only)"])


op("C17.reorder_columns.do_op", "reorder_columns_op.py", "ReorderColumnsOp",
   {"column_order": "List[Str]", "ignore_missing": "Bool", "keep_others": "Bool"})
op("C17.remove_rows.do_op", "remove_rows_op.py", "RemoveRowsOp", {"column_name": "Str", "remove_values": "List[Str]"})
op("C17.remove_columns.do_op", "remove_columns_op.py", "RemoveColumnsOp", {"column_names": "List[Str]", "error_handling": "Str"})
op("C17.rename_columns.do_op", "rename_columns_op.py", "RenameColumnsOp", {"column_mapping": "Opaque", "error_handling": "Str"})
op("C17.factor_column.do_op", "factor_column_op.py", "FactorColumnOp",
   {"column_name": "Str", "factor_values": "Opt[List[Str]]", "factor_names": "Opt[List[Str]]"},
   requires=["self.factor_values is not None and self.factor_names is not None",      # class invariant from __init__
             "len(self.factor_values) == len(self.factor_names) or len(self.factor_names) == 0"],
   raises={"ValueError": "True", "KeyError": "True", "IndexError": "maybe:len(self.factor_names) == 0 and len(self.factor_values) > 0"})
op("C17.merge_consecutive.do_op", "merge_consecutive_op.py", "MergeConsecutiveOp",
   {"column_name": "Str", "event_code": "Str", "set_durations": "Bool", "ignore_missing": "Bool", "match_columns": "Opt[List[Str]]"},
   requires=["self.match_columns is not None"])
op("C17.split_rows.do_op", "split_rows_op.py", "SplitRowsOp",
   {"anchor_column": "Str", "new_events": "Opaque", "remove_parent_row": "Bool"},
   raises={"ValueError": "True", "KeyError": "True", "TypeError": "True"})
op("C17.remap_columns.do_op", "remap_columns_op.py", "RemapColumnsOp",
   {"source_columns": "List[Str]", "destination_columns": "List[Str]", "map_list": "Opaque", "ignore_missing": "Bool",
    "string_sources": "List[Str]", "integer_sources": "List[Str]", "key_map": "Opaque"})

# (b) constructors: optional parameters omitted must not leave None where do_op needs a list
class_model("FactorParams", {"column_name": "Str", "factor_values": "List[Str]", "has_factor_values": "Bool",
                             "factor_names": "List[Str]", "has_factor_names": "Bool"})
contract("C17.factor_column.init", file="hed/tools/remodeling/operations/factor_column_op.py", func="FactorColumnOp.__init__",
         params={"self": "FactorColumnOp", "parameters": "FactorParams"}, returns=None, enc="native",
         requires=["implies(parameters.has_factor_names, parameters.has_factor_values)"],      # PARAMS.dependentRequired
         modifies=["self.column_name", "self.factor_values", "self.factor_names"],
         ensures={"C17.none_safe.factor_column_invariant": "self.factor_values is not None and self.factor_names is not None",
                  "C17.init.factor_values_as_given": "implies(parameters.has_factor_values, self.factor_values == parameters.factor_values)"})

class_model("MergeParams", {"column_name": "Str", "event_code": "Str", "set_durations": "Bool", "ignore_missing": "Bool",
                            "match_columns": "List[Str]", "has_match_columns": "Bool"})
contract("C17.merge_consecutive.init", file="hed/tools/remodeling/operations/merge_consecutive_op.py", func="MergeConsecutiveOp.__init__",
         params={"self": "MergeConsecutiveOp", "parameters": "MergeParams"}, returns=None, enc="native",
         modifies=["self.column_name", "self.event_code", "self.set_durations", "self.ignore_missing", "self.match_columns"],
         ensures={"C17.none_safe.merge_consecutive_invariant": "self.match_columns is not None"})

# helpers of do_op, verified inline at their call sites (same frame obligations)
for _cid, _file, _fn in (("C17.merge_consecutive.get_remove_groups", "merge_consecutive_op.py", "MergeConsecutiveOp._get_remove_groups"),
                         ("C17.merge_consecutive.update_durations", "merge_consecutive_op.py", "MergeConsecutiveOp._update_durations"),
                         ("C17.split_rows.split_rows", "split_rows_op.py", "SplitRowsOp._split_rows"),
                         ("C17.split_rows.add_durations", "split_rows_op.py", "SplitRowsOp._add_durations"),
                         ("C17.split_rows.create_onsets", "split_rows_op.py", "SplitRowsOp._create_onsets")):
    contract(_cid, file="hed/tools/remodeling/operations/" + _file, func=_fn, inline=True, trusted=True, unwind="havoc")

# ---- the pipeline: 'n/a' <-> NaN conversion around EVERY step (typestate of the table as ghost `stage`:
#      0 = text form (n/a as text: as read / after post_proc_data), 1 = prepared (NaN form), 2 = raw output of an operation)
from pyvc.contract import EXTERNS
class_model("RemodelOp", {})
class_model("DispatcherM", {"parsed_ops": "List[RemodelOp]"})
try:
    import z3
    from pyvc.vals import SV, INT, Opaque

    def _stage(interp):
        return interp.ctx.term(interp.ctx.ghost["stage"], INT)

    def _prep(interp, args, kwargs):
        interp.ctx.oblige("call-pre", "prep_data.on_text_form", _stage(interp) == 0, info={"callee": "Dispatcher.prep_data"})
        interp.ctx.ghost["stage"] = SV(INT, z3.IntVal(1))
        return Opaque("prepared df", fresh=True)

    def _do_op(interp, args, kwargs):
        interp.ctx.oblige("call-pre", "do_op.on_prepared_table", _stage(interp) == 1, info={"callee": "BaseOp.do_op"})
        interp.ctx.ghost["stage"] = SV(INT, z3.IntVal(2))
        return Opaque("op output", fresh=True)

    def _post(interp, args, kwargs):
        interp.ctx.oblige("call-pre", "post_proc_data.on_operation_output", _stage(interp) == 2, info={"callee": "Dispatcher.post_proc_data"})
        interp.ctx.ghost["stage"] = SV(INT, z3.IntVal(0))
        return Opaque("text df", fresh=True)
    EXTERNS["DispatcherM.prep_data"] = _prep
    EXTERNS["DispatcherM.post_proc_data"] = _post
    EXTERNS["RemodelOp.do_op"] = _do_op
    EXTERNS["DispatcherM.get_data_file"] = lambda interp, args, kwargs: Opaque("data file", fresh=True)
except ImportError:
    pass

contract("C17.run_operations", file="hed/tools/remodeling/dispatcher.py", func="Dispatcher.run_operations",
         params={"self": "DispatcherM", "file_path": "Opaque", "sidecar": "Opaque", "verbose": "Bool"}, returns="Opaque", enc="native",
         self_class="DispatcherM", ghost={"init": {"stage": "0"}},
         ensures={"C17.pipeline.result_in_text_form": "stage == 0"},
         loops={0: {"ghost": {"stage": "Int"}, "invariant": ["stage == 0"]}},
         assume=["prep_data / post_proc_data / do_op modelled as typestate transitions of the table (text form -> NaN form -> operation output -> text form)"])

# C17 "a list that passes validation runs to completion": every map_list entry must have exactly one value per source and destination column
class_model("RemapParamsM", {"map_list": "List[List[Str]]", "source_columns": "List[Str]", "destination_columns": "List[Str]",
                             "integer_sources": "List[Str]", "has_integer_sources": "Bool"})
contract("C17.remap_columns.validate_input_data", file="hed/tools/remodeling/operations/remap_columns_op.py",
         func="RemapColumnsOp.validate_input_data", params={"parameters": "RemapParamsM"}, returns="List[Str]", enc="native",
         lets={"need": "len(parameters.source_columns) + len(parameters.destination_columns)"},
         ensures={
             "C17.validate.entry_of_wrong_length_rejected": "implies(any(len(parameters.map_list[k]) != need for k in range(len(parameters.map_list))), len(result) > 0)",
             "C17.validate.well_formed_accepted": "implies(all(len(parameters.map_list[k]) == need for k in range(len(parameters.map_list)))"
                                                  " and (not parameters.has_integer_sources or all(parameters.integer_sources[k] in parameters.source_columns"
                                                  " for k in range(len(parameters.integer_sources)))), len(result) == 0)",
         },
         loops={0: {"invariant": ["all(len(parameters.map_list[k]) == len(parameters.source_columns) + len(parameters.destination_columns) for k in range(_n))"]}})
