from pyvc.contract import contract, class_model

H = "hed/schema/hed_schema_entry.py"
class_model("UnitClassEntry2", {"derivative_units": "Map[Str,UnitEntry2]"})
class_model("UnitEntry2", {"attributes": "Map[Str,Str]", "derivative_units": "Map[Str,Real]", "name": "Str"})
from pyvc.contract import EXTERNS
try:
    from contracts.extern_fs import _entry_has_attribute
    EXTERNS["UnitEntry2.has_attribute"] = _entry_has_attribute
except ImportError:
    pass

# C11 lookup rule: a unit symbol is matched exactly as declared, a unit name in any letter case
contract("C11.get_derivative_unit_entry", file=H, func="UnitClassEntry.get_derivative_unit_entry",
         params={"self": "UnitClassEntry2", "units": "Str"}, returns="Opt[UnitEntry2]", enc="native", self_class="UnitClassEntry2",
         lets={"T": "self.derivative_units", "f": "units.casefold()"},
         ensures={
             "C11.lookup.symbol_exactly_as_declared": "implies(units in T and 'unitSymbol' in T[units].attributes, result == T[units])",
             "C11.lookup.name_in_any_case": "implies(not (units in T and 'unitSymbol' in T[units].attributes) and f in T"
                                            " and 'unitSymbol' not in T[f].attributes, result == T[f])",
             "C11.lookup.symbol_in_other_case_rejected": "implies(not (units in T and 'unitSymbol' in T[units].attributes) and f in T"
                                                         " and 'unitSymbol' in T[f].attributes, result is None)",
             "C11.lookup.unknown_rejected": "implies(not (units in T and 'unitSymbol' in T[units].attributes) and f not in T, result is None)",
         })

# C11 agreement clause: whenever the unit text is accepted (present in the table as written for symbols, case-folded for
# names) and the unit declares a conversion factor, the factor is defined - never an exception
contract("C11.get_conversion_factor", file=H, func="UnitEntry.get_conversion_factor",
         params={"self": "UnitEntry2", "unit_name": "Opt[Str]"}, returns="Opt[Real]", enc="native", self_class="UnitEntry2",
         raises={},
         lets={"T": "self.derivative_units", "has_cf": "'conversionFactor' in self.attributes",
               "symbol": "'unitSymbol' in self.attributes"},
         ensures={
             "C11.factor.as_written": "implies(has_cf and unit_name is not None and unit_name in T, result == T[unit_name])",
             "C11.factor.name_in_any_case": "implies(has_cf and unit_name is not None and len(unit_name) > 0 and unit_name not in T"
                                            " and not symbol and unit_name.casefold() in T, result == T[unit_name.casefold()])",
             "C11.factor.absent_without_declaration": "implies(not has_cf, result is None)",
             "C11.factor.unrecognised_is_absent_not_exception": "implies(has_cf and (unit_name is None or (unit_name not in T and"
                                                                " (symbol or len(unit_name) == 0 or unit_name.casefold() not in T))), result is None)",
         })

T = "hed/models/hed_tag.py"
class_model("UnitTag", {"extension": "Str", "unit_classes": "Map[Str,UnitClassEntry2]", "default_unit": "Opt[UnitEntry2]"})
try:
    EXTERNS["UnitClassEntry2.get_derivative_unit_entry"] = None
    del EXTERNS["UnitClassEntry2.get_derivative_unit_entry"]
except KeyError:
    pass

# splitting value and unit: prefix-type units stand before the number
contract("C11.get_tag_units_portion", file=T, func="HedTag._get_tag_units_portion",
         params={"extension_text": "Str", "tag_unit_classes": "Map[Str,UnitClassEntry2]"},
         returns="Tuple[Opt[Str],Opt[Str],Opt[UnitEntry2]]", enc="native",
         also=["C01"],        # C01 "bad unit or value" is decided on the parts this split hands out (round-11 change C01_r11)
         ensures={
             "C11.split.all_or_nothing": "(result[0] is None) == (result[2] is None) and (result[1] is None) == (result[2] is None)",
             "C11.split.parts_of_the_text": "implies(result[2] is not None,"
                 " ('unitPrefix' not in result[2].attributes and (extension_text == result[0] + ' ' + result[1]"
                 "   or (result[0] == '' and extension_text == result[1])))"
                 " or ('unitPrefix' in result[2].attributes and (extension_text == result[1] + ' ' + result[0]"
                 "   or (result[1] == '' and extension_text == result[0]))))",
             "C11.split.unit_not_empty": "implies(result[2] is not None, len(result[1]) > 0 or 'unitPrefix' in result[2].attributes)",
         },
         loops={0: {"invariant": ["True"]}})

# C11 agreement clause: conversion never raises; absent (None) when there is no usable unit or number
contract("C11.value_as_default_unit", file=T, func="HedTag.value_as_default_unit",
         params={"self": "UnitTag"}, returns="Opt[Real]", enc="native", self_class="UnitTag",
         raises={},
         ensures={
             "C11.convert.no_default_unit_is_absent": "implies(' ' not in self.extension and self.default_unit is None, result is None)",
             "C11.convert.total": "True",
         })

# C11 "converted exactly as the schema defines them": the factor of <prefix><unit> is (unit factor) x (prefix factor), where a factor
# written with '^' (10^6, 10^-3) means the power of ten - for the unit AND for the prefix; an unparsable factor counts as 1
class_model("UnitModifierM", {"attributes": "Map[Str,Str]"})
FTXT = "(lambda e: replace_all(e.attributes['conversionFactor'] if 'conversionFactor' in e.attributes else '1.0', '^', 'e'))"
contract("C11.conversion_factor_of_prefixed_unit", file=H, func="UnitEntry._get_conversion_factor",
         params={"self": "UnitEntry2", "modifier_entry": "Opt[UnitModifierM]"}, returns="Real", enc="native", self_class="UnitEntry2",
         lets={"b": FTXT + "(self)"},
         ensures={
             "C11.factor.unit_alone": "implies(modifier_entry is None and float_parses(b), result == float_of(b))",
             "C11.factor.unit_times_prefix_power_of_ten": "implies(modifier_entry is not None and float_parses(b) and float_parses(" + FTXT + "(modifier_entry)),"
                                                          " result == float_of(b) * float_of(" + FTXT + "(modifier_entry)))",
             "C11.factor.unparsable_unit_factor_is_one": "implies(not float_parses(b), result == 1.0)",
             "C11.factor.unparsable_prefix_factor_is_one": "implies(modifier_entry is not None and float_parses(b) and not float_parses(" + FTXT + "(modifier_entry)),"
                                                           " result == float_of(b))",
         },
         assume=["float(text) is the partial uninterpreted function float_of on texts with float_parses (NaN not modelled; reals)"])

# C11 "accepted exactly as the schema defines them": a value with extra text between the number and a valid trailing unit
# ('3 4 m', '2 k Hz') is reported as invalid units; a value without a recognised unit gets the missing-units note
CU = "hed/validator/util/class_util.py"
class_model("UnitRuleTag", {"unit_class_tag": "Bool", "default_unit": "Opaque"})
class_model("UnitValueValidator", {})
try:
    import z3 as _z3
    from pyvc.vals import SV as _SV, STR as _STR, TOpt as _TOpt, sort_of as _sort_of

    def _sv_of(interp, args, kwargs):
        f = _z3.Function("stripped_value_of", _z3.IntSort(), _z3.StringSort(), _z3.StringSort())
        return _SV(_STR, f(args[0].t, interp.ctx.strs.to_native(args[1])))

    def _su_of(interp, args, kwargs):
        ty = _TOpt(_STR)
        f = _z3.Function("stripped_unit_of", _z3.IntSort(), _z3.StringSort(), _sort_of(ty))
        return _SV(ty, f(args[0].t, interp.ctx.strs.to_native(args[1])))
    EXTERNS["stripped_value_of"] = _sv_of
    EXTERNS["stripped_unit_of"] = _su_of
except ImportError:
    pass
EXTERNS["UnitRuleTag.is_unit_class_tag"] = lambda interp, args, kwargs: interp.field_read(args[0], "unit_class_tag")
contract("C11.get_stripped_unit_value", file=T, func="HedTag.get_stripped_unit_value",
         params={"self": "UnitRuleTag", "extension_text": "Str"}, returns="Tuple[Str,Opt[Str]]", enc="native", trusted=True,
         self_class="UnitRuleTag",
         ensures={"named": "result[0] == stripped_value_of(self, extension_text) and result[1] == stripped_unit_of(self, extension_text)"},
         assume=["get_stripped_unit_value is a deterministic function of the tag and the text (its split rule is C11.get_tag_units_portion)"])
contract("C11.check_value_class", file=CU, func="UnitValueValidator._check_value_class",
         params={"self": "UnitValueValidator", "original_tag": "UnitRuleTag", "stripped_value": "Str", "report_as": "Opt[UnitRuleTag]",
                 "error_code": "Opt[Str]", "index_offset": "Int"}, returns="List[Issue]", enc="native", trusted=True,
         ensures={"no_unit_kinds": "all_in(result, lambda x: x.kind != 'UNITS_INVALID' and x.kind != 'UNITS_MISSING')"})
contract("C11.check_units", file=CU, func="UnitValueValidator._check_units",
         params={"original_tag": "UnitRuleTag", "bad_units": "Bool", "report_as": "Opt[UnitRuleTag]"}, returns="List[Issue]", enc="native",
         ensures={"C11.units.invalid_or_missing_note": "len(result) == 1 and result[0].kind == ('UNITS_INVALID' if bad_units else 'UNITS_MISSING')"
                                                       " and result[0].code == result[0].kind and result[0].severity == (1 if bad_units else 10)"})
EXTERNS["UnitRuleTag.get_tag_unit_class_units"] = lambda interp, args, kwargs: __import__("pyvc.vals", fromlist=["Opaque"]).Opaque("units", fresh=True)
contract("C11.unit_rule", file=CU, func="UnitValueValidator.check_tag_unit_class_units_are_valid",
         params={"self": "UnitValueValidator", "original_tag": "UnitRuleTag", "validate_text": "Str", "report_as": "Opt[UnitRuleTag]",
                 "error_code": "Opt[Str]", "index_offset": "Int"}, returns="List[Issue]", enc="native",
         requires=["error_code is None"],
         lets={"sv": "stripped_value_of(original_tag, validate_text)", "unit": "stripped_unit_of(original_tag, validate_text)"},
         ensures={
             "C11.units.extra_text_before_the_unit_is_invalid": "implies(original_tag.unit_class_tag and ' ' in sv, any_in(result, lambda x: x.kind == 'UNITS_INVALID' and x.severity == 1))",
             "C11.units.no_recognised_unit_is_noted": "implies(original_tag.unit_class_tag and ' ' not in sv and (unit is None or len(unit) == 0),"
                                                      " any_in(result, lambda x: x.kind == 'UNITS_MISSING'))",
             "C11.units.number_with_valid_unit_has_no_unit_issue": "implies(original_tag.unit_class_tag and ' ' not in sv and unit is not None and len(unit) > 0,"
                                                                   " all_in(result, lambda x: x.kind != 'UNITS_INVALID' and x.kind != 'UNITS_MISSING'))",
             "C11.units.not_a_unit_tag_is_silent": "implies(not original_tag.unit_class_tag, len(result) == 0)",
         },
         assume=["the error_code override branch (a copy of the first issue under another code) is outside the contract (requires error_code is None)"])

# C01/C11 "bad unit or value ... forbidden character": the text after the base tag is ALWAYS judged by one of the three rules - the unit
# rule for a unit-class tag, else the value-class rule for a value-class tag, else the extension-character rule (also for value-taking
# tags that have neither class); only the bare placeholder '#' is exempt
HVF = "hed/validator/hed_validator.py"
CLASSES_ = __import__("pyvc.contract", fromlist=["CLASSES"]).CLASSES
CLASSES_["UnitRuleTag"]["fields"].update({"extension": "Str", "value_class_tag": "Bool", "takes_value": "Bool"})
EXTERNS["UnitRuleTag.is_takes_value_tag"] = lambda interp, args, kwargs: interp.field_read(args[0], "takes_value")
EXTERNS["UnitRuleTag.is_value_class_tag"] = lambda interp, args, kwargs: interp.field_read(args[0], "value_class_tag")
class_model("CharValidatorM", {})
class_model("HedValidatorU", {"_unit_validator": "UnitValueValidator", "_char_validator": "CharValidatorM"})
contract("C11.value_class_rule", file=CU, func="UnitValueValidator.check_tag_value_class_valid",
         params={"self": "UnitValueValidator", "original_tag": "UnitRuleTag", "validate_text": "Str", "report_as": "Opt[UnitRuleTag]",
                 "error_code": "Opt[Str]", "index_offset": "Int"}, returns="List[Issue]", enc="native", trusted=True,
         ensures={"named": "result == value_rule_issues_of(original_tag, validate_text)"})
contract("C11.extension_char_rule", file="hed/validator/util/char_util.py", func="CharValidator.check_for_invalid_extension_chars",
         params={"self": "CharValidatorM", "original_tag": "UnitRuleTag", "validate_text": "Str", "error_code": "Opt[Str]", "index_offset": "Int"},
         returns="List[Issue]", enc="native", trusted=True, self_class="CharValidatorM",
         ensures={"named": "result == ext_char_issues_of(original_tag, validate_text)"})
contract("C11.value_text_always_judged", file=HVF, func="HedValidator.validate_units",
         params={"self": "HedValidatorU", "original_tag": "UnitRuleTag", "validate_text": "Opt[Str]", "report_as": "Opt[UnitRuleTag]",
                 "error_code": "Opt[Str]", "index_offset": "Int"}, returns="List[Issue]", enc="native", also=["C01"], self_class="HedValidatorU",
         requires=["error_code is None"],
         lets={"text": "original_tag.extension if validate_text is None else validate_text"},
         ensures={
             "C11.dispatch.bare_placeholder_exempt": "implies(text == '#', len(result) == 0)",
             "C11.dispatch.value_class_tag_by_value_rule": "implies(text != '#' and not original_tag.unit_class_tag and original_tag.value_class_tag,"
                                                           " len(result) == len(value_rule_issues_of(original_tag, text))"
                                                           " and all_in(value_rule_issues_of(original_tag, text), lambda x: is_in(x, result)))",
             "C11.dispatch.tag_without_class_by_character_rule": "implies(text != '#' and not original_tag.unit_class_tag and not original_tag.value_class_tag"
                                                                 " and len(original_tag.extension) > 0,"
                                                                 " len(result) == len(ext_char_issues_of(original_tag, text))"
                                                                 " and all_in(ext_char_issues_of(original_tag, text), lambda x: is_in(x, result)))",
             "C11.dispatch.unit_class_tag_by_unit_rule": "implies(text != '#' and original_tag.unit_class_tag and ' ' in stripped_value_of(original_tag, text),"
                                                         " any_in(result, lambda x: x.kind == 'UNITS_INVALID'))",
         })

# C11 "a number followed by a unit ... is accepted" for every numeric literal (integers, decimals, exponents, signs): the pattern the
# validator reads from class_regex.json for numericClass values accepts EXACTLY the decimal-numeral grammar - optional sign, digits with
# an optional fraction or a fraction alone, optional exponent with optional sign - a data obligation decided as a regular-language equality
contract("C11.numeric_class_pattern_is_the_decimal_numeral_grammar", file="hed/validator/util/class_regex.json", func="<regex-data>",
         params={}, returns=None, enc="native", prop="C11", ghost={"json_path": ["class_words", "numericClass"], "no_frame": True},
         ensures={"C11.numeral.pattern_language_is_sign_digits_fraction_exponent": r"^[+-]?(?:\d+\.?\d*|\.\d+)(?:[eE][+-]?\d+)?$"})
