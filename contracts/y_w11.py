"""Third pass, writer w11: HedGroup / HedTag / definition / query helpers that had no proved contract yet."""
from pyvc.contract import contract, class_model, CLASSES, EXTERNS

G = "hed/models/hed_group.py"
T = "hed/models/hed_tag.py"
QH = "hed/models/query_handler.py"

# ------------------------------------------------------------------------------------------------ HedTag.get_stripped_unit_value
# C11 "a value is split into number and unit exactly as the schema defines them": what is handed out is the split of THIS text by the unit
# classes of THIS tag (value first, unit second); a text without a recognised unit is answered by the tag's own extension and NO unit
contract("C11.stripped_value_is_the_split_of_the_text_or_the_extension", file=T, func="HedTag.get_stripped_unit_value", prop="C11",
         params={"self": "UnitTag", "extension_text": "Str"}, returns="Tuple[Str,Opt[Str]]", enc="native", self_class="UnitTag",
         ghost={"not_at_call_sites": True},
         ensures={
             "C11.strip.no_unit_means_the_tags_own_extension": "implies(result[1] is None, result[0] == self.extension)",
             "C11.strip.value_and_unit_are_the_parts_of_the_text": "implies(result[1] is not None, len(result[0]) > 0 and"
                 " (extension_text == result[0] + ' ' + result[1] or extension_text == result[1] + ' ' + result[0]"
                 " or (result[1] == '' and extension_text == result[0])))",
             "C11.strip.unit_only_text_is_not_a_value": "implies(len(extension_text) > 0 and ' ' not in extension_text and result[1] is not None,"
                 " result[1] == '' and result[0] == extension_text)",
         })

# ------------------------------------------------------------------------------------------------ HedGroup.__init__
# C02 "parsing builds the tree: every node knows its parent": a group built around given contents holds exactly those contents and
# every one of them is re-parented to the new group; the group itself starts without parent and remembers text and span as given
class_model("NodeIW11", {"_parent": "Opt[GroupIW11]"})
class_model("GroupIW11", {"children": "List[NodeIW11]", "_original_children": "List[NodeIW11]", "_startpos": "Opt[Int]", "_endpos": "Opt[Int]", "_hed_string": "Str"}, bases=["NodeIW11"])
contract("C02.new_group_adopts_its_contents", file=G, func="HedGroup.__init__",
         params={"self": "GroupIW11", "hed_string": "Str", "startpos": "Opt[Int]", "endpos": "Opt[Int]", "contents": "List[NodeIW11]"},
         returns=None, enc="native", self_class="GroupIW11", ghost={"not_at_call_sites": True},
         modifies=["self.children", "self._original_children", "self._startpos", "self._endpos", "self._hed_string", "self._parent", "heap:NodeIW11._parent"],
         requires=["all(contents[k] is not self for k in range(len(contents)))"],
         ensures={
             "C02.group.holds_exactly_the_given_contents": "implies(len(contents) > 0, len(self.children) == len(contents)"
                 " and all(self.children[k] is contents[k] for k in range(len(contents))))",
             "C02.group.every_content_node_is_reparented_to_it": "implies(True, all(contents[k]._parent is self for k in range(len(contents))))",
             "C02.group.no_contents_is_an_empty_group": "implies(len(contents) == 0, len(self.children) == 0)",
             "C02.group.original_children_are_the_children": "len(self._original_children) == len(self.children) and"
                 " all(self._original_children[k] is self.children[k] for k in range(len(self.children)))",
             "C02.group.starts_without_parent": "self._parent is None",
             "C02.group.text_and_span_as_given": "self._hed_string == hed_string and self._startpos == startpos and self._endpos == endpos",
         },
         loops={0: {"invariant": ["all(self.children[k]._parent is self for k in range(_n))", "self._parent is None"]}},
         assume=["contents=None (the default) is covered as the empty list (both are falsy)",
                 "_original_children (the SAME list object as children until the first edit) is outside the encoding: two fields holding one list cannot be expressed"])

# ------------------------------------------------------------------------------------------------ Expression.__init__ (search term)
# C15 "a bare term matches exactly when some tag has that term on its schema path, a quoted term only the exact tag, and a trailing-star
# term by short-form prefix": the kind of a term is decided here, once, from its text - quotes (more than two characters) select the exact
# mode and are taken off, a star selects the prefix mode and is taken out, a leading '@' marks "must not occur" and is taken off, a '/'
# in a term written without quotes and star selects the exact mode as well; operands and token are stored as given
QE = "hed/models/query_expressions.py"
class_model("TermW11", {"left": "Opt[ExprW1]", "right": "Opt[ExprW1]", "token": "TokenW1", "_match_mode": "Int", "_must_not_be_in_line": "Bool"})
T0 = "old(token.text)"
T1 = "(old(token.text)[1:] if old(token.text).startswith('@') else old(token.text))"       # the text after the '@' step
QUOTED = "(" + T1 + ".startswith('\"') and " + T1 + ".endswith('\"') and len(" + T1 + ") > 2)"
contract("C15.term_kind_is_read_off_its_text", file=QE, func="Expression.__init__",
         params={"self": "TermW11", "token": "TokenW1", "left": "Opt[ExprW1]", "right": "Opt[ExprW1]"}, returns=None, enc="native", self_class="TermW11",
         ghost={"not_at_call_sites": True},
         modifies=["self.left", "self.right", "self.token", "self._match_mode", "self._must_not_be_in_line", "token.text"],
         ensures={
             "C15.term.leading_at_means_must_not_occur": "self._must_not_be_in_line == " + T0 + ".startswith('@')",
             "C15.term.star_selects_prefix_mode_and_is_taken_out": "implies('*' in " + T0 + ", self._match_mode == 2 and '*' not in token.text)",
             "C15.term.quotes_select_exact_mode_and_are_taken_off": "implies(" + QUOTED + " and '*' not in " + T0 + ","
                 " self._match_mode == 1 and token.text == " + T1 + "[1:len(" + T1 + ") - 1])",
             "C15.term.bare_term_keeps_its_text": "implies(not " + QUOTED + " and '*' not in " + T0 + ", token.text == " + T1 + ""
                 " and self._match_mode == (1 if '/' in " + T0 + " else 0))",
             "C15.term.operands_and_token_stored_as_given": "self.token is token and self.left is left and self.right is right",
             "C15.term.kind_of_token_untouched": "token.kind == old(token.kind)",
         })

# ------------------------------------------------------------------------------------------------ Expression.__str__ / ExpressionAnd.__str__ / ExpressionOr.__str__
# C15 "any query text either compiles or is rejected with the documented parse error": the parser refuses a negated wildcard and a negation
# inside an exact group by looking for '?' / '~' in the printed sub-expression - the print of a node is therefore the print of its left
# operand, a blank, the print of its own token, the print of its right operand, in that order, nothing dropped (and/or: in brackets)
class_model("PrintedW11", {"__str__": "Str"})
class_model("OperandPW11", {"__str__": "Str", "__bool__": "Bool"})       # __bool__ False stands for the absent operand (None)
class_model("NodePW11", {"left": "OperandPW11", "right": "OperandPW11", "token": "PrintedW11"})
INNER = "(self.left.__str__ if self.left.__bool__ else '') + ' ' + self.token.__str__ + (self.right.__str__ if self.right.__bool__ else '')"
for _cid, _fn, _open, _close in (("C15.term_prints_left_token_right", "Expression.__str__", "", ""),
                                 ("C15.and_prints_left_token_right_in_brackets", "ExpressionAnd.__str__", "'(' + ", " + ')'"),
                                 ("C15.or_prints_left_token_right_in_brackets", "ExpressionOr.__str__", "'(' + ", " + ')'")):
    contract(_cid, file=QE, func=_fn, params={"self": "NodePW11"}, returns="Str", enc="native", self_class="NodePW11",
             ghost={"not_at_call_sites": True},
             ensures={"C15.print.left_blank_token_right_in_order": "result == " + _open + INNER + _close,
                      "C15.print.a_wildcard_or_negation_below_shows": "implies(self.right.__bool__ and ('?' in self.right.__str__ or '~' in self.right.__str__),"
                                                                      " '?' in result or '~' in result)"},
             assume=["an absent operand (None) is modelled as an operand object whose truth value is False: str() of an optional reference has no rule in "
                     "the engine; a present operand is truthy (the expression classes define neither __bool__ nor __len__)"])

# ------------------------------------------------------------------------------------------------ DefinitionDict.__init__
# C09 "a definition dictionary built from given definitions holds them": a new dictionary starts with no entries and no issues; given
# definitions are handed - once, as received, together with the schema received - to add_definitions of THIS dictionary, after the reset
D = "hed/models/definition_dict.py"
class_model("DefSourceW11", {})
class_model("SchemaW11", {})
class_model("DefDictIW11", {"defs": "Map[Str,DefEntry]", "_issues": "List[Issue]"})
contract("C09.add_definitions_w11", file=D, func="DefinitionDict.add_definitions", params={"self": "DefDictIW11", "def_dicts": "List[DefSourceW11]", "hed_schema": "Opt[SchemaW11]"},
         returns=None, enc="native", trusted=True, self_class="DefDictIW11", modifies=["self.defs", "self._issues"],
         ghost={"sets": {"n_added_w11": "n_added_w11 + 1", "added_to_w11": "self", "added_w11": "def_dicts", "added_with_schema_w11": "hed_schema",
                         "empty_when_adding_w11": "forall_str(lambda k: k not in old(self.defs)) and len(old(self._issues)) == 0"}}, ensures={},
         assume=["DefinitionDict.add_definitions writes only the entries and the issues of its own dictionary (what it adds: C09.add_definitions_from_dict, "
                 "C09.check_for_definitions)"])
contract("C09.new_dictionary_starts_empty_and_takes_the_given_definitions", file=D, func="DefinitionDict.__init__",
         params={"self": "DefDictIW11", "def_dicts": "List[DefSourceW11]", "hed_schema": "Opt[SchemaW11]"}, returns=None, enc="native", self_class="DefDictIW11",
         modifies=["self.defs", "self._issues"],
         ghost={"not_at_call_sites": True, "init": {"n_added_w11": "0", "added_to_w11": "None", "added_w11": "[]", "added_with_schema_w11": "None",
                                                    "empty_when_adding_w11": "False"}},
         ensures={
             "C09.new_dict.nothing_given_nothing_held": "implies(len(def_dicts) == 0, forall_str(lambda k: k not in self.defs) and len(self._issues) == 0 and n_added_w11 == 0)",
             "C09.new_dict.given_definitions_added_once_to_this_dictionary": "implies(len(def_dicts) > 0, n_added_w11 == 1 and added_to_w11 is self"
                                                                           " and added_w11 == def_dicts and added_with_schema_w11 is hed_schema)",
             "C09.new_dict.added_to_an_empty_dictionary": "implies(len(def_dicts) > 0, empty_when_adding_w11)",
         },
         assume=["def_dicts=None (the default) and a single non-list value are covered as the empty / a non-empty list (only truthiness is used here)"])

# ------------------------------------------------------------------------------------------------ QueryHandler._parse / QueryHandler.__init__
# C15 "any query text either compiles or is rejected with the documented parse error": the tree handed out is the one the or-level parser
# built over the tokens of THIS text, starting before the first token, and it is handed out only when every token was consumed (left-over
# tokens are the documented ValueError); compiling parses the case-folded text once and keeps the text as written
class_model("QueryHandlerPW11", {"tree": "Opt[ExprW1]", "_org_string": "Str"}, bases=["QueryHandlerW1"])
try:
    from contracts.extern_fs import _ulist as _ulist_w11
    EXTERNS["query_tokens_w11"] = _ulist_w11("query_tokens_w11", 1, "TokenW1")
except ImportError:
    pass
# QueryHandler._tokenize (regex: no engine rule) is the deterministic view query_tokens_w11(text); the token classes: bounded workload rt/c15
TOKENIZE_VIEW = ("QueryHandler._tokenize is a deterministic function query_tokens_w11 of the text (regex: no engine rule; the token classes are "
                 "exercised by the bounded workload rt/c15)")
try:
    EXTERNS["QueryHandlerPW11._tokenize"] = lambda interp, args, kwargs: EXTERNS["query_tokens_w11"](interp, [args[-1]], {})
except NameError:
    pass
contract("C15.or_level_parser_w11", file=QH, func="QueryHandler._handle_or_op", params={"self": "QueryHandlerPW11"}, returns="Opt[ExprW1]", enc="native",
         trusted=True, self_class="QueryHandlerPW11", modifies=["self.at_token"], raises={"ValueError": True},
         ghost={"sets": {"n_parses_w11": "n_parses_w11 + 1", "parsed_tokens_w11": "self.tokens", "parsed_from_w11": "old(self.at_token)", "parsed_tree_w11": "result"}},
         ensures={"cursor_in_range": "self.at_token >= old(self.at_token) and self.at_token < len(self.tokens)"},
         assume=["QueryHandler._handle_or_op (recursive descent) moves only the token cursor, forward and never past the last token "
                 "(C15.get_next_token / C15.next_token_is), and reports a malformed query by ValueError"])
# what a caller (QueryHandler.__init__) sees of a call of _parse: how often, on which text, from which cursor position, with which tree.
# The summary below is what callers use (ghosts of list / reference type private to a callee have no call-site encoding, so the proved
# contract cannot be used there directly); its two clauses are proved, verbatim, by the contract after it, which discharges it
PARSE_SETS = {"n_full_parses_w11": "n_full_parses_w11 + 1", "parse_text_w11": "expression_string", "parse_started_at_w11": "old(self.at_token)",
              "parse_result_w11": "result"}
PARSE_TOKENS = "self.tokens == query_tokens_w11(expression_string)"
PARSE_CONSUMED = "self.at_token + 1 == len(self.tokens)"
contract("C15.parse_view_w11", file=QH, func="QueryHandler._parse", params={"self": "QueryHandlerPW11", "expression_string": "Str"}, returns="Opt[ExprW1]",
         enc="native", trusted=True, self_class="QueryHandlerPW11", modifies=["self.tokens", "self.at_token"], raises={"ValueError": True},
         fresh_result=False, ghost={"sets": PARSE_SETS},
         ensures={"C15.parse.tokens_are_the_tokens_of_this_text": PARSE_TOKENS, "C15.parse.every_token_consumed": PARSE_CONSUMED},
         assume=["summary of QueryHandler._parse for its caller; proved from the body by C15.parse_hands_out_the_tree_only_when_every_token_was_consumed (discharges)"])
contract("C15.parse_hands_out_the_tree_only_when_every_token_was_consumed", file=QH, func="QueryHandler._parse",
         params={"self": "QueryHandlerPW11", "expression_string": "Str"}, returns="Opt[ExprW1]", enc="native", self_class="QueryHandlerPW11",
         modifies=["self.tokens", "self.at_token"], raises={"ValueError": True}, assume=[TOKENIZE_VIEW],
         ghost={"init": {"n_parses_w11": "0", "parsed_tokens_w11": "[]", "parsed_from_w11": "0 - 7", "parsed_tree_w11": "None"},
                "sets": PARSE_SETS, "not_at_call_sites": True, "discharges": "C15.parse_view_w11"},
         ensures={
             "C15.parse.tokens_are_the_tokens_of_this_text": PARSE_TOKENS,
             "C15.parse.tree_is_the_one_parsed_once_over_those_tokens": "n_parses_w11 == 1 and parsed_tokens_w11 == query_tokens_w11(expression_string)"
                                                                       " and result is parsed_tree_w11",
             "C15.parse.parsing_starts_where_the_cursor_stood": "parsed_from_w11 == old(self.at_token)",
             "C15.parse.every_token_consumed": PARSE_CONSUMED,
         })
contract("C15.compile_parses_the_case_folded_text_from_the_first_token", file=QH, func="QueryHandler.__init__",
         params={"self": "QueryHandlerPW11", "expression_string": "Str"}, returns=None, enc="native", self_class="QueryHandlerPW11",
         modifies=["self.tokens", "self.at_token", "self.tree", "self._org_string"], raises={"ValueError": True}, assume=[TOKENIZE_VIEW],
         ghost={"not_at_call_sites": True, "init": {"n_full_parses_w11": "0", "parse_text_w11": "''", "parse_started_at_w11": "0 - 7", "parse_result_w11": "None"}},
         ensures={
             "C15.compile.parses_the_case_folded_text_once": "n_full_parses_w11 == 1 and parse_text_w11 == expression_string.casefold()",
             "C15.compile.tokens_are_those_of_the_case_folded_text": "self.tokens == query_tokens_w11(expression_string.casefold())",
             "C15.compile.tree_is_the_result_of_that_parse": "self.tree is parse_result_w11",
             "C15.compile.parsing_starts_before_the_first_token": "parse_started_at_w11 == 0 - 1",
             "C15.compile.every_token_consumed": "self.at_token + 1 == len(self.tokens)",
             "C15.compile.text_kept_as_written": "self._org_string == expression_string",
         })

# ------------------------------------------------------------------------------------------------ loops that treat items one by one (dataflow)
# C09 "every Def/Def-expand of an annotation is found, at any depth" / "gathering definitions from expanded annotations treats every Def-expand
# group found on its own"; C15 "`?` `??` `???` wildcards match any child / tag / group of every group"; C11 "the units a tag accepts are the
# units of ALL its unit classes": no value computed for one item reaches a later item, the accumulator is only extended, no item is
# skipped by a break (pyvc/dataflow.py; object state written through parameters is outside the analysis)
IND_W11 = {"dataflow_only": True, "no_frame": True, "not_at_call_sites": True}
GA = "hed/models/def_expand_gather.py"
for _cid, _prop, _f, _fn, _loops in (
        ("C09.def_tags_gathered_from_every_group", "C09", G, "HedGroup.find_def_tags", {0: ["def_tags"]}),
        ("C09.every_def_expand_found_is_handled_on_its_own", "C09", GA, "DefExpandGatherer._process_def_expand", {0: []}),
        ("C09.every_annotation_with_a_def_expand_is_processed", "C09", GA, "DefExpandGatherer.process_def_expands", {0: []}),
        ("C09.every_given_definition_source_is_added", "C09", D, "DefinitionDict.add_definitions", {0: [], 1: []}),
        ("C15.wildcards_pair_every_child_of_every_group", "C15", QE, "ExpressionWildcardNew.handle_expr",
         {0: ["groups_found"], 1: ["groups_found"], 2: ["groups_found"], 3: ["groups_found"], 4: ["groups_found"], 5: ["groups_found"]}),
        ("C15.every_found_tag_reported_with_its_groups", "C15", QE, "Expression.handle_expr", {0: ["all_found_groups"]}),
        ("C15.every_query_compiled_on_its_own", "C15", "hed/models/query_service.py", "get_query_handlers", {0: ["issues", "expression_parsers"]}),
        ("C09.every_ambiguous_copy_is_reported", "C09", GA, "DefExpandGatherer._handle_ambiguous_definition", {0: []}),
        ("C09.every_tag_with_the_value_becomes_a_placeholder", "C09", GA, "AmbiguousDef.add_def", {0: []}),
        ("C09.every_position_of_the_copies_is_compared", "C09", GA, "AmbiguousDef.validate", {0: []}),
        ("C09.every_position_of_the_merged_group_gets_its_value", "C09", GA, "AmbiguousDef.get_group", {0: []}),
        ("C11.units_of_every_unit_class_collected", "C11", T, "HedTag.get_tag_unit_class_units", {0: ["units"]})):
    contract(_cid, file=_f, func=_fn, params={}, returns="Opaque", enc="native", prop=_prop, ghost=dict(IND_W11, independent_iterations=_loops), ensures={})

# ------------------------------------------------------------------------------------------------ HedGroup.__eq__ (group against group)
# C04 "two annotations are equal exactly when ... groups compare by content": two different group objects are equal
# exactly when their children lists are equal AND both are bracketed groups or both are not (an annotation never equals a bracketed group)
class_model("NodeQW11", {})
class_model("GroupQW11", {"children": "List[NodeQW11]", "is_group": "Bool"}, bases=["HedGroup"])
contract("C04.groups_compare_by_children_and_bracketing", file=G, func="HedGroup.__eq__", params={"self": "GroupQW11", "other": "GroupQW11"},
         returns="Bool", enc="native", self_class="GroupQW11", ghost={"not_at_call_sites": True},
         ensures={
             "C04.eq.different_bracketing_is_unequal": "implies(self is not other and self.is_group != other.is_group, not result)",
             "C04.eq.equal_iff_same_children_and_bracketing": "implies(self is not other, result == (self.children == other.children and self.is_group == other.is_group))",
         },
         assume=["only the comparison of a group with ANOTHER group object is covered: the list and the text forms of `other` are not, and the path "
                 "`self is other` is not reachable in the engine's model of two parameters (the canary shows 1/2 paths) - 'a group equals itself' is NOT claimed"])

# ------------------------------------------------------------------------------------------------ QueryHandler._handle_and_op / _handle_or_op
# C15 "A && B && C ... parsed left to right": the and-level (or-level) parser reads one operand, then one more operand for every `&&` (`||`)
# token that follows, and stops only in front of a token that is not `&&` (`||`) or at the end of the tokens
class_model("QueryHandlerCW11", {}, bases=["QueryHandlerW1"])
NEXT_IS = "(lambda k: self.at_token + 1 < len(self.tokens) and self.tokens[self.at_token + 1].kind == k)"
contract("C15.negation_level_parser_w11", file=QH, func="QueryHandler._handle_negation", params={"self": "QueryHandlerCW11"}, returns="Opt[ExprW1]", enc="native",
         trusted=True, self_class="QueryHandlerCW11", modifies=["self.at_token"], raises={"ValueError": True}, fresh_result=False,
         ghost={"sets": {"n_operands_w11": "n_operands_w11 + 1", "operand_tokens_w11": "operand_tokens_w11 + (self.at_token - old(self.at_token))"}},
         ensures={"cursor_in_range": "self.at_token >= old(self.at_token) and self.at_token >= 0 - 1"},
         assume=["QueryHandler._handle_negation (recursive descent) moves only the token cursor, forward, and reports a malformed query by ValueError"])
contract("C15.and_chain_reads_one_operand_per_and_token", file=QH, func="QueryHandler._handle_and_op", params={"self": "QueryHandlerCW11"},
         returns="Opt[ExprW1]", enc="native", self_class="QueryHandlerCW11", requires=["self.at_token >= 0 - 1"], modifies=["heap:QueryHandlerW1.at_token"],
         raises={"ValueError": True}, ghost={"not_at_call_sites": True, "init": {"n_operands_w11": "0", "operand_tokens_w11": "0"}},
         assume=["frame of the cursors of OTHER query handlers is not proved (the loop cut forgets the whole at_token field; `modifies` therefore lists it whole)"],
         locals={"next_token": "Opt[TokenW1]"},
         ensures={
             "C15.chain.stops_only_in_front_of_another_token": "not " + NEXT_IS + "(0)",
             "C15.chain.at_least_one_operand": "n_operands_w11 >= 1",
             # every token consumed belongs to an operand or is one of the operators BETWEEN two operands: each operator is followed by its operand
             "C15.chain.one_operator_token_between_two_operands": "self.at_token - old(self.at_token) == operand_tokens_w11 + n_operands_w11 - 1",
         },
         loops={0: {"invariant": ["self.at_token >= 0 - 1", "n_operands_w11 >= 1",
                                  "self.at_token - old(self.at_token) == operand_tokens_w11 + n_operands_w11 - (1 if next_token is None else 0)",
                                  "implies(next_token is None, not " + NEXT_IS + "(0))"]}})
class_model("QueryHandlerOW11", {}, bases=["QueryHandlerW1"])
contract("C15.and_level_parser_w11", file=QH, func="QueryHandler._handle_and_op", params={"self": "QueryHandlerOW11"}, returns="Opt[ExprW1]", enc="native",
         trusted=True, self_class="QueryHandlerOW11", modifies=["self.at_token"], raises={"ValueError": True}, fresh_result=False,
         ghost={"sets": {"n_operands_w11": "n_operands_w11 + 1", "operand_tokens_w11": "operand_tokens_w11 + (self.at_token - old(self.at_token))"}},
         ensures={"cursor_in_range": "self.at_token >= old(self.at_token) and self.at_token >= 0 - 1"},
         assume=["QueryHandler._handle_and_op (C15.and_chain_reads_one_operand_per_and_token; recursive descent below it) moves only the token cursor, forward, and reports a malformed query by ValueError"])
contract("C15.or_chain_reads_one_operand_per_or_token", file=QH, func="QueryHandler._handle_or_op", params={"self": "QueryHandlerOW11"},
         returns="Opt[ExprW1]", enc="native", self_class="QueryHandlerOW11", requires=["self.at_token >= 0 - 1"], modifies=["heap:QueryHandlerW1.at_token"],
         raises={"ValueError": True}, ghost={"not_at_call_sites": True, "init": {"n_operands_w11": "0", "operand_tokens_w11": "0"}},
         assume=["frame of the cursors of OTHER query handlers is not proved (the loop cut forgets the whole at_token field; `modifies` therefore lists it whole)"],
         locals={"next_token": "Opt[TokenW1]"},
         ensures={
             "C15.chain.stops_only_in_front_of_another_token": "not " + NEXT_IS + "(6)",
             "C15.chain.at_least_one_operand": "n_operands_w11 >= 1",
             # every token consumed belongs to an operand or is one of the operators BETWEEN two operands: each operator is followed by its operand
             "C15.chain.one_operator_token_between_two_operands": "self.at_token - old(self.at_token) == operand_tokens_w11 + n_operands_w11 - 1",
         },
         loops={0: {"invariant": ["self.at_token >= 0 - 1", "n_operands_w11 >= 1",
                                  "self.at_token - old(self.at_token) == operand_tokens_w11 + n_operands_w11 - (1 if next_token is None else 0)",
                                  "implies(next_token is None, not " + NEXT_IS + "(6))"]}})
