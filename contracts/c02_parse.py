from pyvc.contract import contract

RP = "List[Tuple[Bool,Tuple[Int,Int]]]"

contract("C02.split_hed_string",
         file="hed/models/hed_string.py", func="HedString.split_hed_string",
         params={"hed_string": "Str"}, returns=RP, enc="array",
         ensures={
             "C02.tiling.empty_iff": "(len(result) == 0) == (len(hed_string) == 0)",
             "C02.tiling.spans": "spans_wf(result, len(hed_string)) and covered(result) == len(hed_string)",
             "C02.span_chars": "spans_chars_ok(result, hed_string)",
             "C02.maximal.no_adjacent_tags": "no_adjacent_tags(result)",
             "C02.maximal.blanks_do_not_split": "inner_delims_present(result, hed_string, len(hed_string))",
         },
         locals={"result_positions": RP, "tag_start_pos": "Opt[Int]", "last_end_pos": "Opt[Int]"},
         bounded={"hed_string": "str:a ,():6:8"},
         loops={0: {"invariant": [
             "current_spacing >= 0",
             "spans_wf(result_positions, _n)",
             "spans_chars_ok(result_positions, hed_string)",
             "no_adjacent_tags(result_positions)",
             "all(implies(not result_positions[k][0] and result_positions[k][1][0] > 0,"
             "            has_delim(hed_string, result_positions[k][1][0], result_positions[k][1][1]))"
             "    for k in range(len(result_positions)))",
             "found_symbol == (last_end_pos is not None)",
             "found_symbol == (tag_start_pos is None)",
             # delimiter mode: the pending span [last_end_pos, _n)
             "implies(found_symbol, covered(result_positions) == last_end_pos and last_end_pos <= _n"
             "        and delim_span_ok(hed_string, last_end_pos, _n)"
             "        and implies(last_end_pos == _n, _n == 0 and len(result_positions) == 0)"
             "        and (last_end_pos == 0 or has_delim(hed_string, last_end_pos, _n)))",
             # tag mode: the pending tag [tag_start_pos, _n - current_spacing)
             "implies(not found_symbol, covered(result_positions) == tag_start_pos"
             "        and tag_start_pos < _n - current_spacing"
             "        and tag_span_ok(hed_string, tag_start_pos, _n - current_spacing)"
             "        and all(hed_string[j] == ' ' for j in range(_n - current_spacing, _n))"
             "        and (len(result_positions) == 0 or not result_positions[len(result_positions) - 1][0]))",
         ]}})
