"""Third pass, writer w15: tools (remodeling helpers, io_util, key_map, bids, scripts) - C16, C17, C18, C20."""
from pyvc.contract import contract, class_model, EXTERNS

OPS = "hed/tools/remodeling/operations/"
contract("C17.remove_groups_helper_leaves_the_tables_alone", file=OPS + "merge_consecutive_op.py", func="MergeConsecutiveOp._get_remove_groups",
         params={"match_df": "Opaque", "code_mask": "Opaque"}, returns=None, enc="native", unwind="havoc",
         ghost={"not_at_call_sites": True, "discharges": "C17.merge_consecutive.get_remove_groups"},
         ensures={"C17.frame.no_caller_visible_mutation": "True"})
class_model("SplitRowsOpW15", {"anchor_column": "Str", "new_events": "Opaque", "remove_parent_row": "Bool"})
contract("C17.split_rows_helper_leaves_the_callers_table_and_the_operation_alone", file=OPS + "split_rows_op.py", func="SplitRowsOp._split_rows", self_class="SplitRowsOpW15",
         params={"self": "SplitRowsOpW15", "df": "Opaque", "df_list": "Opaque"}, returns=None, enc="native", unwind="havoc",
         ghost={"not_at_call_sites": True}, raises={"TypeError": "True", "KeyError": "True"},
         ensures={"C17.frame.no_caller_visible_mutation": "True"})
contract("C17.create_onsets_helper_leaves_the_callers_table_alone", file=OPS + "split_rows_op.py", func="SplitRowsOp._create_onsets",
         params={"df": "Opaque", "onset_source": "Opaque"}, returns="Opaque", enc="native", unwind="havoc",
         ghost={"not_at_call_sites": True}, raises={"TypeError": "True", "KeyError": "True"},
         ensures={"C17.frame.no_caller_visible_mutation": "True"})

# ---- C17 "An operation list that fails the remodeler's validation is reported with messages ... one that passes, with or without its optional
# parameters, runs to completion": merging on a column that is also a match column is refused with exactly one message, an absent / empty
# match_columns is accepted
class_model("MergeParamsW15", {"column_name": "Str", "match_columns": "List[Str]"})
contract("C17.merge_consecutive_refuses_its_own_column_as_match_column", file=OPS + "merge_consecutive_op.py",
         func="MergeConsecutiveOp.validate_input_data", params={"parameters": "MergeParamsW15"}, returns="List[Str]", enc="native",
         lets={"clash": "parameters.column_name in parameters.match_columns"},
         assume=["an absent match_columns is modelled as the empty list (both are falsy: `match_columns and ...`); the engine has no membership "
                 "test on an optional list"],
         ensures={
             "C17.merge_validate.one_message_iff_column_is_a_match_column": "len(result) == (1 if clash else 0)",
             "C17.merge_validate.message_names_the_column": "implies(clash, parameters.column_name in result[0])",
         })

# ---- C16 "Dataset validation returns exactly the issues of validating ... each events file": the file group handed out for a type is the one
# stored under that type, and an unknown type gives None (not a KeyError, not another group)
class_model("BidsFileGroupW15", {"suffix": "Str"})
class_model("BidsDatasetW15", {"tabular_files": "Map[Str,BidsFileGroupW15]"})
contract("C16.tabular_group_of_a_type_is_the_stored_one_or_none", file="hed/tools/bids/bids_dataset.py", func="BidsDataset.get_tabular_group",
         params={"self": "BidsDatasetW15", "obj_type": "Str"}, returns="Opt[BidsFileGroupW15]", enc="native", self_class="BidsDatasetW15",
         ghost={"not_at_call_sites": True},
         ensures={
             "C16.group.known_type_gives_its_group": "implies(obj_type in self.tabular_files, result is self.tabular_files[obj_type])",
             "C16.group.unknown_type_gives_none": "implies(obj_type not in self.tabular_files, result is None)",
         })

# ---- C16 "every same-suffix JSON file ... whose filename entities all occur with the same values in the events filename": a file object carries
# the suffix, extension and entities parsed from ITS OWN resolved path (not from another name), and starts without sidecar / contents / HED flag
IOF = "hed/tools/util/io_util.py"
contract("C16.parse_bids_filename_view_w15", file=IOF, func="parse_bids_filename", params={"file_path": "Str"},
         returns="Tuple[Opt[Str],Str,Map[Str,Str]]", enc="native", trusted=True, raises={"HedFileError": "True"},
         ghost={"sets": {"parsed_path": "file_path", "parsed": "result"}},
         assume=["io_util.parse_bids_filename is summarised for BidsFile.__init__: the name it was given and the triple it handed back are "
                 "remembered (ghost parsed_path / parsed); its pieces are covered by C16.split_entity"])
class_model("BidsFileInitW15", {"file_path": "Str", "suffix": "Opt[Str]", "ext": "Str", "entity_dict": "Map[Str,Str]",
                                "sidecar": "Opt[BidsFileGroupW15]", "_contents": "Opt[BidsFileGroupW15]", "has_hed": "Bool"})
contract("C16.file_object_is_named_by_its_own_resolved_path", file="hed/tools/bids/bids_file.py", func="BidsFile.__init__",
         params={"self": "BidsFileInitW15", "file_path": "Str"}, returns=None, enc="native", self_class="BidsFileInitW15",
         raises={"HedFileError": "True"},
         modifies=["self.file_path", "self.suffix", "self.ext", "self.entity_dict", "self.sidecar", "self._contents", "self.has_hed"],
         ghost={"init": {"parsed_path": "''", "parsed": "None"}, "not_at_call_sites": True},
         ensures={
             "C16.file.path_is_the_resolved_path": "self.file_path == realpath_w3(file_path)",
             "C16.file.name_parsed_is_the_resolved_path": "parsed_path == self.file_path",
             "C16.file.suffix_ext_entities_are_the_parsed_ones": "parsed is not None and self.suffix == parsed[0] and self.ext == parsed[1]"
                                                                 " and self.entity_dict == parsed[2]",
             "C16.file.starts_without_sidecar_contents_or_hed": "self.sidecar is None and self._contents is None and not self.has_hed",
         })

# ---- C20 "files whose onsets are not non-decreasing are rejected": the event manager refuses (HedFileError) an input with an onset column that
# needs sorting BEFORE building anything, and otherwise builds its event list exactly once, from the input it was given, with the schema given
EMF = "hed/tools/analysis/event_manager.py"
class_model("SchemaW15", {})
class_model("InputW15", {"onsets": "Opt[List[Real]]", "needs_sorting": "Bool"})
class_model("EventManagerInitW15", {"hed_schema": "SchemaW15", "input_data": "InputW15", "def_dict": "Opaque", "onsets": "Opaque", "base": "Opaque",
                                    "context": "Opaque", "hed_strings": "Opaque", "event_list": "Opaque"})
try:
    from pyvc.vals import Opaque as _OpqW15
    EXTERNS["InputW15.get_def_dict"] = lambda interp, args, kwargs: _OpqW15("def dict of the input", fresh=True)
except ImportError:
    pass
contract("C20.create_event_list_view_w15", file=EMF, func="EventManager._create_event_list",
         params={"self": "EventManagerInitW15", "input_data": "InputW15"}, returns=None, enc="native", trusted=True, self_class="EventManagerInitW15",
         modifies=["self.onsets", "self.hed_strings", "self.event_list"], raises={"HedFileError": "True"},
         ghost={"sets": {"lists_built": "lists_built + 1", "built_from": "input_data", "schema_at_build": "self.hed_schema"}},
         assume=["EventManager._create_event_list is summarised for the constructor: how often it ran, on which input and with which schema in "
                 "place is remembered (ghost lists_built / built_from / schema_at_build); its body is covered by the C20 contracts of c20_context.py"])
contract("C20.manager_rejects_unsorted_onsets_before_building", file=EMF, func="EventManager.__init__",
         params={"self": "EventManagerInitW15", "input_data": "InputW15", "hed_schema": "SchemaW15", "extra_defs": "Opaque"}, returns=None,
         enc="native", self_class="EventManagerInitW15",
         modifies=["self.hed_schema", "self.input_data", "self.def_dict", "self.onsets", "self.base", "self.context", "self.hed_strings",
                   "self.event_list"],
         raises={"HedFileError": "True"},
         ghost={"init": {"lists_built": "0", "built_from": "None", "schema_at_build": "None"}, "not_at_call_sites": True},
         ensures={
             "C20.manager.returns_only_for_onsets_in_order": "input_data.onsets is None or not input_data.needs_sorting",
             "C20.manager.event_list_built_once_from_the_given_input": "lists_built == 1 and built_from is input_data",
             "C20.manager.schema_given_is_in_place_when_building": "schema_at_build is hed_schema and self.hed_schema is hed_schema"
                                                                   " and self.input_data is input_data",
         })

# ---- C17 "leaves the input table and the operation parameters unchanged ... same result whether the table is processed first, last or repeatedly":
# a key map keeps its OWN copies of the column lists it is given (the operation's parameter lists are not aliased), refuses an empty key list
# (left out: the refusal of overlapping key / target lists and the empty start dictionaries - set intersection truthiness / len of a fresh dict
# came back unknown)
KMF15 = "hed/tools/analysis/key_map.py"
class_model("KeyMapInitW15", {"key_cols": "List[Str]", "target_cols": "List[Str]", "name": "Str", "col_map": "Opaque",
                              "map_dict": "Map[Int,Int]", "count_dict": "Map[Int,Int]"})
contract("C17.key_map_keeps_copies_of_disjoint_column_lists", file=KMF15, func="KeyMap.__init__",
         params={"self": "KeyMapInitW15", "key_cols": "List[Str]", "target_cols": "Opt[List[Str]]", "name": "Str"}, returns=None, enc="native",
         self_class="KeyMapInitW15", raises={"ValueError": "True"}, ghost={"not_at_call_sites": True},
         modifies=["self.key_cols", "self.target_cols", "self.name", "self.col_map", "self.map_dict", "self.count_dict"],
         ensures={
             "C17.keymap.key_columns_are_a_nonempty_copy": "len(key_cols) > 0 and self.key_cols == key_cols and self.key_cols is not key_cols",
             "C17.keymap.target_columns_are_a_copy_or_empty": "implies(target_cols is not None and len(target_cols) > 0, self.target_cols == target_cols) and"
                                                              " implies(target_cols is None or len(target_cols) == 0, len(self.target_cols) == 0)",
             "C17.keymap.named_as_asked": "self.name == name",
         })

# ---- C17 "one that passes, with or without its optional parameters, runs to completion" / "leaves ... the operation parameters unchanged":
# the remap operation stores the lists it was given, never None for the optional integer_sources, and every string source is a source column
# that is not an integer source
class_model("RemapParamsW15", {"map_list": "List[List[Str]]", "source_columns": "List[Str]", "destination_columns": "List[Str]",
                               "ignore_missing": "Bool", "integer_sources": "List[Str]", "has_integer_sources": "Bool"})
class_model("RemapColumnsOpW15", {"source_columns": "List[Str]", "destination_columns": "List[Str]", "map_list": "List[List[Str]]",
                                  "ignore_missing": "Bool", "string_sources": "List[Str]", "integer_sources": "Opt[List[Str]]",
                                  "key_map": "Opaque"})
try:
    EXTERNS["RemapColumnsOpW15._make_key_map"] = lambda interp, args, kwargs: _OpqW15("key map built from the stored lists", fresh=True)
except NameError:
    pass
contract("C17.remap_columns_init_is_none_safe_and_splits_sources", file=OPS + "remap_columns_op.py", func="RemapColumnsOp.__init__",
         params={"self": "RemapColumnsOpW15", "parameters": "RemapParamsW15"}, returns=None, enc="native", self_class="RemapColumnsOpW15",
         ghost={"not_at_call_sites": True},
         modifies=["self.source_columns", "self.destination_columns", "self.map_list", "self.ignore_missing", "self.string_sources",
                   "self.integer_sources", "self.key_map"],
         ensures={
             "C17.none_safe.remap_integer_sources_is_a_list": "self.integer_sources is not None",
             "C17.remap_init.integer_sources_as_given_or_empty": "(self.integer_sources == parameters.integer_sources) if"
                                                                 " parameters.has_integer_sources else len(self.integer_sources) == 0",
             "C17.remap_init.columns_and_map_as_given": "self.source_columns == parameters.source_columns and self.destination_columns =="
                                                        " parameters.destination_columns and self.map_list == parameters.map_list"
                                                        " and self.ignore_missing == parameters.ignore_missing",
             "C17.remap_init.string_sources_are_sources_that_are_not_integer_sources":
                 "all(self.string_sources[i] in parameters.source_columns and implies(parameters.has_integer_sources,"
                 " self.string_sources[i] not in parameters.integer_sources) for i in range(len(self.string_sources)))",
         },
         assume=["BaseOp.__init__ (super) only records the parameters; _make_key_map (pandas) is an opaque fresh value here"])

# ---- C20 "each started process is listed at its start point, the remaining annotation of each point is kept without the temporal groups": the tag
# manager keeps the three lists the event manager unfolds - remaining annotations, starts, contexts - each under its own name (not swapped),
# unfolded with the remove-types it was given, and the definition names of those same types
HTM = "hed/tools/analysis/hed_tag_manager.py"
class_model("EventManagerTMW15", {})
class_model("HedTagManagerInitW15", {"event_manager": "EventManagerTMW15", "remove_types": "List[Str]", "hed_strings": "List[Str]",
                                     "base_strings": "Opt[List[Str]]", "context_strings": "Opt[List[Str]]", "type_def_names": "List[Str]"})
contract("C20.unfold_context_view_w15", file=EMF, func="EventManager.unfold_context", self_class="EventManagerTMW15",
         params={"self": "EventManagerTMW15", "remove_types": "List[Str]"}, returns="Tuple[List[Str],Opt[List[Str]],Opt[List[Str]]]",
         enc="native", trusted=True, ghost={"sets": {"unfolded": "result", "unfold_types": "remove_types", "unfolded_by": "self"}},
         assume=["EventManager.unfold_context is summarised for HedTagManager.__init__: receiver, argument and the triple handed back are remembered "
                 "(ghost); proved of its body: C20.unfolding_keeps_every_row_with_its_own_annotation_starts_and_context"])
contract("C20.get_type_defs_view_w15", file=EMF, func="EventManager.get_type_defs", self_class="EventManagerTMW15",
         params={"self": "EventManagerTMW15", "types": "List[Str]"}, returns="List[Str]", enc="native", trusted=True,
         ghost={"sets": {"defs_named": "result", "defs_types": "types", "defs_by": "self"}},
         assume=["EventManager.get_type_defs is summarised for HedTagManager.__init__: receiver, argument and result are remembered (ghost)"])
contract("C20.tag_manager_keeps_annotations_starts_and_contexts_apart", file=HTM, func="HedTagManager.__init__",
         params={"self": "HedTagManagerInitW15", "event_manager": "EventManagerTMW15", "remove_types": "List[Str]", "extra_defs": "Opaque"},
         returns=None, enc="native", self_class="HedTagManagerInitW15",
         modifies=["self.event_manager", "self.remove_types", "self.hed_strings", "self.base_strings", "self.context_strings", "self.type_def_names"],
         ghost={"init": {"unfolded": "None", "unfold_types": "None", "unfolded_by": "None", "defs_named": "None", "defs_types": "None",
                         "defs_by": "None"}, "not_at_call_sites": True},
         ensures={
             "C20.tagman.manager_and_types_kept": "self.event_manager is event_manager and self.remove_types is remove_types",
             "C20.tagman.unfolded_by_the_given_manager_with_the_given_types": "unfolded_by is event_manager and unfold_types is remove_types",
             "C20.tagman.annotations_starts_contexts_each_under_its_own_name":
                 "unfolded is not None and self.hed_strings == unfolded[0] and self.base_strings == unfolded[1]"
                 " and self.context_strings == unfolded[2]",
             "C20.tagman.definition_names_of_the_same_types": "defs_by is event_manager and defs_types is remove_types"
                                                              " and defs_named is not None and self.type_def_names == defs_named",
         })

# ---- C20 "the remaining annotation of each point is kept without the temporal groups" (how the per-row pieces - annotation, starts, context -
# become ONE annotation): blank pieces contribute nothing, only-blank gives None, otherwise a NEW string object whose text is the non-blank pieces
# (proved: one piece / annotation with a blank start list gives
# exactly the annotation text; left out: the comma-joined text of two and three non-blank pieces - solver timeout on the symbolic join)
contract("C20.pieces_are_joined_in_order_and_blanks_dropped", file=EMF, func="EventManager.str_list_to_hed",
         params={"self": "EventManagerF", "str_list": "List[Str]"}, returns="Opt[HedString]", enc="native", self_class="EventManagerF",
         ghost={"not_at_call_sites": True}, locals={"filtered_list": "List[Str]"},
         ensures={
             "C20.pieces.only_blank_pieces_give_none": "(result is None) == all(str_list[i] == '' for i in range(len(str_list)))",
             "C20.pieces.one_piece_is_itself": "implies(len(str_list) == 1 and str_list[0] != '', result._hed_string == str_list[0])",
             "C20.pieces.blank_start_list_dropped": "implies(len(str_list) == 2 and str_list[0] != '' and str_list[1] == '',"
                                                    " result._hed_string == str_list[0])",
         })

# ---- C18 "re-running the remodeler always starts from the backed-up originals" / C17 "same result whether the table is processed first, last":
# the direct runner puts every listed file, in order, through the dispatcher with that file's path, and writes each result back to THE path it was
# produced for - and writes nothing when updating is switched off
RRF = "hed/tools/remodeling/cli/run_remodel.py"
class_model("OutTableW15", {"src": "Str"})
class_model("DispatchRunW15", {})
class_model("ArgsRunW15", {"verbose": "Bool", "file_suffix": "Str", "extensions": "Opaque", "no_update": "Bool", "json_sidecar": "Opaque"})
contract("C18.run_operations_view_w15", file="hed/tools/remodeling/dispatcher.py", func="Dispatcher.run_operations", self_class="DispatchRunW15",
         params={"self": "DispatchRunW15", "file_path": "Str", "sidecar": "Opaque", "verbose": "Bool"}, returns="OutTableW15", enc="native",
         trusted=True, ghost={"sets": {"ran": "appended_w2(ran, file_path, 'List[Str]')"}},
         ensures={"made_for": "result.src == file_path"},
         assume=["Dispatcher.run_operations is summarised for the command-line runner: the paths it was asked to process are remembered in order "
                 "(ghost ran) and the table handed back is tagged with the path it was produced for (view src); its pipeline: C17.run_operations, "
                 "its reading from the backup: C18.get_data_file"])
try:
    def _to_csv_w15(interp, args, kwargs):
        g = interp.ctx.ghost
        g["written"] = EXTERNS["appended_w2"](interp, [g["written"], args[1], "List[Str]"], {})
        g["written_src"] = EXTERNS["appended_w2"](interp, [g["written_src"], interp.field_read(args[0], "src"), "List[Str]"], {})
        return None
    EXTERNS["OutTableW15.to_csv"] = _to_csv_w15
except NameError:
    pass
contract("C18.direct_runner_writes_each_result_back_to_its_own_file", file=RRF, func="run_direct_ops",
         params={"dispatch": "DispatchRunW15", "args": "ArgsRunW15", "tabular_files": "List[Str]"}, returns=None, enc="native",
         ghost={"init": {"ran": "[]", "written": "[]", "written_src": "[]"}, "not_at_call_sites": True},
         ensures={
             "C18.direct.every_file_run_once_in_order": "len(ran) == len(tabular_files) and all(ran[k] == tabular_files[k] for k in range(len(ran)))",
             "C18.direct.no_update_writes_nothing": "implies(args.no_update, len(written) == 0)",
             "C18.direct.each_result_written_to_the_file_it_was_made_for":
                 "implies(not args.no_update, len(written) == len(tabular_files) and len(written_src) == len(tabular_files) and"
                 " all(written[k] == tabular_files[k] and written_src[k] == tabular_files[k] for k in range(len(tabular_files))))",
         },
         loops={0: {"ghost": {"ran": "List[Str]", "written": "List[Str]", "written_src": "List[Str]"},
                    "invariant": [
                        "len(ran) == _n and all(ran[k] == tabular_files[k] for k in range(_n))",
                        "implies(args.no_update, len(written) == 0)",
                        "implies(not args.no_update, len(written) == _n and len(written_src) == _n and"
                        " all(written[k] == tabular_files[k] and written_src[k] == tabular_files[k] for k in range(_n)))",
                    ]}},
         assume=["DataFrame.to_csv(path, ...) is modelled as a recorder: the path written and the path the table was produced for (ghost written / "
                 "written_src)"])

# ---- C20 "the remaining annotation of each point is kept": the string object the tag manager makes for a text is None for a blank text and
# otherwise a NEW object holding exactly that text (type tags are split off that new object, never off a caller's object)
class_model("HedTagManagerObjW15", {"event_manager": "EventManagerF", "remove_types": "Opaque"})
contract("C20.tag_manager_object_of_a_text_is_new_and_holds_that_text", file=HTM, func="HedTagManager.get_hed_obj",
         params={"self": "HedTagManagerObjW15", "hed_str": "Str", "remove_types": "Bool", "remove_group": "Bool"}, returns="Opt[HedString]",
         enc="native", self_class="HedTagManagerObjW15", ghost={"not_at_call_sites": True},
         ensures={
             "C20.tagobj.blank_text_gives_none": "(result is None) == (hed_str == '')",
             "C20.tagobj.object_is_new_and_holds_the_text": "implies(hed_str != '', fresh(result) and result._hed_string == hed_str)",
         })
