"""Sidecar contract objects and registries (contracts live in /verif/contracts, never in /repo)."""

CONTRACTS = {}       # cid -> Contract
CLASSES = {}         # class model name -> {"fields": {name: typestr}, "bases": [..], "methods": {name: cid}}
SPEC_SOURCES = []    # python source texts of spec functions (also importable modules for concrete evaluation)
EXTERNS = {}         # dotted call name -> callable(ctx, args, kwargs) python-side model


class Contract:
    def __init__(self, cid, file, func, params=None, returns=None, enc="native", requires=(), ensures=None,
                 raises=None, modifies=(), loops=None, locals=None, lets=None, prop=None, inline=False,
                 trusted=False, fresh_result=True, self_class=None, notes="", bounded=None, ghost=None,
                 pure=False, old=None, kind="top", calls=None, assume=(), unwind=None, recursive=False, lemmas=(), also=()):
        self.cid = cid
        self.file = file
        self.func = func
        self.params = dict(params or {})
        self.returns = returns
        self.enc = enc
        self.requires = list(requires)
        self.ensures = dict(ensures or {})
        self.raises = dict(raises or {})      # ExcClass -> condition expr over old state ("True" = may always)
        self.modifies = list(modifies)
        self.loops = dict(loops or {})
        self.locals = dict(locals or {})
        self.lets = dict(lets or {})
        self.prop = prop or cid.split(".")[0]
        self.inline = inline
        self.trusted = trusted                # body not verified here (external, or too complex): an assumption
        self.fresh_result = fresh_result
        self.self_class = self_class
        self.notes = notes
        self.bounded = bounded
        self.ghost = dict(ghost or {})
        self.pure = pure
        self.kind = kind
        self.calls = dict(calls or {})        # local overrides: call text -> cid
        self.assume = list(assume)            # explicitly listed assumptions (reported in evidence)
        self.unwind = unwind
        self.recursive = recursive
        self.also = list(also)       # further properties whose check runs (and counts) this contract
        self.lemmas = list(lemmas)   # dicts: name, vars{name:type}, induct (var name), stmt
        if cid in CONTRACTS:
            raise KeyError(f"duplicate contract id {cid}")
        CONTRACTS[cid] = self

    @property
    def method_name(self):
        return self.func.split(".")[-1]

    @property
    def class_name(self):
        parts = self.func.split(".")
        return self.self_class or (parts[-2] if len(parts) > 1 else None)


def contract(cid, **kw):
    return Contract(cid, **kw)


def class_model(name, fields, bases=()):
    CLASSES[name] = {"fields": dict(fields), "bases": list(bases)}


def class_field(cls, field):
    """Look a field up through the model's bases."""
    seen = set()
    todo = [cls]
    while todo:
        c = todo.pop(0)
        if c in seen or c not in CLASSES:
            continue
        seen.add(c)
        if field in CLASSES[c]["fields"]:
            return c, CLASSES[c]["fields"][field]
        todo.extend(CLASSES[c]["bases"])
    return None


def all_fields(cls):
    """every modelled field of a class, through its bases"""
    out, seen, todo = {}, set(), [cls]
    while todo:
        c = todo.pop(0)
        if c in seen or c not in CLASSES:
            continue
        seen.add(c)
        for f, t in CLASSES[c]["fields"].items():
            out.setdefault(f, t)
        todo.extend(CLASSES[c]["bases"])
    return out


def find_method_contract(cls, name):
    seen = set()
    todo = [cls]
    while todo:
        c = todo.pop(0)
        if c in seen:
            continue
        seen.add(c)
        for ct in CONTRACTS.values():
            if ct.class_name == c and ct.method_name == name and not ct.ghost.get("dataflow_only") and not ct.ghost.get("not_at_call_sites"):
                return ct          # (contracts that only state iteration independence say nothing a call site could use)
        if c in CLASSES:
            todo.extend(CLASSES[c]["bases"])
    return None


def find_function_contract(name):
    for ct in CONTRACTS.values():
        if ct.func == name and not ct.ghost.get("dataflow_only") and not ct.ghost.get("not_at_call_sites"):
            return ct
    return None


def apply_bounded_registry():
    """rt/bounded_registry.py (pure data: contract id -> generator/adapter descriptors) supplies the concrete bounded search of
    contracts whose declaration does not carry one; it affects only the labelled bounded cross-check, never an obligation."""
    try:
        from rt.bounded_registry import BOUNDED
    except ImportError:
        return
    for cid, desc in BOUNDED.items():
        ct = CONTRACTS.get(cid)
        if ct is not None and not ct.bounded:
            ct.bounded = dict(desc)


DISCHARGED = {}      # cid of a trusted summary -> cid of the proved contract that states the same clauses on the same function


def apply_discharges():
    """A proved contract Y with ghost["discharges"] == X (X a trusted summary used at call sites) turns X from an assumption into a
    proved statement - accepted only if this mechanical test holds: same file and function, every (label, text) clause of X is a clause
    of Y, Y requires nothing X does not require, Y's frame is no larger than X's, X admits every exception Y admits. Y is then also
    verified (and counted) in the check of every property X belongs to, so a run that relies on X re-proves X's clauses from the body."""
    DISCHARGED.clear()
    for y in CONTRACTS.values():
        xid = y.ghost.get("discharges")
        if not xid or y.trusted:
            continue
        x = CONTRACTS.get(xid)
        if x is None or not x.trusted or (x.file, x.func) != (y.file, y.func):
            continue
        norm = lambda s: " ".join(str(s).split())
        if not all(k in y.ensures and norm(y.ensures[k]) == norm(v) for k, v in x.ensures.items()):
            continue
        if not {norm(r) for r in y.requires} <= {norm(r) for r in x.requires}:
            continue
        if not {norm(m) for m in y.modifies} <= {norm(m) for m in x.modifies}:
            continue
        if not set(y.raises) <= set(x.raises):
            continue
        if x.params and y.params and {k: norm(v) for k, v in x.params.items()} != {k: norm(v) for k, v in y.params.items()}:
            continue
        if norm(x.returns) != norm(y.returns) or any(norm(y.lets.get(k)) != norm(v) for k, v in x.lets.items()):
            continue
        if any(k != "not_at_call_sites" and y.ghost.get(k) != v for k, v in x.ghost.items()):
            continue        # ghost effects a caller would assume must be the ones the proof is about
        scalar = ("None", "Int", "Bool", "Str", "Float", "Char", "Opt[Int]", "Opt[Str]", "Opt[Bool]", "Opt[Float]")
        if x.fresh_result and norm(x.returns) not in scalar and not any("fresh(result)" in norm(v) for v in y.ensures.values()):
            continue        # callers treat the summary's result as owned by them: that has to be a proved clause
        DISCHARGED[xid] = y.cid
        for p in [x.prop] + list(x.also):
            if p != y.prop and p not in y.also:
                y.also.append(p)
