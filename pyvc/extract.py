"""Mechanical extraction of functions, classes and literal tables from the working tree.

Nothing is rewritten: the executor receives the unmodified ``ast`` of the function.  Dropped by
extraction: docstrings, comments, type hints, decorators ``staticmethod/classmethod/property/wraps``
(their calling convention is applied instead) and everything outside the functions under contract.
"""
import ast
import glob
import hashlib
import os

from . import REPO


class ExtractError(Exception):
    pass


class Module:
    def __init__(self, path, rel):
        self.path = path
        self.rel = rel
        with open(path, encoding="utf-8") as f:
            self.src = f.read()
        self.tree = ast.parse(self.src, filename=path)
        self.classes = {}
        self.functions = {}
        self.assigns = {}
        self.imports = {}  # local name -> (module, name or None)
        for node in self.tree.body:
            if isinstance(node, ast.ClassDef):
                self.classes[node.name] = node
            elif isinstance(node, (ast.FunctionDef,)):
                self.functions[node.name] = node
            elif isinstance(node, ast.Assign) and len(node.targets) == 1 and isinstance(node.targets[0], ast.Name):
                self.assigns[node.targets[0].id] = node.value
            elif isinstance(node, ast.ImportFrom):
                for a in node.names:
                    self.imports[a.asname or a.name] = (node.module, a.name)
            elif isinstance(node, ast.Import):
                for a in node.names:
                    self.imports[a.asname or a.name.split(".")[0]] = (a.name, None)


class RepoIndex:
    """Index of every module under <repo>/hed, parsed once per run."""

    def __init__(self, repo=None):
        self.repo = repo or REPO
        self.modules = {}
        self.class_index = {}
        for path in sorted(glob.glob(os.path.join(self.repo, "hed", "**", "*.py"), recursive=True)):
            rel = os.path.relpath(path, self.repo)
            try:
                m = Module(path, rel)
            except SyntaxError as e:  # a tree that does not parse cannot be verified
                raise ExtractError(f"cannot parse {rel}: {e}")
            self.modules[rel] = m
            for cname, cnode in m.classes.items():
                self.class_index.setdefault(cname, []).append((rel, cnode))

    def module(self, rel):
        if rel not in self.modules:
            raise ExtractError(f"module {rel} not found in {self.repo}")
        return self.modules[rel]

    def find_class(self, name, prefer=None):
        hits = self.class_index.get(name, [])
        if not hits:
            return None
        if prefer:
            for rel, node in hits:
                if rel == prefer:
                    return rel, node
        return hits[0]

    def find_function(self, rel, qualname):
        """qualname: 'func', 'Class.func', or 'outer.inner.wrapper#1' (ordinal among same-named nested defs)."""
        mod = self.module(rel)
        parts = qualname.split(".")
        scope = mod.tree.body
        node = None
        cls = None
        for k, part in enumerate(parts):
            ordinal = 0
            if "#" in part:
                part, o = part.split("#")
                ordinal = int(o)
            found = []
            for n in _walk_scope(scope):
                if isinstance(n, (ast.FunctionDef, ast.ClassDef)) and n.name == part:
                    found.append(n)
            if len(found) <= ordinal:
                raise ExtractError(f"{rel}:{qualname}: '{part}' not found")
            node = found[ordinal]
            if isinstance(node, ast.ClassDef):
                cls = node
            scope = node.body
        if not isinstance(node, ast.FunctionDef):
            raise ExtractError(f"{rel}:{qualname} is not a function")
        return mod, cls, node

    def source_hash(self, mod, node):
        seg = ast.get_source_segment(mod.src, node) or ""
        return hashlib.sha256(seg.encode()).hexdigest()[:16]

    # ---- literal tables -------------------------------------------------
    def class_constants(self, name, prefer=None):
        """Literal class-level assignments of a class (strings, ints, tuples/sets/lists of them,
        and references to earlier constants of the same class)."""
        hit = self.find_class(name, prefer)
        if not hit:
            return None
        rel, node = hit
        consts = {}
        for st in node.body:
            if isinstance(st, ast.Assign) and len(st.targets) == 1 and isinstance(st.targets[0], ast.Name):
                try:
                    consts[st.targets[0].id] = _lit(st.value, consts, self)
                except ValueError:
                    pass
        return consts

    def module_constant(self, rel, name):
        mod = self.module(rel)
        if name in mod.assigns:
            consts = {}
            for k, v in mod.assigns.items():
                try:
                    consts[k] = _lit(v, consts, self)
                except ValueError:
                    pass
            if name in consts:
                return consts[name]
        raise ExtractError(f"{rel}: constant {name} not literal")


def _walk_scope(body):
    """Yield defs directly in this scope, looking through if/try/with blocks but not into other defs."""
    for n in body:
        if isinstance(n, (ast.FunctionDef, ast.ClassDef)):
            yield n
        elif isinstance(n, (ast.If, ast.Try, ast.With, ast.For, ast.While)):
            for fld in ("body", "orelse", "finalbody"):
                yield from _walk_scope(getattr(n, fld, []) or [])
            for h in getattr(n, "handlers", []) or []:
                yield from _walk_scope(h.body)


def _lit(node, consts, index):
    if isinstance(node, ast.Constant):
        return node.value
    if isinstance(node, ast.Name):
        if node.id in consts:
            return consts[node.id]
        raise ValueError
    if isinstance(node, ast.Attribute) and isinstance(node.value, ast.Name):
        cc = index.class_constants(node.value.id) if node.value.id not in consts else None
        if cc and node.attr in cc:
            return cc[node.attr]
        raise ValueError
    if isinstance(node, (ast.Tuple, ast.List, ast.Set)):
        vals = [_lit(e, consts, index) for e in node.elts]
        return tuple(vals) if isinstance(node, ast.Tuple) else (list(vals) if isinstance(node, ast.List) else set(vals))
    if isinstance(node, ast.Dict):
        return {_lit(k, consts, index): _lit(v, consts, index) for k, v in zip(node.keys, node.values)}
    if isinstance(node, ast.BinOp) and isinstance(node.op, (ast.Add, ast.Mult, ast.BitOr)):
        a, b = _lit(node.left, consts, index), _lit(node.right, consts, index)
        if isinstance(node.op, ast.Add):
            return a + b
        if isinstance(node.op, ast.Mult):
            return a * b
        return a | b
    if isinstance(node, ast.UnaryOp) and isinstance(node.op, ast.USub):
        return -_lit(node.operand, consts, index)
    if isinstance(node, ast.Call) and isinstance(node.func, ast.Attribute) and node.func.attr in ("union", "intersection", "difference") \
            and len(node.args) == 1:
        a, b = _lit(node.func.value, consts, index), _lit(node.args[0], consts, index)
        if isinstance(a, (set, frozenset)):
            return getattr(set(a), node.func.attr)(set(b))
        raise ValueError
    if isinstance(node, ast.Call) and isinstance(node.func, ast.Name) and node.func.id in ("set", "frozenset", "tuple", "list") \
            and len(node.args) == 1:
        v = _lit(node.args[0], consts, index)
        return {"set": set, "frozenset": frozenset, "tuple": tuple, "list": list}[node.func.id](v)
    raise ValueError


def error_table(index):
    """kind -> dict(code, severity, has_sub_tag, params, file) from the @hed_error/@hed_tag_error decorators."""
    sev = index.class_constants("ErrorSeverity") or {}
    table = {}
    for rel in ("hed/errors/error_messages.py", "hed/errors/schema_error_messages.py", "hed/errors/error_reporter.py"):
        mod = index.module(rel)
        for node in ast.walk(mod.tree):
            if not isinstance(node, ast.FunctionDef):
                continue
            for dec in node.decorator_list:
                if isinstance(dec, ast.Call) and isinstance(dec.func, ast.Name) and dec.func.id in ("hed_error", "hed_tag_error"):
                    try:
                        kind = _lit(dec.args[0], {}, index)
                    except ValueError:
                        continue
                    entry = {"code": kind, "severity": sev.get("ERROR", 1), "has_sub_tag": False, "tag_error": dec.func.id == "hed_tag_error",
                             "params": [a.arg for a in node.args.args], "file": rel, "func": node.name}
                    names = ["error_type", "default_severity", "actual_code"] if dec.func.id == "hed_error" else \
                        ["error_type", "default_severity", "has_sub_tag", "actual_code"]
                    vals = {}
                    for k, a in enumerate(dec.args):
                        vals[names[k]] = a
                    for kw in dec.keywords:
                        vals[kw.arg] = kw.value
                    try:
                        if "default_severity" in vals:
                            entry["severity"] = _lit(vals["default_severity"], {}, index)
                        if "actual_code" in vals:
                            entry["code"] = _lit(vals["actual_code"], {}, index)
                        if "has_sub_tag" in vals:
                            entry["has_sub_tag"] = _lit(vals["has_sub_tag"], {}, index)
                    except ValueError:
                        entry["unresolved"] = True
                    table[kind] = entry
    return table
