"""Method calls on strings, containers and modelled objects."""
import ast
import z3

from .vals import (SV, Char, Opaque, Cell, Closure, ClassRef, BoundMethod, Builtin, ExcValue, Unsupported, INT, BOOL,
                   REAL, STR, ASTR, OPQ, TOpt, TList, TTuple, TRef, TMap, TSet, sort_of, alen, aat)
from .core import Infeasible
from .strenc import is_str
from .calls import _cf, _lower, _upper, _acount
from . import contract as C

CHAR_PREDS = {"isspace", "isalpha", "isalnum", "isdigit", "isupper", "islower", "isprintable", "isnumeric"}


class MethodMixin:
    def call_method(self, recv, name, args, kwargs, node):
        ctx = self.ctx
        if isinstance(recv, Opaque):
            return self.opaque_method(recv, name, args, kwargs)
        if getattr(recv, "unknown", False):
            if name in ("append", "extend", "add", "update", "insert", "sort", "remove", "pop", "clear", "discard", "reverse"):
                self.mutate(recv, name)
                return None
            return Opaque(f"unknown.{name}()", fresh=True)
        if any(isinstance(a, Opaque) or getattr(a, "unknown", False) for a in args) and isinstance(recv, Cell) \
                and name not in ("append", "extend", "add", "update", "insert", "remove", "discard", "get", "pop", "setdefault"):
            return Opaque(f"{recv.kind}.{name}()", fresh=True)
        if type(recv).__name__ == "DictView":
            # a.__dict__.update(b.__dict__): every attribute of b is (shallowly) copied to a.  Sound for the class model only if
            # the model lists every attribute the contract speaks about (unlisted attributes are not visible to any clause)
            if name == "update" and len(args) == 1 and type(args[0]).__name__ == "DictView" and not kwargs:
                src, dst = args[0].obj, recv.obj
                for f in C.all_fields(src.ty.args[0].name):
                    if C.class_field(dst.ty.args[0].name, f) is None:
                        continue
                    self.field_write(dst, f, self.field_read(src, f))
                return None
            raise Unsupported(f"__dict__.{name}")
        if is_str(recv):
            return self.str_method(recv, name, args, kwargs)
        if isinstance(recv, Cell):
            if recv.kind == "list":
                return self.list_method(recv, name, args, kwargs)
            if recv.kind == "dict":
                return self.dict_method(recv, name, args, kwargs)
            if recv.kind == "set":
                return self.set_method(recv, name, args, kwargs)
        if isinstance(recv, SV) and recv.ty.name == "Ref":
            cls = recv.ty.args[0].name
            ct = self.engine.method_contract(self, cls, name)
            if ct is not None:
                return self.apply_contract(ct, recv, args, kwargs, node)
            ext = C.EXTERNS.get(f"{cls}.{name}")
            if ext is not None:
                return ext(self, [recv] + list(args), kwargs)
            if name == "get" and args and isinstance(args[0], str):     # dict-like object (issue)
                has = self.field_info(cls, "has_" + args[0])
                val = self.field_read(recv, args[0])
                default = args[1] if len(args) > 1 else None
                if val is None:
                    raise Unsupported(f"{cls}.get('{args[0]}') not modelled")
                if has is None:
                    return val
                present = self.field_read(recv, "has_" + args[0])
                return self.merge(ctx.term(present, BOOL), val, default)
            top = self.frames[0].contract if self.frames and hasattr(self.frames[0], "contract") else None
            if top is not None and top.unwind == "havoc" and C.CLASSES.get(cls, {}).get("opaque_methods"):
                return self.opaque_call(f"{cls}.{name}", args, kwargs)     # frame-only contract: an unmodelled method
            inl = self.auto_inline(recv, cls, name, args, kwargs)
            if inl is not None:
                return inl[0]
            raise Unsupported(f"no contract for method {cls}.{name}")
        if isinstance(recv, tuple):
            if name == "index" or name == "count":
                raise Unsupported("tuple method")
        if isinstance(recv, (int, float)):
            raise Unsupported(f"numeric method {name}")
        raise Unsupported(f"method {name} on {recv!r}")

    def auto_inline(self, recv, cls, name, args, kwargs):
        """A method of the real class behind the receiver that has no contract is executed symbolically in place (depth <= 2), exactly
        like a callee marked inline: its body is part of the caller's verified text (recorded as an inlined callee in the evidence)."""
        ctx = self.ctx
        depth = getattr(ctx, "_inline_depth", 0)
        if depth >= 2:
            return None
        real = None
        ct0 = ctx.contract
        me = ctx.entry_env.get("self") if hasattr(ctx, "entry_env") else None
        if isinstance(me, SV) and me.ty == recv.ty and "." in ct0.func:
            real = ct0.func.split(".")[0]          # same model class as the function's own `self`: the real class of the contract
        elif self.engine.index.find_class(cls):
            real = cls
        if real is None:
            return None
        seen, todo, hit = set(), [real], None
        while todo and hit is None:
            c = todo.pop()
            if c in seen:
                continue
            seen.add(c)
            found = self.engine.index.find_class(c)
            if not found:
                continue
            rel, node = found
            for st in node.body:
                if isinstance(st, ast.FunctionDef) and st.name == name:
                    hit = (rel, node, st)
                    break
            todo.extend(b.id for b in node.bases if isinstance(b, ast.Name))
        if hit is None:
            return None
        rel, cnode, fn = hit
        decs = [d.id if isinstance(d, ast.Name) else getattr(d, "attr", "") for d in fn.decorator_list]
        if "property" in decs or "classmethod" in decs:
            return None
        from .vals import Closure
        clo = Closure(fn, {}, name=f"{real}.{name}")
        clo.module = self.engine.index.module(rel)
        clo.cls_node = cnode
        call_args = list(args) if "staticmethod" in decs else [recv] + list(args)
        self.engine.note_assumption(f"{real}.{name} has no contract of its own: its body is inlined into the caller (part of the verified text)")
        ctx._inline_depth = depth + 1
        try:
            return (self.call_closure(clo, call_args, kwargs),)
        finally:
            ctx._inline_depth = depth

    MUTATING_LIB_METHODS = {"insert", "update", "pop", "drop_duplicates_inplace", "setdefault", "append", "extend", "add",
                            "remove", "clear", "sort", "reverse", "discard", "popitem", "__setitem__", "set_index_inplace",
                            "put", "itemset", "fill", "resize"}

    def opaque_method(self, recv, name, args, kwargs):
        """method of an unmodelled (library) object.  Effect table: it mutates its receiver iff it is one of the
        in-place methods or is called with inplace=True; its result is a new object; arguments are not mutated."""
        ctx = self.ctx
        # library calls whose keyword arguments carry meaning the contract relies on (ghost call_requires = {method: {kw: [allowed literals]}})
        top = self.frames[0].contract if self.frames and hasattr(self.frames[0], "contract") else None
        need = (top.ghost.get("call_requires") or {}).get(name) if top is not None else None
        if need:
            for kw, allowed in need.items():
                got = kwargs.get(kw, "<absent>")
                ok = isinstance(got, (str, int, bool)) and got in allowed
                ctx.oblige("call-pre", f"{name}.{kw} in {allowed}", z3.BoolVal(bool(ok)), top=True,
                           info={"callee": name, "clause": f"{name}(..., {kw}=...) must be one of {allowed}; found {got!r}"})
            ctx.ghost["seen_" + name] = True
        inplace = kwargs.get("inplace")
        mutating = name in self.MUTATING_LIB_METHODS or inplace is True or isinstance(inplace, (Opaque, SV))
        if mutating and not recv.fresh and not self.engine.modifies_allows(ctx, recv.desc):
            ctx.oblige("frame", f"in-place {name}() on {recv.desc}", z3.BoolVal(False), top=True,
                       info={"frame": recv.desc, "what": name})
        self.engine.note_assumption("unmodelled library methods return new objects, mutate their receiver only through the "
                                    "in-place methods / inplace=True, and never mutate their arguments (pandas effect table)")
        return Opaque(f"{recv.desc}.{name}()", fresh=True)

    # ------------------------------------------------------------------ str
    def str_method(self, s, name, args, kwargs):
        ctx = self.ctx
        S = ctx.strs
        if isinstance(s, str) and all(isinstance(a, (str, int)) or a is None for a in args) and not kwargs:
            try:
                r = getattr(s, name)(*args)
            except (ValueError, TypeError, IndexError):
                raise Unsupported(f"concrete str.{name} raised")
            if isinstance(r, list):
                return Cell("list", conc=list(r), fresh=True)
            return r
        if name in CHAR_PREDS:
            if isinstance(s, Char):
                return SV(BOOL, S.char_pred(name, s.c))
            if isinstance(s, SV) and s.ty == ASTR:
                k = z3.Int(ctx.fresh_name("k"))
                return SV(BOOL, z3.And(alen(s.t) > 0, z3.ForAll([k], z3.Implies(z3.And(0 <= k, k < alen(s.t)), S.char_pred(name, aat(s.t, k))))))
            if isinstance(s, SV) and s.ty == STR:
                k = z3.Int(ctx.fresh_name("k"))
                return SV(BOOL, z3.And(z3.Length(s.t) > 0,
                                       z3.ForAll([k], z3.Implies(z3.And(0 <= k, k < z3.Length(s.t)),
                                                                 S.char_pred(name, z3.StrToCode(z3.SubString(s.t, k, 1)))))))
        if name == "strip" and not args:
            if isinstance(s, SV) and s.ty == STR:
                f = z3.Function("strip", z3.StringSort(), z3.StringSort())
                r = f(s.t)
                ctx.assume(z3.Length(r) <= z3.Length(s.t))
                ctx.assume(z3.Contains(s.t, r))
                return SV(STR, r)
            return S.strip(s)
        if name in ("casefold", "lower", "upper"):
            fn = {"casefold": _cf, "lower": _lower, "upper": _upper}[name]
            if isinstance(s, Char):
                g = z3.Function("c_" + name, z3.IntSort(), z3.IntSort())
                # ASCII exact
                c = s.c
                if name == "upper":
                    asc = z3.If(z3.And(c >= 97, c <= 122), c - 32, c)
                else:
                    asc = z3.If(z3.And(c >= 65, c <= 90), c + 32, c)
                return Char(z3.If(z3.And(c >= 0, c < 128), asc, g(c)))
            t = S.to_native(s)
            r = fn(t)
            self.engine.case_axioms(ctx, name, fn, t)
            return SV(STR, r)
        if name in ("startswith", "endswith"):
            p = args[0]
            if isinstance(p, tuple):
                parts = [self.str_method(s, name, [x], {}) for x in p]
                return SV(BOOL, z3.Or(*[ctx.zbool(ctx.truth(x)) for x in parts]))
            if S.mode_of(s, p) == "array":
                sa, pa = S.to_astr(s), S.to_astr(p)
                k = z3.Int(ctx.fresh_name("k"))
                off = z3.IntVal(0) if name == "startswith" else alen(sa) - alen(pa)
                return SV(BOOL, z3.And(alen(pa) <= alen(sa),
                                       z3.ForAll([k], z3.Implies(z3.And(0 <= k, k < alen(pa)), aat(sa, off + k) == aat(pa, k)))))
            f = z3.PrefixOf if name == "startswith" else z3.SuffixOf
            return SV(BOOL, f(S.to_native(p), S.to_native(s)))
        if name in ("find", "rfind") and len(args) >= 1 and isinstance(args[0], str) and len(args[0]) == 1 \
                and (isinstance(s, SV) and s.ty == ASTR):
            # array encoding: first / last occurrence of one character, axiomatised exactly
            c = ord(args[0])
            u = s.t
            r = z3.Int(ctx.fresh_name(name))
            k = z3.Int(ctx.fresh_name("k"))
            lo = z3.IntVal(0)
            if len(args) > 1:
                if name == "rfind":
                    raise Unsupported("rfind with start")
                st = ctx.term(args[1], INT)
                lo = z3.If(st < 0, z3.If(st + alen(u) < 0, 0, st + alen(u)), st)
            none = z3.ForAll([k], z3.Implies(z3.And(lo <= k, k < alen(u)), aat(u, k) != c))
            if name == "find":
                first = z3.And(lo <= r, r < alen(u), aat(u, r) == c,
                               z3.ForAll([k], z3.Implies(z3.And(lo <= k, k < r), aat(u, k) != c)))
            else:
                first = z3.And(0 <= r, r < alen(u), aat(u, r) == c,
                               z3.ForAll([k], z3.Implies(z3.And(r < k, k < alen(u)), aat(u, k) != c)))
            ctx.assume(z3.Or(z3.And(r == -1, none), first))
            return SV(INT, r)
        if name == "find" and len(args) >= 1:
            t, p = S.to_native(s), S.to_native(args[0])
            start = ctx.term(args[1], INT) if len(args) > 1 else z3.IntVal(0)
            return SV(INT, z3.IndexOf(t, p, start))
        if name == "rfind" and len(args) == 1:
            return SV(INT, z3.LastIndexOf(S.to_native(s), S.to_native(args[0])))
        if name == "count" and len(args) == 1:
            c = args[0]
            if isinstance(c, str) and len(c) == 1 and isinstance(s, SV) and s.ty == ASTR:
                # str.count of one character == the spec function count_char(s, c, len(s))
                f = self.engine.spec_funcs.get("count_char")
                if f is None:
                    raise Unsupported("spec function count_char missing")
                return self.call_closure(f, [s, c, SV(INT, alen(s.t))], {})
            ext = self.engine.extern("str.count")
            if ext is not None and S.mode_of(s, c) != "array":
                return ext(self, [s, c], {})
            raise Unsupported("str.count in this encoding")
        if name == "replace" and len(args) == 2 and S.mode_of(s, *args) != "array":
            a2 = [self.to_str(x) if not is_str(x) else x for x in args]
            return self.engine.extern_required("str.replace")(self, [s] + a2, kwargs)
        if name in ("split", "rsplit", "partition", "rpartition", "join", "replace", "format", "splitlines", "lstrip",
                    "rstrip", "title", "capitalize", "encode", "zfill", "isidentifier"):
            ext = self.engine.extern("str." + name)
            if ext is not None:
                return ext(self, [s] + list(args), kwargs)
            if name in ("format", "encode"):
                return Opaque("str." + name, fresh=True)
            raise Unsupported(f"str.{name} not modelled")
        raise Unsupported(f"str.{name}")

    # ------------------------------------------------------------------ list
    def list_method(self, cell, name, args, kwargs):
        ctx = self.ctx
        if name == "append":
            self.list_append(cell, args[0])
            return None
        if name == "extend":
            self.list_extend(cell, args[0])
            return None
        if name == "copy":
            return Cell("list", conc=list(cell.conc) if cell.conc is not None else None, sym=cell.sym, fresh=True,
                        elem=cell.elem)
        if name == "pop":
            self.mutate(cell, "pop")
            if cell.sym is None:
                if not args:
                    if not cell.conc:
                        ctx.may_raise(True, "IndexError", "pop from empty list")
                        raise Infeasible()
                    v = cell.conc.pop()
                    self.write_back(cell)
                    return v
                if isinstance(args[0], int):
                    try:
                        v = cell.conc.pop(args[0])
                    except IndexError:
                        ctx.may_raise(True, "IndexError", "pop index")
                        raise Infeasible()
                    self.write_back(cell)
                    return v
                self.symbolise(cell)
            if args and args[0] == 0 and isinstance(args[0], int):
                # pop(0): the first member; the rest moves down by one (set view: the members of the rest are members of the list)
                ty = cell.sym.ty
                s = sort_of(ty)
                t = cell.sym.t
                ctx.may_raise(s.len(t) <= 0, "IndexError", "pop from empty list")
                v = ctx.wrap(z3.Select(s.data(t), 0), ty.args[0])
                r = z3.Const(ctx.fresh_name("rest"), s)
                k = z3.Int(ctx.fresh_name("k"))
                ctx.assume(s.len(r) == s.len(t) - 1)
                ctx.assume(z3.ForAll([k], z3.Implies(z3.And(0 <= k, k < s.len(r)), z3.Select(s.data(r), k) == z3.Select(s.data(t), k + 1)),
                                     patterns=[z3.Select(s.data(r), k)]))
                if ty.args[0].name in ("Ref", "Int", "Str"):
                    from .core import mem_fn
                    e = z3.Const(ctx.fresh_name("e"), sort_of(ty.args[0]))
                    ctx.assume(z3.ForAll([e], z3.Implies(mem_fn(ty)(r, e), mem_fn(ty)(t, e)), patterns=[mem_fn(ty)(r, e)]))
                cell.sym = SV(ty, r)
                self.write_back(cell)
                return v
            if args and not (isinstance(args[0], int) and args[0] == -1):
                raise Unsupported("pop(i) on symbolic list")
            ty = cell.sym.ty
            s = sort_of(ty)
            t = cell.sym.t
            ctx.may_raise(s.len(t) <= 0, "IndexError", "pop from empty list")
            v = ctx.wrap(z3.Select(s.data(t), s.len(t) - 1), ty.args[0])
            cell.sym = SV(ty, s.mk(s.data(t), s.len(t) - 1))
            self.write_back(cell)
            return v
        if name in ("sort", "reverse"):
            self.mutate(cell, name)
            if cell.sym is None and name == "reverse":
                cell.conc.reverse()
            elif cell.sym is None and all(isinstance(x, (int, str)) for x in cell.conc) and not kwargs:
                cell.conc.sort()
            else:
                ty = cell.sym.ty if cell.sym is not None else self.symbolise(cell)
                s = sort_of(ty)
                r = z3.Const(ctx.fresh_name("sorted"), s)
                ctx.assume(s.len(r) == s.len(cell.sym.t))
                if ty.args[0].name in ("Ref", "Int", "Str"):      # sorting permutes: same members
                    from .core import mem_fn
                    m = mem_fn(ty)
                    e = z3.Const(ctx.fresh_name("e"), sort_of(ty.args[0]))
                    ctx.assume(z3.ForAll([e], m(r, e) == m(cell.sym.t, e)))
                cell.sym = SV(ty, r)
                ctx.assume_type_inv(cell, ty)
            self.write_back(cell)
            return None
        if name == "insert":
            self.mutate(cell, "insert")
            if cell.sym is None and isinstance(args[0], int):
                cell.conc.insert(args[0], args[1])
                self.write_back(cell)
                return None
            raise Unsupported("insert on symbolic list")
        if name == "remove":
            self.mutate(cell, "remove")
            raise Unsupported("list.remove")
        if name == "clear":
            self.mutate(cell, "clear")
            if cell.sym is None:
                cell.conc.clear()
            else:
                s = sort_of(cell.sym.ty)
                cell.sym = SV(cell.sym.ty, s.mk(s.data(cell.sym.t), z3.IntVal(0)))
            self.write_back(cell)
            return None
        if name == "index":
            raise Unsupported("list.index")
        if name == "count":
            raise Unsupported("list.count")
        raise Unsupported(f"list.{name}")

    # ------------------------------------------------------------------ dict
    def dict_method(self, cell, name, args, kwargs):
        ctx = self.ctx
        if name == "get":
            return self.dict_get(cell, args[0], raising=False, default=args[1] if len(args) > 1 else None)
        if name == "copy":
            return Cell("dict", conc=dict(cell.conc) if cell.conc is not None else None, sym=cell.sym, fresh=True)
        if name in ("keys", "values", "items"):
            if cell.sym is None:
                if name == "keys":
                    return tuple(cell.conc.keys())
                if name == "values":
                    return tuple(cell.conc.values())
                return tuple((k, v) for k, v in cell.conc.items())
            return self.engine.dict_view(self, cell, name)
        if name == "update":
            self.mutate(cell, "update")
            other = args[0] if args else Cell("dict", conc=dict(kwargs))
            if isinstance(other, Opaque):
                raise Unsupported("dict.update with opaque")
            if cell.sym is None and isinstance(other, Cell) and other.sym is None:
                cell.conc.update(other.conc)
                self.write_back(cell)
                return None
            if isinstance(other, Cell) and other.kind == "dict":
                ty = cell.sym.ty if cell.sym is not None else self.symbolise(cell, ctx.type_of(other))
                if other.sym is None:
                    for k, v in other.conc.items():
                        self.dict_set(cell, k, v)
                    return None
                s = sort_of(ty)
                a, b = cell.sym.t, ctx.term(other, ty)
                r = z3.Const(ctx.fresh_name("upd"), s)
                k = z3.Const(ctx.fresh_name("k"), sort_of(ty.args[0]))
                ctx.assume(z3.ForAll([k], z3.And(
                    z3.Select(s.dom(r), k) == z3.Or(z3.Select(s.dom(a), k), z3.Select(s.dom(b), k)),
                    z3.Select(s.val(r), k) == z3.If(z3.Select(s.dom(b), k), z3.Select(s.val(b), k), z3.Select(s.val(a), k)))))
                cell.sym = SV(ty, r)
                self.write_back(cell)
                return None
            raise Unsupported("dict.update")
        if name == "pop":
            self.mutate(cell, "pop")
            if cell.sym is None:
                hk = self._hashable(args[0])
                if hk in cell.conc:
                    v = cell.conc.pop(hk)
                    self.write_back(cell)
                    return v
                if len(args) > 1:
                    return args[1]
                ctx.may_raise(True, "KeyError", "dict.pop")
                raise Infeasible()
            if getattr(cell, "unknown", False):
                return Opaque("dict-item", fresh=cell.fresh)
            # symbolic map: pop(k) raises KeyError unless k is a key; pop(k, d) gives d then; the key is gone afterwards
            ty = cell.sym.ty
            s_ = sort_of(ty)
            kt = ctx.term(args[0], ty.args[0])
            present = z3.Select(s_.dom(cell.sym.t), kt)
            if len(args) > 1:
                if ctx.decide(present, "pop: key present"):
                    v = ctx.wrap(z3.Select(s_.val(cell.sym.t), kt), ty.args[1])
                    self.dict_del(cell, args[0])
                    return v
                return args[1]
            v = self.dict_get(cell, args[0], raising=True)
            self.dict_del(cell, args[0])
            return v
        if name == "setdefault":
            if getattr(cell, "unknown", False):
                return Opaque("dict-item", fresh=cell.fresh)
            default = args[1] if len(args) > 1 else None
            if cell.sym is None:
                try:
                    hk = self._hashable(args[0])
                except Unsupported:
                    raise Unsupported("dict.setdefault with a symbolic key on a concrete dict")
                if hk in cell.conc:
                    return cell.conc[hk]
                self.dict_set(cell, args[0], default)
                return default
            ty = cell.sym.ty
            s_ = sort_of(ty)
            kt = ctx.term(args[0], ty.args[0])
            if ctx.decide(z3.Select(s_.dom(cell.sym.t), kt), "setdefault: key present"):
                return ctx.wrap(z3.Select(s_.val(cell.sym.t), kt), ty.args[1])
            self.dict_set(cell, args[0], default)
            return default
        raise Unsupported(f"dict.{name}")

    # ------------------------------------------------------------------ set
    def set_method(self, cell, name, args, kwargs):
        ctx = self.ctx
        if name == "add":
            self.set_add(cell, args[0])
            return None
        if name == "copy":
            return Cell("set", conc=set(cell.conc) if cell.conc is not None else None, sym=cell.sym, fresh=True)
        if name == "union":
            r = cell
            for a in args:
                if isinstance(a, (tuple,)):
                    a = Cell("set", conc=set(a))
                r = self.set_union(r, a)
            return r
        if name in ("intersection", "difference", "issubset", "issuperset", "isdisjoint"):
            other = args[0]
            if cell.sym is None and isinstance(other, Cell) and other.sym is None:
                a, b = set(cell.conc), set(other.conc if other.kind != "dict" else other.conc.keys())
                r = getattr(a, name)(b)
                return Cell("set", conc=r, fresh=True) if isinstance(r, set) else r
            if name in ("intersection", "difference") and isinstance(other, Cell) and other.kind == "set" and len(args) == 1:
                return self.binop(ast.Sub() if name == "difference" else ast.BitAnd(), cell, other)
            raise Unsupported(f"symbolic set.{name}")
        if name in ("discard", "remove"):
            self.mutate(cell, name)
            if cell.sym is None:
                hk = self._hashable(args[0])
                if name == "remove" and hk not in cell.conc:
                    ctx.may_raise(True, "KeyError", "set.remove")
                    raise Infeasible()
                cell.conc.discard(hk)
            else:
                ty = cell.sym.ty
                kt = ctx.term(args[0], ty.args[0])
                if name == "remove":
                    ctx.may_raise(z3.Not(z3.Select(cell.sym.t, kt)), "KeyError", "set.remove")
                cell.sym = SV(ty, z3.Store(cell.sym.t, kt, z3.BoolVal(False)))
            self.write_back(cell)
            return None
        if name == "update":
            self.mutate(cell, "update")
            u = self.set_union(cell, args[0] if isinstance(args[0], Cell) else Cell("set", conc=set(self.iter_items_concrete(args[0]))))
            cell.conc, cell.sym = u.conc, u.sym
            self.write_back(cell)
            return None
        raise Unsupported(f"set.{name}")
