"""Path context, obligations, value conversions shared by the interpreter."""
import z3
from .vals import (SV, Char, Opaque, Cell, Unsupported, INT, BOOL, REAL, STR, ASTR, NONE, OPQ, TOpt, TList, TTuple,
                   TRef, TMap, TSet, sort_of, alen, aat, ExcValue)
from .strenc import StrOps, is_str

BIRTH = z3.Function("birth", z3.IntSort(), z3.IntSort())   # allocation time of an object reference


_mem_fns = {}


def mem_fn(ty):
    """member(L, e): the set view of a list value (a superset of its elements for lists the code did not build;
    exact relative to the operands for append / extend / filter)."""
    k = repr(ty)
    if k not in _mem_fns:
        _mem_fns[k] = z3.Function("member_" + ty.args[0].key, sort_of(ty), sort_of(ty.args[0]), z3.BoolSort())
    return _mem_fns[k]


def _mentions(f, consts):
    """does the formula mention one of the constants (bound indices of an enclosing comprehension body)"""
    ids = {c.get_id() for c in consts}
    todo, seen = [f], set()
    while todo:
        t = todo.pop()
        i = t.get_id()
        if i in seen:
            continue
        seen.add(i)
        if i in ids:
            return True
        if z3.is_quantifier(t):
            todo.append(t.body())
        elif z3.is_app(t):
            todo.extend(t.children())
    return False


class Infeasible(Exception):
    pass


class PathEnd(Exception):
    """Normal end of a path segment (e.g. after re-establishing a loop invariant)."""


class PyRaise(Exception):
    def __init__(self, exc):
        self.exc = exc


class Obligation:
    def __init__(self, oid, kind, label, assumptions, goal, path, info=None, top=False):
        self.oid = oid
        self.kind = kind
        self.label = label
        self.assumptions = assumptions
        self.goal = goal
        self.path = path
        self.info = info or {}
        self.top = top
        self.verdict = None
        self.backend = None
        self.ms = 0
        self.model = None
        self.detail = ""
        self.hints = []


class Oracle:
    """Fork oracle: the interpreter runs one path per execution; untaken alternatives are queued."""

    def __init__(self):
        self.worklist = [[]]
        self.decisions = []
        self.pos = 0

    def start(self, decisions):
        self.decisions = list(decisions)
        self.pos = 0

    def choose(self, options, feasible):
        """options: number of alternatives; feasible(k) -> bool tells whether alternative k can be taken."""
        if self.pos < len(self.decisions):
            d = self.decisions[self.pos]
            self.pos += 1
            return d
        ok = [k for k in range(options) if feasible(k)]
        if not ok:
            raise Infeasible()
        d = ok[0]
        for alt in ok[1:]:
            self.worklist.append(self.decisions[:self.pos] + [alt])
        self.decisions.append(d)
        self.pos += 1
        return d


class Ctx:
    """State of one path."""

    def __init__(self, engine, contract, oracle):
        self.engine = engine
        self.contract = contract
        self.oracle = oracle
        self.enc = contract.enc
        self.pc = []            # path condition + defining axioms (z3 Bools)
        self.guards = []        # guard stack inside short-circuit expressions
        self.heap = {}          # "Class.field" -> z3 array Int -> sort
        self.heap0 = {}
        self.field_cells = {}   # (key, ref sexpr) -> Cell
        self.obligations = []
        self.counter = 0
        self.alloc = 0
        self.allocated = []     # ref terms allocated on this path
        self.strs = StrOps(self)
        self.spec = False
        self.old_env = None
        self.trace = []         # decision trace labels (for path ids)
        self.try_depth = []     # stack of handler class lists
        self.ghost = {}
        self.notes = []
        self.dead = False
        self.effects = None     # ghost effect trace (list cell) when the contract uses one
        self.frame_violations = []
        self.now = z3.IntVal(0)   # allocation clock: entry objects have birth < 0, objects allocated later birth >= 0
        self.hints = []         # terms scanned for recursive-spec-function applications to unfold (never asserted)

    # ---- naming / assumptions --------------------------------------------
    def fresh_name(self, hint="v"):
        self.counter += 1
        return f"{hint}!{self.counter}"

    def fresh(self, ty, hint="v"):
        if ty == OPQ:
            return Opaque(hint)
        if getattr(self, "bound_vars", None):
            # inside the body of a comprehension over a symbolic iterable the element value must be a FUNCTION of the bound index: a new
            # constant (the result of a contracted call, a new object ...) would be one value shared by every position
            raise Unsupported("a value that is not a function of the element inside a comprehension over a symbolic iterable")
        if ty.name == "Tuple":
            return tuple(self.fresh(t, hint) for t in ty.args)
        t = z3.Const(self.fresh_name(hint), sort_of(ty))
        v = self.wrap(t, ty)
        self.assume_type_inv(v, ty)
        return v

    def assume_type_inv(self, v, ty):
        if ty == ASTR:
            self.assume(alen(v.t) >= 0)
            kc = z3.Int(self.fresh_name("k"))       # characters are code points
            self.assume(z3.ForAll([kc], z3.And(aat(v.t, kc) >= 0, aat(v.t, kc) <= 0x10FFFF), patterns=[aat(v.t, kc)]))
        elif ty.name == "List":
            sv = v.sym if isinstance(v, Cell) else v
            s = sort_of(ty)
            self.assume(s.len(sv.t) >= 0)
            if ty.args[0].name in ("Ref", "Int", "Str"):
                km = z3.Int(self.fresh_name("k"))
                em = z3.Select(s.data(sv.t), km)
                self.assume(z3.ForAll([km], z3.Implies(z3.And(0 <= km, km < s.len(sv.t)), mem_fn(ty)(sv.t, em)), patterns=[em]))
                # ... and only those: a member has a position (skolem function)
                pos = z3.Function(self.fresh_name("pos"), sort_of(ty.args[0]), z3.IntSort())
                ee = z3.Const(self.fresh_name("e"), sort_of(ty.args[0]))
                self.assume(z3.ForAll([ee], z3.Implies(mem_fn(ty)(sv.t, ee),
                                                       z3.And(0 <= pos(ee), pos(ee) < s.len(sv.t),
                                                              z3.Select(s.data(sv.t), pos(ee)) == ee)),
                                      patterns=[mem_fn(ty)(sv.t, ee)]))
            if ty.args[0].name == "Ref":
                # every object stored in an existing list was allocated before now (so it differs from later allocations)
                k = z3.Int(self.fresh_name("k"))
                e = z3.Select(s.data(sv.t), k)
                self.assume(z3.ForAll([k], z3.Implies(z3.And(0 <= k, k < s.len(sv.t)), BIRTH(e) < self.now), patterns=[e]))
        elif ty.name == "Ref":
            self.assume(BIRTH(v.t) < self.now)

    def assume(self, f):
        bv = getattr(self, "bound_vars", None)
        if bv and _mentions(f, bv):
            # a fact about the bound index of a comprehension body would be assumed for ONE arbitrary index and then generalised
            raise Unsupported("an assumption about the bound element inside a comprehension over a symbolic iterable")
        if self.guards:
            f = z3.Implies(z3.And(*self.guards), f)
        self.pc.append(f)

    def path_id(self):
        return "".join(str(d) for d in self.oracle.decisions[:self.oracle.pos]) or "-"

    # ---- decisions --------------------------------------------------------
    def feasible(self, extra):
        s = z3.Solver()
        s.set("timeout", self.engine.feas_timeout)
        s.add(*self.pc)
        s.add(*extra)
        r = s.check()
        return r != z3.unsat

    def decide(self, cond, label=""):
        """Fork on a z3 Bool / python bool; returns python bool and extends the path condition."""
        if isinstance(cond, bool):
            return cond
        cond = z3.simplify(cond)
        if z3.is_true(cond):
            return True
        if z3.is_false(cond):
            return False
        if self.guards:
            raise Unsupported("fork under a short-circuit guard")
        d = self.oracle.choose(2, lambda k: self.feasible([cond if k == 0 else z3.Not(cond)]))
        self.pc.append(cond if d == 0 else z3.Not(cond))
        return d == 0

    def decide_opaque(self, label=""):
        d = self.oracle.choose(2, lambda k: True)
        return d == 0

    def choose(self, n, label=""):
        return self.oracle.choose(n, lambda k: True)

    # ---- obligations ---------------------------------------------------------
    def oblige(self, kind, label, goal, top=False, info=None):
        if isinstance(goal, bool):
            goal = z3.BoolVal(goal)
        if self.guards:
            goal = z3.Implies(z3.And(*self.guards), goal)
        oid = f"{self.contract.cid}:{kind}:{label}"
        ob = Obligation(oid, kind, label, list(self.pc), goal, self.path_id(), info, top)
        ob.hints = self.hints
        self.obligations.append(ob)
        # after asserting, the fact may be assumed on the rest of the path
        self.pc.append(goal)
        return ob

    def undecided(self, kind, label, why):
        oid = f"{self.contract.cid}:{kind}:{label}"
        ob = Obligation(oid, kind, label, [], z3.BoolVal(False), self.path_id(), {"why": why})
        ob.verdict = "undecided"
        ob.detail = why
        self.obligations.append(ob)

    def may_raise(self, cond, exc_cls, label):
        """An operation raises exc_cls when cond holds.  Either fork (handler or raises-clause present)
        or demand that it cannot happen."""
        if isinstance(cond, bool):
            if not cond:
                return
        else:
            cond = z3.simplify(cond)
            if z3.is_false(cond):
                return
        if self.spec:
            return
        if self.engine.exception_expected(self, exc_cls):
            c = cond if not isinstance(cond, bool) else z3.BoolVal(cond)
            if self.guards:
                raise Unsupported("possible exception under short-circuit guard with handler")
            if self.decide(c, f"raise {exc_cls}"):
                raise PyRaise(ExcValue(exc_cls))
            return
        goal = z3.Not(cond) if not isinstance(cond, bool) else z3.BoolVal(not cond)
        self.oblige("safe", f"{exc_cls}@{label}", goal, top=True, info={"exception": exc_cls})

    # ---- wrapping --------------------------------------------------------------
    def wrap(self, t, ty):
        """z3 term -> interpreter value"""
        if ty.name == "Tuple":
            s = sort_of(ty)
            return tuple(self.wrap(s.accessor(0, i)(t), ety) for i, ety in enumerate(ty.args))
        if ty.name in ("List", "Map", "Set"):
            return Cell({"List": "list", "Map": "dict", "Set": "set"}[ty.name], sym=SV(ty, t), fresh=False)
        return SV(ty, t)

    def term(self, v, ty):
        """interpreter value -> z3 term of sort_of(ty)"""
        if isinstance(v, Opaque):
            raise Unsupported(f"opaque value {v.desc} used where {ty} is needed")
        if ty == INT:
            if isinstance(v, bool):
                return z3.IntVal(int(v))
            if isinstance(v, int):
                return z3.IntVal(v)
            if isinstance(v, SV):
                if v.ty == INT:
                    return v.t
                if v.ty == BOOL:
                    return z3.If(v.t, 1, 0)
                if v.ty.name == "Opt" and v.ty.args[0] == INT:
                    self.may_raise(sort_of(v.ty).is_none(v.t), "TypeError", "None-as-int")
                    return sort_of(v.ty).val(v.t)
            if v is None:
                self.may_raise(True, "TypeError", "None-as-int")
                return z3.IntVal(0)
        elif ty == REAL:
            if isinstance(v, (int, float)) and not isinstance(v, bool):
                return z3.RealVal(v)
            if isinstance(v, SV):
                if v.ty == REAL:
                    return v.t
                if v.ty == INT:
                    return z3.ToReal(v.t)
        elif ty == BOOL:
            if isinstance(v, bool):
                return z3.BoolVal(v)
            if isinstance(v, SV) and v.ty == BOOL:
                return v.t
        elif ty == STR:
            return self.strs.to_native(v)
        elif ty == ASTR:
            return self.strs.to_astr(v)
        elif ty.name == "Ref":
            if isinstance(v, SV) and v.ty.name == "Ref":
                return v.t
            if isinstance(v, SV) and v.ty.name == "Opt" and v.ty.args[0].name == "Ref":
                self.may_raise(sort_of(v.ty).is_none(v.t), "AttributeError", "None-as-object")
                return sort_of(v.ty).val(v.t)
        elif ty.name == "Opt":
            s = sort_of(ty)
            if v is None:
                return s.none
            if isinstance(v, SV) and v.ty == ty:
                return v.t
            return s.some(self.term(v, ty.args[0]))
        elif ty.name == "Tuple":
            if isinstance(v, tuple) and len(v) == len(ty.args):
                return sort_of(ty).mk(*[self.term(e, t) for e, t in zip(v, ty.args)])
        elif ty.name == "List":
            s = sort_of(ty)
            if isinstance(v, Cell) and v.kind == "list":
                if v.sym is not None:
                    if v.sym.ty != ty:
                        raise Unsupported(f"list type mismatch {v.sym.ty} vs {ty}")
                    return v.sym.t
                items = v.conc
            elif isinstance(v, SV) and v.ty == ty:
                return v.t
            elif isinstance(v, (list, tuple)):
                items = list(v)
            else:
                raise Unsupported(f"cannot convert {v!r} to {ty}")
            if not items:
                # one canonical term for the empty list of a type (so that empty lists are equal as terms)
                arr = z3.Const("empty_" + ty.args[0].key, z3.ArraySort(z3.IntSort(), sort_of(ty.args[0])))
                empty = s.mk(arr, z3.IntVal(0))
                if ty.args[0].name in ("Ref", "Int", "Str"):
                    e = z3.Const(self.fresh_name("e"), sort_of(ty.args[0]))
                    self.assume(z3.ForAll([e], z3.Not(mem_fn(ty)(empty, e)), patterns=[mem_fn(ty)(empty, e)]))
                return empty
            arr = z3.Const(self.fresh_name("arr"), z3.ArraySort(z3.IntSort(), sort_of(ty.args[0])))
            for k, e in enumerate(items):
                arr = z3.Store(arr, k, self.term(e, ty.args[0]))
            return s.mk(arr, z3.IntVal(len(items)))
        elif ty.name == "Set":
            if isinstance(v, Cell) and v.kind == "set":
                if v.sym is not None:
                    return v.sym.t
                items = list(v.conc)
            elif isinstance(v, (set, frozenset, list, tuple)):
                items = list(v)
            elif isinstance(v, SV) and v.ty == ty:
                return v.t
            else:
                raise Unsupported(f"cannot convert {v!r} to {ty}")
            arr = z3.K(sort_of(ty.args[0]), z3.BoolVal(False))
            for e in items:
                arr = z3.Store(arr, self.term(e, ty.args[0]), z3.BoolVal(True))
            return arr
        elif ty.name == "Map":
            if isinstance(v, Cell) and v.kind == "dict":
                if v.sym is not None:
                    return v.sym.t
                s = sort_of(ty)
                dom = z3.K(sort_of(ty.args[0]), z3.BoolVal(False))
                val = z3.Const(self.fresh_name("mv"), z3.ArraySort(sort_of(ty.args[0]), sort_of(ty.args[1])))
                for k, e in v.conc.items():
                    kt = self.term(k, ty.args[0])
                    dom = z3.Store(dom, kt, z3.BoolVal(True))
                    val = z3.Store(val, kt, self.term(e, ty.args[1]))
                return s.mk(dom, val)
            if isinstance(v, SV) and v.ty == ty:
                return v.t
        raise Unsupported(f"cannot convert {v!r} to {ty}")

    def type_of(self, v):
        """static type of an interpreter value (None if not determinable)"""
        if isinstance(v, bool):
            return BOOL
        if isinstance(v, int):
            return INT
        if isinstance(v, float):
            return REAL
        if isinstance(v, str):
            return ASTR if self.enc == "array" else STR
        if isinstance(v, Char):
            return ASTR
        if isinstance(v, SV):
            return v.ty
        if isinstance(v, tuple):
            ts = [self.type_of(e) for e in v]
            if all(t is not None for t in ts):
                return TTuple(*ts)
            return None
        if isinstance(v, Cell):
            if v.sym is not None:
                return v.sym.ty
            if v.kind == "list":
                if v.elem is not None:
                    return TList(v.elem)
                if v.conc:
                    t = self.type_of(v.conc[0])
                    return TList(t) if t is not None else None
            return None
        if isinstance(v, Opaque):
            return OPQ
        return None

    # ---- truthiness / equality ----------------------------------------------------
    def truth(self, v):
        """python bool or z3 Bool"""
        if v is None:
            return False
        if isinstance(v, (bool, int, float)):
            return bool(v)
        if is_str(v):
            return self.strs.truth(v)
        if isinstance(v, tuple):
            return len(v) > 0
        if isinstance(v, SV):
            if v.ty == BOOL:
                return v.t
            if v.ty == INT or v.ty == REAL:
                return v.t != 0
            if v.ty.name == "Ref":
                hook = getattr(self.engine, "truth_of_object", None)
                return hook(self, v) if hook else True
            if v.ty.name == "Opt":
                s = sort_of(v.ty)
                inner = self.truth(self.wrap(s.val(v.t), v.ty.args[0]))
                if isinstance(inner, bool):
                    inner = z3.BoolVal(inner)
                return z3.And(z3.Not(s.is_none(v.t)), inner)
            if v.ty.name == "List":
                return sort_of(v.ty).len(v.t) > 0
        if isinstance(v, Cell):
            if getattr(v, "unknown", False):
                raise Unsupported("truthiness of a container of unknown content")
            if v.sym is None:
                return len(v.conc) > 0
            if v.kind == "list":
                return sort_of(v.sym.ty).len(v.sym.t) > 0
            k = z3.Const(self.fresh_name("k"), sort_of(v.sym.ty.args[0]))
            dom = sort_of(v.sym.ty).dom(v.sym.t) if v.kind == "dict" else v.sym.t
            return z3.Exists([k], z3.Select(dom, k))
        if isinstance(v, Opaque):
            raise Unsupported(f"truthiness of opaque {v.desc}")
        if isinstance(v, ExcValue):
            return True
        from .vals import Closure, ClassRef, BoundMethod, Builtin
        if isinstance(v, (Closure, ClassRef, BoundMethod, Builtin)):
            return True
        raise Unsupported(f"truthiness of {v!r}")

    def zbool(self, b):
        return z3.BoolVal(b) if isinstance(b, bool) else b

    def equal(self, a, b):
        """python bool or z3 Bool for a == b"""
        if isinstance(a, Opaque) or isinstance(b, Opaque):
            raise Unsupported("equality on opaque values")
        if a is None or b is None:
            return self.is_none(a if b is None else b) if (a is None) != (b is None) else True
        if is_str(a) and is_str(b):
            return self.strs.eq(a, b)
        if is_str(a) != is_str(b):
            oa, ob = (a, b) if not is_str(a) else (b, a)
            if isinstance(oa, SV) and oa.ty.name == "Opt" and oa.ty.args[0] in (STR, ASTR):
                s = sort_of(oa.ty)
                inner = self.strs.eq(self.wrap(s.val(oa.t), oa.ty.args[0]), ob)
                return z3.And(z3.Not(s.is_none(oa.t)), self.zbool(inner))
            return False
        if isinstance(a, tuple) and isinstance(b, tuple):
            if len(a) != len(b):
                return False
            parts = [self.equal(x, y) for x, y in zip(a, b)]
            if all(isinstance(p, bool) for p in parts):
                return all(parts)
            return z3.And(*[self.zbool(p) for p in parts])
        if isinstance(a, (bool, int, float)) and isinstance(b, (bool, int, float)):
            return a == b
        ta, tb = self.type_of(a), self.type_of(b)
        if ta is None or tb is None:
            if isinstance(a, Cell) and isinstance(b, Cell) and a.sym is None and b.sym is None and a.kind == b.kind == "list":
                if len(a.conc) != len(b.conc):
                    return False
                return self.equal(tuple(a.conc), tuple(b.conc))
            raise Unsupported(f"equality of {a!r} and {b!r}")
        num = (INT, REAL, BOOL)
        if ta in num and tb in num:
            if REAL in (ta, tb):
                return self.term(a, REAL) == self.term(b, REAL)
            if ta == BOOL and tb == BOOL:
                return self.term(a, BOOL) == self.term(b, BOOL)
            return self.term(a, INT) == self.term(b, INT)
        if ta.name == "Opt" and tb.name != "Opt":
            s = sort_of(ta)
            return z3.And(z3.Not(s.is_none(a.t)), self.zbool(self.equal(self.wrap(s.val(a.t), ta.args[0]), b)))
        if tb.name == "Opt" and ta.name != "Opt":
            return self.equal(b, a)
        if ta == tb:
            if ta.name == "List":
                s = sort_of(ta)
                x, y = self.term(a, ta), self.term(b, tb)
                k = z3.Int(self.fresh_name("k"))
                ea = self.wrap(z3.Select(s.data(x), k), ta.args[0])
                eb = self.wrap(z3.Select(s.data(y), k), ta.args[0])
                parts = [s.len(x) == s.len(y),
                         z3.ForAll([k], z3.Implies(z3.And(0 <= k, k < s.len(x)), self.zbool(self.equal(ea, eb))))]
                if ta.args[0].name in ("Ref", "Int", "Str"):
                    em = z3.Const(self.fresh_name("e"), sort_of(ta.args[0]))     # equal lists have the same members
                    parts.append(z3.ForAll([em], mem_fn(ta)(x, em) == mem_fn(ta)(y, em)))
                return z3.And(*parts)
            return self.term(a, ta) == self.term(b, tb)
        if ta.name == "Ref" and tb.name == "Ref":
            return a.t == b.t
        return False

    def is_none(self, v):
        if v is None:
            return True
        if isinstance(v, SV) and v.ty.name == "Opt":
            return sort_of(v.ty).is_none(v.t)
        if isinstance(v, Opaque):
            raise Unsupported("None test on opaque value")
        return False

    def unopt(self, v, exc="TypeError", label="None"):
        """strip Optional: obligation / fork that the value is not None"""
        if isinstance(v, SV) and v.ty.name == "Opt":
            s = sort_of(v.ty)
            self.may_raise(s.is_none(v.t), exc, label)
            return self.wrap(s.val(v.t), v.ty.args[0])
        if v is None:
            self.may_raise(True, exc, label)
            raise Infeasible()
        return v
