"""pyvc - a small contract-based deductive verifier for a subset of Python.

It parses the *real source text* of the repository (never imports it), symbolically
executes the functions named by sidecar contracts, cuts loops at user-supplied
invariants, and emits one SMT query per obligation and path; z3 / cvc5 discharge them.
See /verif/DESIGN.md section 2.
"""
import os

REPO = os.environ.get("HED_REPO", "/repo")
VERIF = os.path.dirname(os.path.dirname(os.path.abspath(__file__)))
