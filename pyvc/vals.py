"""Types, z3 sorts and symbolic values of the pyvc executor."""
import z3


_z3_forall = z3.ForAll


def _tolerant_forall(vs, body, weight=1, qid="", skid="", patterns=[], no_patterns=[]):
    """z3.ForAll that falls back to automatic patterns when a supplied pattern is not admissible (e.g. contains an ite)"""
    if patterns:
        try:
            return _z3_forall(vs, body, weight, qid, skid, patterns, no_patterns)
        except z3.Z3Exception:
            pass
    return _z3_forall(vs, body, weight, qid, skid, [], no_patterns)


z3.ForAll = _tolerant_forall


class Unsupported(Exception):
    """Construct outside the verified subset: the affected obligations are *undecided*."""


# --------------------------------------------------------------------------- types
class Ty:
    def __init__(self, name, *args):
        self.name = name
        self.args = args

    def __repr__(self):
        if not self.args:
            return self.name
        return f"{self.name}[{','.join(map(repr, self.args))}]"

    def __eq__(self, o):
        return isinstance(o, Ty) and repr(self) == repr(o)

    def __hash__(self):
        return hash(repr(self))

    @property
    def key(self):
        return repr(self).replace("[", "_").replace("]", "_").replace(",", "_")


INT, BOOL, REAL, STR, ASTR, NONE, OPQ = (Ty(n) for n in ("Int", "Bool", "Real", "Str", "AStr", "None", "Opaque"))


def TOpt(t):
    return Ty("Opt", t)


def TList(t):
    return Ty("List", t)


def TTuple(*ts):
    return Ty("Tuple", *ts)


def TRef(cls):
    return Ty("Ref", Ty(cls))


def TMap(k, v):
    return Ty("Map", k, v)


def TSet(k):
    return Ty("Set", k)


def parse_type(text, str_ty=None):
    """'List[Tuple[Bool,Tuple[Int,Int]]]' -> Ty.  'Str' resolves to the function's string encoding."""
    import ast
    node = ast.parse(text, mode="eval").body

    def conv(n):
        if isinstance(n, ast.Name):
            if n.id == "Str":
                return str_ty or STR
            base = {"Int": INT, "Bool": BOOL, "Real": REAL, "NStr": STR, "AStr": ASTR, "Opaque": OPQ, "Float": REAL}
            if n.id in base:
                return base[n.id]
            return TRef(n.id)
        if isinstance(n, ast.Subscript):
            head = n.value.id
            sl = n.slice
            args = [conv(e) for e in sl.elts] if isinstance(sl, ast.Tuple) else [conv(sl)]
            if head in ("Opt", "Optional"):
                return TOpt(args[0])
            if head == "List":
                return TList(args[0])
            if head == "Tuple":
                return TTuple(*args)
            if head in ("Map", "Dict"):
                return TMap(*args)
            if head == "Set":
                return TSet(args[0])
            if head == "Ref":
                return args[0]
        raise ValueError(f"bad type {text}")
    return conv(node)


# --------------------------------------------------------------------------- sorts
_sorts = {}
ASTR_SORT = z3.DeclareSort("AStr")
alen = z3.Function("alen", ASTR_SORT, z3.IntSort())
aat = z3.Function("aat", ASTR_SORT, z3.IntSort(), z3.IntSort())


def sort_of(ty):
    k = repr(ty)
    if k in _sorts:
        return _sorts[k]
    if ty == INT:
        s = z3.IntSort()
    elif ty == BOOL:
        s = z3.BoolSort()
    elif ty == REAL:
        s = z3.RealSort()
    elif ty == STR:
        s = z3.StringSort()
    elif ty == ASTR:
        s = ASTR_SORT
    elif ty.name == "Ref":
        s = z3.IntSort()
    elif ty.name == "Opt":
        u = ty.args[0].key
        d = z3.Datatype("Opt_" + u)
        d.declare("none_" + u)
        d.declare("some_" + u, ("val_" + u, sort_of(ty.args[0])))
        s = d.create()
        # constructor / selector symbols are unique per sort (cvc5 requires it); short aliases for the engine
        s.none, s.some, s.val, s.is_none = s.constructor(0)(), s.constructor(1), s.accessor(1, 0), s.recognizer(0)
    elif ty.name == "Tuple":
        u = ty.key
        d = z3.Datatype("Tup_" + u)
        d.declare("mk_" + u, *[(f"f{i}_{u}", sort_of(t)) for i, t in enumerate(ty.args)])
        s = d.create()
        s.mk = s.constructor(0)
    elif ty.name == "List":
        u = ty.args[0].key
        d = z3.Datatype("Lst_" + u)
        d.declare("mkl_" + u, ("data_" + u, z3.ArraySort(z3.IntSort(), sort_of(ty.args[0]))), ("len_" + u, z3.IntSort()))
        s = d.create()
        s.mk, s.data, s.len = s.constructor(0), s.accessor(0, 0), s.accessor(0, 1)
    elif ty.name == "Map":
        u = ty.key
        d = z3.Datatype("Map_" + u)
        d.declare("mkm_" + u, ("dom_" + u, z3.ArraySort(sort_of(ty.args[0]), z3.BoolSort())),
                  ("mval_" + u, z3.ArraySort(sort_of(ty.args[0]), sort_of(ty.args[1]))))
        s = d.create()
        s.mk, s.dom, s.val = s.constructor(0), s.accessor(0, 0), s.accessor(0, 1)
    elif ty.name == "Set":
        s = z3.ArraySort(sort_of(ty.args[0]), z3.BoolSort())
    else:
        raise Unsupported(f"no sort for {ty}")
    _sorts[k] = s
    return s


# --------------------------------------------------------------------------- values
class SV:
    """A z3-backed value."""
    __slots__ = ("ty", "t")

    def __init__(self, ty, t):
        self.ty = ty
        self.t = t

    def __repr__(self):
        return f"SV({self.ty},{self.t})"

    def __deepcopy__(self, memo):
        return self


class Char:
    """A string of length exactly one, known by its code point (array encoding)."""
    __slots__ = ("c",)

    def __init__(self, c):
        self.c = c

    def __repr__(self):
        return f"Char({self.c})"


class Opaque:
    """Value the encoding says nothing about (results of unmodelled externs)."""
    __slots__ = ("desc", "fresh")

    def __init__(self, desc="?", fresh=False):
        self.desc = desc
        self.fresh = fresh

    def __repr__(self):
        return f"Opaque({self.desc})"


class Cell:
    """A mutable container with identity: list / dict / set.
    Exactly one of conc (python structure of values) and sym (SV of TList/TMap/TSet) is set."""
    _ids = 0

    def __init__(self, kind, conc=None, sym=None, fresh=True, elem=None, origin=None):
        self.kind = kind
        self.conc = conc
        self.sym = sym
        self.fresh = fresh      # allocated inside the function under verification
        self.elem = elem        # declared element type (for later symbolisation)
        self.origin = origin    # textual description of where a non-fresh cell came from
        self.home = None        # (field_key, ref_term) when this is the content of an object field
        Cell._ids += 1
        self.id = Cell._ids

    def __repr__(self):
        return f"Cell#{self.id}({self.kind},{'conc' if self.sym is None else 'sym'},fresh={self.fresh})"


class Closure:
    def __init__(self, node, env, name=None):
        self.node = node
        self.env = env
        self.name = name


class ClassRef:
    def __init__(self, name):
        self.name = name

    def __repr__(self):
        return f"ClassRef({self.name})"


class DictView:
    """obj.__dict__ of a modelled object: only whole-object copies (a.__dict__.update(b.__dict__)) are supported"""
    def __init__(self, obj):
        self.obj = obj


class BoundMethod:
    def __init__(self, recv, name):
        self.recv = recv
        self.name = name


class Builtin:
    def __init__(self, name):
        self.name = name

    def __repr__(self):
        return f"Builtin({self.name})"


class ExcValue:
    """An exception instance: class name and constructor args."""
    def __init__(self, cls, args=(), kwargs=None):
        self.cls = cls
        self.args = args
        self.kwargs = kwargs or {}

    def __repr__(self):
        return f"Exc({self.cls})"
